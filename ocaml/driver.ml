(* Generic driver: reads one S-expression per line from stdin, every atom a
   hexadecimal integer (optional leading '-'), calls the extracted
   [Model.run_case entry case] and prints the resulting S-expression on one
   line.  Input line format:  (entry case).  Never changes with the models. *)
open Model

let pos_of_hex (s : string) (from : int) : positive option =
  let acc = ref None in
  for i = from to String.length s - 1 do
    let c = s.[i] in
    let d =
      if c >= '0' && c <= '9' then Char.code c - 48
      else if c >= 'a' && c <= 'f' then Char.code c - 87
      else failwith ("bad hex digit in " ^ s) in
    for k = 3 downto 0 do
      let b = (d lsr k) land 1 = 1 in
      acc := (match !acc with
              | None -> if b then Some XH else None
              | Some p -> Some (if b then XI p else XO p))
    done
  done;
  !acc

let z_of_atom (s : string) : z =
  let neg = String.length s > 0 && s.[0] = '-' in
  match pos_of_hex s (if neg then 1 else 0) with
  | None -> Z0
  | Some p -> if neg then Zneg p else Zpos p

let hex_of_pos (p : positive) : string =
  (* bits, least significant first *)
  let rec bits p acc = match p with
    | XH -> true :: acc
    | XO q -> bits q (false :: acc)
    | XI q -> bits q (true :: acc) in
  let msb_first = bits p [] in            (* built reversed: head is MSB *)
  let n = List.length msb_first in
  let pad = (4 - n mod 4) mod 4 in
  let all = (List.init pad (fun _ -> false)) @ msb_first in
  let buf = Buffer.create (n / 4 + 2) in
  let rec go l = match l with
    | a :: b :: c :: d :: r ->
      let v = (if a then 8 else 0) + (if b then 4 else 0) + (if c then 2 else 0) + (if d then 1 else 0) in
      Buffer.add_char buf "0123456789abcdef".[v]; go r
    | [] -> ()
    | _ -> assert false in
  go all; Buffer.contents buf

let rec print_sexp buf (s : sexp) = match s with
  | A Z0 -> Buffer.add_char buf '0'
  | A (Zpos p) -> Buffer.add_string buf (hex_of_pos p)
  | A (Zneg p) -> Buffer.add_char buf '-'; Buffer.add_string buf (hex_of_pos p)
  | L l ->
    Buffer.add_char buf '(';
    List.iteri (fun i x -> if i > 0 then Buffer.add_char buf ' '; print_sexp buf x) l;
    Buffer.add_char buf ')'

(* parser *)
let parse (line : string) : sexp =
  let n = String.length line in
  let pos = ref 0 in
  let rec skip () = if !pos < n && (line.[!pos] = ' ' || line.[!pos] = '\t' || line.[!pos] = '\r') then (incr pos; skip ()) in
  let rec item () : sexp =
    skip ();
    if !pos >= n then failwith "unexpected end";
    if line.[!pos] = '(' then begin
      incr pos;
      let acc = ref [] in
      let fin = ref false in
      while not !fin do
        skip ();
        if !pos >= n then failwith "unclosed paren";
        if line.[!pos] = ')' then (incr pos; fin := true)
        else acc := item () :: !acc
      done;
      L (List.rev !acc)
    end else begin
      let st = !pos in
      while !pos < n && line.[!pos] <> ' ' && line.[!pos] <> '(' && line.[!pos] <> ')' do incr pos done;
      A (z_of_atom (String.sub line st (!pos - st)))
    end in
  item ()

let () =
  let buf = Buffer.create 65536 in
  (try
    while true do
      let line = input_line stdin in
      if String.length line > 0 then begin
        Buffer.clear buf;
        (match parse line with
         | L [A entry; case] ->
           (try print_sexp buf (run_case entry case)
            with Stack_overflow -> Buffer.add_string buf "(-2)")
         | _ -> Buffer.add_string buf "(-1)");
        print_string (Buffer.contents buf); print_newline ()
      end
    done
  with End_of_file -> ())
