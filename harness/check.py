import os
import sys

sys.path.insert(0, os.path.dirname(os.path.abspath(__file__)))
from lib import core

if __name__ == "__main__":
    sys.exit(core.main(sys.argv[1:]))
