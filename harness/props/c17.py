"""C17: instantiating constants expands templates without moving probability mass.

The runner builds a grammar with constant slots with the real code and
instantiates it; the extracted model (Gram/Consts.v) instantiates the ORIGINAL
table and weights serialised by the runner, and both results are compared:
rule tables, tags, membership and probability of instantiations and near
misses, programs(), Program.all_constants_instantiation, mass and sum."""
import json
from fractions import Fraction

from lib import core
from lib import dsls as D
from lib import progs as P
from lib import semantics as S
from props import c04

ID = "C17"
IMPL_MODULE = "props.c17_impl"
HASHSEEDS = {"quick": [0, 1], "thorough": [0, 1, 2, 3]}
CASE_TIMEOUT = 120
RULE = ("random abstract DSLs (families F1-F6) with 1-2 constant-slot types compiled by CFG.depth_constraint(constant_types=...) "
        "(a CFG is a TTCFG and a DetGrammar) and UCFG.from_CFG, plain or probabilistic (uniform(), hand-made weights + "
        "normalise()); value tables with empty, singleton, several-value and duplicate-value lists, types without slot and "
        "slot types missing from the table.  Observables: the instantiated rule table and tags (as sets), membership and "
        "probability in the instantiated grammar of: the implementation's instantiations of up to 25 templates, near misses "
        "(wrong value, value at a wrong type, un-instantiated slot), the generic C04 candidates; programs(); "
        "Program.all_constants_instantiation of each template (multiset), the mass of its instantiations against the "
        "template's probability, the sum over the instantiated language.  Non-trivial = some template has a constant, the "
        "instantiated language has >= 3 programs, candidates contain members and non-members.")
ASSUMPTIONS = ["values are ints / bools / lists of those, never None; values with different str() are different constants even when Python's == "
               "identifies them (1 and True, 0 and False are mixed in one list in some cases)",
               "float tolerance as in C04 (one extra division per instantiated rule)",
               "grammars as in C04 (finite, <= 2500 programs before instantiation); genuine TTCFGs with constant slots are built as "
               "CFG.depth_constraint(constant_types=...) * DFA counting the slots (or the leaves) used (kind cfgdfa)"]

_CACHE = {}
frac = c04.frac


def gen_values(rng, t):
    if t == S.BOOL:
        pool = [[1, 0], [1, 1]]
    else:
        pool = [[0, k] for k in range(1, 7)]
    r = rng.random()
    if rng.random() < 0.12:
        # values equal under Python's == that are different constants (1 / True, 0 / False)
        l = rng.choice([[[0, 1], [1, 1]], [[1, 0], [0, 0]], [[0, 1], [1, 1], [0, 2]], [[1, 1], [0, 1], [0, 0], [1, 0]]])
        l = list(l)
        rng.shuffle(l)
        return l
    if r < 0.12:
        return []
    if r < 0.35:
        return [rng.choice(pool)]
    if r < 0.55:
        v = rng.choice(pool)
        l = [v, v] + ([rng.choice(pool)] if rng.random() < 0.5 else [])
        rng.shuffle(l)
        return l
    k = rng.randint(2, min(3, len(pool)))
    return rng.sample(pool, k)


def gen(rng, tier):
    n = 60 if tier == "quick" else 500
    cases = []
    for i in range(n):
        kind = ["cfg", "ucfg", "cfgdfa", "cfg", "ucfg"][i % 5]
        dsl = D.gen_dsl(rng, rng.choice(["F1", "F2", "F2", "F3", "F6"]))
        _, ret = D.arrow_parts(dsl["request"])
        used = []
        for _, t in dsl["prims"]:
            a, r = D.arrow_parts(t)
            for x in a + [r]:
                if x[0] == 0 and x not in used:
                    used.append(x)
        k = rng.choice([1, 2, 2])
        cts = [ret] + [b for b in used if b != ret]
        rng.shuffle(cts)
        if ret not in cts[:k] and rng.random() < 0.7:
            cts = [ret] + cts
        dsl["const_types"] = cts[:k]
        bound = rng.choice([2, 2, 3, 3])
        min_var = rng.choice([0, 1, 1])
        n_gram = rng.choice([2, 2, 3])
        vt = []
        for t in dsl["const_types"]:
            if rng.random() < 0.1:
                continue                      # slot type missing from the table
            vt.append([t, gen_values(rng, t)])
        if rng.random() < 0.3:
            extra = [b for b in D.BASES if b not in dsl["const_types"]]
            if extra:
                t = rng.choice(extra)
                vt.append([t, gen_values(rng, t)])      # type without slot
        rng.shuffle(vt)
        cands = D.terms(dsl, ret, bound, rng, 25)
        cands += D.mutants(rng, cands, dsl, 8)
        seen, uniq = set(), []
        for c in cands:
            kk = json.dumps(c)
            if kk not in seen:
                seen.add(kk)
                uniq.append(c)
        prob = 1 if rng.random() < 0.7 else 0
        wmode = rng.choice(["uniform", "hand"])
        spec = "dfa:%d:%s" % (rng.choice([1, 2, 2, 3]), rng.choice(["const", "const", "const", "leaf"])) if kind == "cfgdfa" else ""
        gp = [dsl["prims"], dsl["forbidden"], dsl["request"], bound, min_var, n_gram, dsl["const_types"], spec]
        c = {"kind": kind, "data": [gp, prob, wmode, rng.randrange(1, 10 ** 6), vt, uniq]}
        if len(vt) >= 2 and rng.random() < 0.6:
            c["two_step"] = 1          # one instantiate_constants call per type instead of one call
        cases.append(c)
    return cases


def to_model(case):
    return (0, [])


def model_obs(case, raw):
    return {}


def run_model_on(io):
    entry, wire = io["model_call"]
    raw = core.run_model(ID, [(entry, wire)])[0]
    if raw == [-1] or raw == [-2]:
        raise RuntimeError("model rejected the serialised table: %r" % (raw,))
    return raw


def decode_model(io, raw):
    entry = io["model_call"][0]
    if entry == 1:
        tbl, w, (tok, wf0, wf1), count, total, cres, tres = raw
        programs = count
    else:
        tbl, w, programs, count, total, cres, tres = raw
        tok, wf0, wf1 = 1, None, None
    return {"entry": entry, "table": tbl, "weights": w, "table_ok": tok, "wf0": wf0, "wf1": wf1, "count": count,
            "programs": programs, "sum": frac(total[0]) if total else None,
            "in": [r[0] for r in cres], "prob": [frac(r[1]) for r in cres],
            "templates": [{"insts": (r[0][0] if r[0] else None), "p0": frac(r[1]), "mass": frac(r[2])} for r in tres]}


def cands_tpls(io):
    entry, wire = io["model_call"]
    return (wire[5], wire[6]) if entry == 1 else (wire[6], wire[7])


def table_set(tbl):
    return sorted(json.dumps([nt, r]) for nt, rs in tbl for r in rs), sorted(json.dumps(nt) for nt, _ in tbl)


def compare(case, io, mo):
    diffs = []
    u = 2.0 ** -52
    m = io["max_rules"] + 1
    cands, tpls = cands_tpls(io)
    if table_set(io["table"]) != table_set(mo["table"]):
        a, b = table_set(io["table"])[0], table_set(mo["table"])[0]
        only_i = [x for x in a if x not in b][:2]
        only_m = [x for x in b if x not in a][:2]
        diffs.append("instantiated rule tables differ: only implementation %s, only model %s" % (only_i, only_m))
    if io["prob"]:
        iw, mw = c04.flat_weights(io["weights"]), c04.flat_weights(mo["weights"])
        if set(iw) != set(mw):
            diffs.append("instantiated tag tables have different keys (%d vs %d)" % (len(iw), len(mw)))
        else:
            for k_ in iw:
                if not c04.close(iw[k_], mw[k_], Fraction((m + 3) * u)):
                    diffs.append("tag %s = %r, specified %s" % (k_[:160], float(iw[k_]), mw[k_]))
                    break
    if io["in"] != mo["in"]:
        bad = [i for i, (a, b) in enumerate(zip(io["in"], mo["in"])) if a != b]
        diffs.append("membership in the instantiated grammar differs on %s (first: %s impl=%s model=%s)"
                     % (bad[:5], P.show_prog(cands[bad[0]]), io["in"][bad[0]], mo["in"][bad[0]]))
    if io["prob"]:
        for i, (x, q) in enumerate(zip(io["prob_c"], mo["prob"])):
            if isinstance(x, dict):
                diffs.append("probability(%s) raised %s, specified value %s" % (P.show_prog(cands[i]), x["exc"], q))
                break
            k = c04.psize(cands[i]) + 2
            if not c04.close(frac(x), q, Fraction((k * (m + 3) + 2) * u)):
                diffs.append("probability(%s) = %r, specified value %s" % (P.show_prog(cands[i]), float(frac(x)), q))
                break
    for i, (to, tm) in enumerate(zip(io["templates"], mo["templates"])):
        if "exc" in to:
            if tm["insts"] is not None:
                diffs.append("all_constants_instantiation(%s) raised %s, specified %d programs"
                             % (P.show_prog(tpls[i]), to["exc"], len(tm["insts"])))
            continue
        if tm["insts"] is None:
            diffs.append("all_constants_instantiation(%s) returned programs, the model says KeyError" % P.show_prog(tpls[i]))
            continue
        if sorted(json.dumps(x) for x in to["insts"]) != sorted(json.dumps(x) for x in tm["insts"]):
            diffs.append("all_constants_instantiation(%s) = %s, specified %s"
                         % (P.show_prog(tpls[i]), [P.show_prog(x) for x in to["insts"]][:6], [P.show_prog(x) for x in tm["insts"]][:6]))
            continue
        if io["prob"]:
            k = c04.psize(tpls[i]) + 2
            tol = Fraction((k * (m + 3) + 2 + len(to["insts"])) * u)
            if not c04.close(frac(to["mass"]), tm["mass"], tol) or not c04.close(frac(to["p0"]), tm["p0"], tol):
                diffs.append("mass of the instantiations of %s = %r (template %r), specified %s (template %s)"
                             % (P.show_prog(tpls[i]), float(frac(to["mass"])), float(frac(to["p0"])), tm["mass"], tm["p0"]))
            elif not c04.close(frac(to["mass"]), tm["p0"], tol) and not (tm["p0"] == 0 and frac(to["mass"]) == 0):
                diffs.append("MASS the instantiations of %s carry %r, the template had %r"
                             % (P.show_prog(tpls[i]), float(frac(to["mass"])), float(tm["p0"])))
        if not to["all_in"]:
            diffs.append("an instantiation of %s is not a member of the instantiated grammar" % P.show_prog(tpls[i]))
    if io["programs"] != mo["programs"]:
        diffs.append("programs() = %s after instantiation, the counter of the model gives %s" % (io["programs"], mo["programs"]))
    if io["programs"] != mo["count"] or io["enumerated"] != mo["count"]:
        diffs.append("programs() = %s, runner enumerated %s, the instantiated language has %s programs"
                     % (io["programs"], io["enumerated"], mo["count"]))
    if not io["all_in"]:
        diffs.append("a program of the enumerated instantiated language is not a member")
    if io["prob"]:
        if isinstance(io["sum"], dict):
            diffs.append("probability() raised %s on a member while summing" % io["sum"]["exc"])
        else:
            s = float(frac(io["sum"]))
            if mo["sum"] is not None and abs(s - float(mo["sum"])) > 1e-9:
                diffs.append("float sum over the instantiated language = %r, exact sum of the specified probabilities = %r"
                             % (s, float(mo["sum"])))
            if mo["entry"] == 1 and mo["wf1"] and mo["sum"] is not None and mo["sum"] != 1:
                diffs.append("model inconsistency: wf_at holds after instantiation but the exact sum is %s" % mo["sum"])
            if (mo["wf0"] or mo["entry"] == 2) and abs(s - 1.0) > 1e-9:
                diffs.append("SUM the grammar was normalised, after instantiation the probabilities sum to %r" % s)
    return diffs


def agree(case, io, mo_unused):
    if isinstance(io, dict) and "skipped" in io:
        _CACHE[core.digest(case)] = {"count": 0, "members": 0, "cands": 0, "diffs": [], "with_const": 0}
        return True
    if not isinstance(io, dict) or "model_call" not in io:
        return False
    mo = decode_model(io, run_model_on(io))
    diffs = compare(case, io, mo)
    cands, tpls = cands_tpls(io)
    _CACHE[core.digest(case)] = {
        "count": mo["count"], "members": sum(mo["in"]), "cands": len(mo["in"]), "diffs": diffs,
        "with_const": sum(1 for t in tpls if any(q[1][0] in (2, 3) for q in P.subprogs(t))),
        "wf": [mo["wf0"], mo["wf1"]],
        "sample": [[P.show_prog(t), None if r["insts"] is None else [P.show_prog(x) for x in r["insts"]][:4], str(r["p0"]), str(r["mass"])]
                   for t, r in list(zip(tpls, mo["templates"]))[:4]],
        "cand_sample": [[P.show_prog(p), b] for p, b in list(zip(cands, mo["in"]))[-8:]]}
    return not diffs


def nontrivial(case, mo):
    s = _CACHE.get(core.digest(case))
    return bool(s and s["count"] >= 3 and s["with_const"] > 0 and 0 < s["members"] < s["cands"])


def show_vt(vt):
    return [[c04.show_ty(t), [S.value_from_wire(v) for v in vs]] for t, vs in vt]


def describe(case, mo):
    gp, prob, wmode, wseed, vt, progs = case["data"]
    s = _CACHE.get(core.digest(case), {})
    return {"grammar": case["kind"], "probabilistic": bool(prob), "weights": wmode, "weight_seed": wseed,
            "dsl": {S.prim_name(n): c04.show_ty(t) for n, t in gp[0]},
            "forbidden": [[S.prim_name(k[0]), k[1], [S.prim_name(x) for x in v]] for k, v in gp[1]],
            "request": c04.show_ty(gp[2]), "max_depth": gp[3], "min_variable_depth": gp[4], "n_gram": gp[5],
            "constant_types": [c04.show_ty(t) for t in gp[6]], "values": show_vt(vt),
            "instantiated_language_size": s.get("count"), "wf_at[before, after]": s.get("wf"),
            "templates[template, instantiations, probability, mass]": s.get("sample"),
            "candidates[program, member]": s.get("cand_sample"), "differences": s.get("diffs")}


def shrink(case):
    gp, prob, wmode, wseed, vt, progs = case["data"]
    k = case["kind"]

    def mk(gp=gp, prob=prob, wmode=wmode, vt=vt, progs=progs):
        c = {"kind": k, "data": [gp, prob, wmode, wseed, vt, progs]}
        if case.get("two_step"):
            c["two_step"] = 1
        return c

    if len(progs) > 0:
        h = len(progs) // 2
        yield mk(progs=progs[:h])
        if h:
            yield mk(progs=progs[h:])
    if gp[3] > 1:
        yield mk(gp=gp[:3] + [gp[3] - 1] + gp[4:])
    if wmode != "uniform":
        yield mk(wmode="uniform")
    if gp[1]:
        yield mk(gp=[gp[0], []] + gp[2:])
    for i in range(len(vt)):
        yield mk(vt=vt[:i] + vt[i + 1:])
        t, vs = vt[i]
        for j in range(len(vs)):
            yield mk(vt=vt[:i] + [[t, vs[:j] + vs[j + 1:]]] + vt[i + 1:])
    if len(gp[6]) > 1:
        for i in range(len(gp[6])):
            yield mk(gp=gp[:6] + [gp[6][:i] + gp[6][i + 1:]] + gp[7:])
    used = set()
    for p in progs:
        for q in P.subprogs(p):
            if q[1][0] == 0:
                used.add(q[1][1])
    prims = gp[0]
    for i in range(len(prims)):
        if prims[i][0] not in used:
            np_ = prims[:i] + prims[i + 1:]
            forb = [[kk, [x for x in v if x != prims[i][0]]] for kk, v in gp[1] if kk[0] != prims[i][0]]
            yield mk(gp=[np_, forb] + gp[2:])


def classify(case, io, mo_unused):
    """c17_empty_value_list: the table of values gives an empty list to a type
    that has a constant slot in the grammar, the implementation agrees with the
    model on every observable (tables, tags, membership, probabilities,
    instantiations), and the only complaints are the property-level ones: mass
    of a template not carried by its instantiations / sum below 1."""
    if not isinstance(io, dict) or "model_call" not in io:
        return None
    gp, prob, wmode, wseed, vt, progs = case["data"]
    empty_slot = any(vs == [] and t in gp[6] for t, vs in vt)
    if not empty_slot:
        return None
    try:
        mo = decode_model(io, run_model_on(io))
    except Exception:
        return None
    diffs = compare(case, io, mo)
    if diffs and all(d.startswith("SUM ") or d.startswith("MASS ") for d in diffs):
        return "c17_empty_value_list"
    return None


def theorem_for(case):
    return ("C17_language (contains (inst g) q <-> exists p, contains g p /\\ In q (insts p)), C17_exactly_once, C17_mass, "
            "C17_normalised; unambiguous grammars: correspondence with the same instantiation function (inst_gen)")
