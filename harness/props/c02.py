"""C02: every enumerator yields each program of a finite grammar exactly once and stops."""
import json
from lib import enumgen as EG
from lib import progs as P
from lib import semantics as S

ID = "C02"
IMPL_MODULE = "props.enum_impl"
MODEL_AFTER_IMPL = True
HASHSEEDS = {"quick": [0, 1], "thorough": [0, 1, 2, 3, 4, 5, 6, 7]}
CASE_TIMEOUT = 12
MAX_LANG = 1500
RULE = ("random DSLs (families F1-F3) compiled by the real code into depth-bounded CFGs (depth 2-4, n_gram 1-3, forbidden "
        "patterns) or size-bounded TTCFGs (first-order DSLs, size 3-5); weights uniform / random / skewed 10^-k / with ties / uniform except 1:10^3:10^6 on the deepest non-terminals / half of the function rules at 1e-120 so that program probabilities underflow (also on dedicated depth-4 one-type grammars stored deepest-first or shuffled); "
        "enumerators heap search, bucket search, bee search, beap search, constant-delay search with random parameters.  The "
        "implementation's own rule table and its full output sequence are handed to the verified checker check_enum (membership "
        "by the model's traversal, duplicate test, length = size of the model's language).  For bee search the harness also records, for "
        "the first 300 popped index combinations of each run, the combinations pushed for each of them and compares them with the extracted "
        "Enum/Frontier.children (the abstract expansion the C02_frontier_* theorems are about).  A case is non-trivial when the "
        "language has >= 5 programs and the weights are not uniform.")
ASSUMPTIONS = ["a run that exceeds the per-case time limit counts as non-termination (limit 12 s; languages have at most 1500 programs); for bee search with non-uniform weights this is the known finding c02_bee_search_blowup and only the produced prefix is checked",
               "unambiguous grammars (u-heap-search, u-bucket-search on UCFG.from_CFG and on sharpened UCFG.from_DFTA grammars with several start symbols): the language list comes from the U-table model (Gram/U.v); that this list is duplicate-free is checked at run time, that it is complete for U tables is not proved (C04 U theorems are partial)"]


def gen(rng, tier):
    n = 140 if tier == "quick" else 1400
    cases = []
    for i in range(n):
        cases.append(EG.gen_case(rng, enum=EG.ALL_ENUMS[i % len(EG.ALL_ENUMS)]))
    for i in range(12 if tier == "quick" else 120):
        cases.append(EG.gen_deep_case(rng, ["cd", "cd", "cd", "bps", "hs", "hs_bucket"][i % 6]))
    # probabilities that underflow: half of the function rules weigh 1e-120 (depth 3-4)
    for i in range(8 if tier == "quick" else 80):
        c = EG.gen_deep_case(rng, ["hs", "hs", "bps", "hs_bucket"][i % 4])
        c["weights"]["kind"] = "underflow"
        c["grammar"]["rule_order"] = "asis"
        c["kind"] = c["enum"] + "/cfg-depth4/underflow"
        cases.append(c)
    return cases


def usable(io):
    return isinstance(io, dict) and "out" in io


def to_model(case, io):
    if not usable(io) or io.get("skip"):
        return []
    if "utable" in io:
        return [(11, [io["utable"], io["starts"], EG.fuel_of(case["grammar"]), io["out"]])]
    calls = [(1, [io["table"], io["start"], EG.fuel_of(case["grammar"]), io["out"]])]
    if io.get("pushes"):
        calls.append((21, [par for par, _ in io["pushes"]]))
    return calls


def model_obs(case, raws, io):
    if not raws:
        return None
    r = raws[0]
    keys = ["ok", "nodup", "members", "n_out", "n_lang", "n_lang_next", "first_nonmember", "first_dup", "missing"]
    mo = dict(zip(keys, r))
    mo["missing"] = [P.show_prog(p) for p in mo["missing"]]
    if len(raws) > 1:
        # Enum/Frontier.children of every recorded popped combination vs what bee search pushed for it
        pushed = [g for _, g in io["pushes"]]
        mo["frontier_parents"] = len(pushed)
        mo["frontier_mismatch"] = [[par, g, m] for (par, g), m in zip(io["pushes"], raws[1]) if g != m][:3]
        if len(raws[1]) != len(pushed):
            mo["frontier_mismatch"].append(["length", len(pushed), len(raws[1])])
    return mo


def slim(io):
    if not usable(io):
        return io
    return {"ended": io.get("ended"), "skip": io.get("skip"), "n_out": len(io["out"]), "out_head": [P.show_prog(p) for p in io["out"][:10]]}


def agree(case, io, mo):
    if isinstance(io, dict) and io.get("skip"):
        return True
    if not usable(io) or mo is None:
        return False
    if mo["n_lang"] != mo["n_lang_next"]:
        raise RuntimeError("fuel too small for the model's language: harness bug")
    if mo.get("frontier_mismatch"):
        return False
    return io.get("ended") == "stop" and mo["ok"] == 1


def nontrivial(case, mo):
    return mo is not None and mo["n_lang"] >= 5 and case["weights"]["kind"] != "uniform"


def describe(case, mo):
    g = case["grammar"]
    return {"enumerator": case["enum"], "params": case["params"], "grammar": g["kind"],
            "dsl": {S.prim_name(n): t for n, t in g["prims"]}, "request": g["request"],
            "bound": g.get("max_depth", g.get("max_size")), "n_gram": g["n_gram"], "weights": case["weights"],
            "checker": mo}


def shrink(case):
    g = case["grammar"]
    prims = g["prims"]
    for i in range(len(prims)):
        g2 = dict(g)
        g2["prims"] = prims[:i] + prims[i + 1:]
        g2["forbidden"] = [[k, [x for x in v if x != prims[i][0]]] for k, v in g["forbidden"] if k[0] != prims[i][0]]
        yield dict(case, grammar=g2)
    if g["forbidden"]:
        yield dict(case, grammar=dict(g, forbidden=[]))
    key = "max_size" if g["kind"] == "size" else "max_depth"
    if g[key] > 2:
        yield dict(case, grammar=dict(g, **{key: g[key] - 1}))
    if case["weights"]["kind"] != "ties":
        yield dict(case, weights=dict(case["weights"], kind="ties"))


def should_shrink(case, io, mo):
    # every shrinking candidate of a run that hit the time limit costs the limit again
    return not (isinstance(io, dict) and io.get("ended") == "timeout")


def hs_ttcfg_crash(case, io):
    return case["grammar"]["kind"] == "size" and case["enum"] in ("hs", "hs_bucket") and isinstance(io, dict) \
        and str(io.get("crash", "")).startswith("KeyError") and "heap_search" in str(io.get("tb", ""))


def classify(case, io, mo):
    if case.get("expect_ok"):
        # regression corpus: recorded as handled correctly by the unchanged tree under hash seeds 0-3
        # (tools/okcorpus.py); a failure now is a regression whatever its shape
        return None
    if mo is not None and mo.get("frontier_mismatch"):
        return None   # no recorded finding explains a frontier expansion different from Enum/Frontier.children
    if hs_ttcfg_crash(case, io):
        return "c02_heap_search_ttcfg_incomplete"
    if case["enum"] == "bs" and case["weights"]["kind"] != "uniform" and isinstance(io, dict) \
            and io.get("ended") == "timeout" and mo is not None and mo["nodup"] == 1 and mo["members"] == 1:
        return "c02_bee_search_blowup"
    if case["grammar"]["kind"] == "size" and case["enum"] in ("hs", "hs_bucket") and isinstance(io, dict) and mo is not None \
            and io.get("ended") == "stop" and mo["nodup"] == 1 and mo["members"] == 1 and mo["n_out"] < mo["n_lang"]:
        return "c02_heap_search_ttcfg_incomplete"
    return None


def theorem_for(case):
    if case["enum"] == "bs":
        return ("C02_checker_exactly_once (check_enum = true <-> NoDup out /\\ (In p out <-> contains p)); termination = the run stops within the "
                "limit; frontier: pushes of each popped combination = Frontier.children (C02_frontier_unique_parent, C02_frontier_any_order_*)")
    return "C02_checker_exactly_once (check_enum = true <-> NoDup out /\\ (In p out <-> contains p)); termination = the run stops within the limit"


def extra_coverage(cases, model_obs):
    """Measured on this run (last hash seed): how much of the frontier expansion was compared."""
    runs = [mo for mo in model_obs if mo is not None and "frontier_parents" in mo]
    return {"frontier_runs_compared": len(runs),
            "frontier_popped_combinations_compared": sum(mo["frontier_parents"] for mo in runs),
            "frontier_mismatches": sum(1 for mo in runs if mo.get("frontier_mismatch"))}
