from synth.filter.filter import Filter, IntersectionFilter, NegFilter, UnionFilter
from synth.filter.obs_eq_filter import ObsEqFilter
from synth.semantic.evaluator import DSLEvaluator
from lib import objs as O
from lib import semantics as S


class Stub(Filter):
    def __init__(self, i, box):
        self.i = i
        self.box = box

    def accept(self, obj):
        return bool(self.box[0][self.i])


def leaf(obj_index):
    from synth.syntax.program import Primitive
    from synth.syntax.type_system import INT
    return Primitive("o%d" % obj_index, INT)


def head():
    from synth.syntax.program import Primitive
    from synth.syntax.type_system import INT, Arrow
    return Primitive("g", Arrow(INT, INT))


def obj_prog(obj, wrapped):
    """the program standing for object obj: a leaf, or (g leaf) when some base is a LocalStatelessFilter
    (local filters only look at applications)"""
    from synth.syntax.program import Function
    return Function(head(), [leaf(obj)]) if wrapped else leaf(obj)


def dfta_filter(i, accepting, envs, wrapped=False):
    """A real DFTAFilter that answers envs[obj][i] on the program of object obj."""
    from synth.filter.dfta_filter import DFTAFilter
    from synth.syntax.automata.tree_automaton import DFTA
    rules = {}
    for obj, env in enumerate(envs):
        if bool(env[i]) == bool(accepting):
            rules[(leaf(obj), ())] = 0
    if wrapped:
        rules[(head(), (0,))] = 0
    return DFTAFilter(DFTA(rules, {0}), accepting_dfta=bool(accepting))


def local_filter(i, envs):
    """A real LocalStatelessFilter with a rule for the head g: rejects (g o<obj>) iff envs[obj][i] is false."""
    from synth.filter.local_stateless_filter import LocalStatelessFilter
    return LocalStatelessFilter({"g": lambda a: not bool(envs[int(a.primitive[1:])][i])})


def build(e, box, bases=None, envs=None, nodes=None, wrapped=False):
    """builds the filter object of expression e; every sub-expression's object is appended to nodes
    (children first, left to right, then the node)"""
    k = e[0]
    sub = lambda x: build(x, box, bases, envs, nodes, wrapped)
    if k == 0:
        if bases is not None and bases[e[1]][0] == "dfta":
            f = dfta_filter(e[1], bases[e[1]][1], envs, wrapped)
        elif bases is not None and bases[e[1]][0] == "local":
            f = local_filter(e[1], envs)
        else:
            f = Stub(e[1], box)
    elif k == 1:
        f = -sub(e[1])
    elif k == 2:
        a = sub(e[1])
        b = sub(e[2])
        f = a & b
    elif k == 3:
        a = sub(e[1])
        b = sub(e[2])
        f = a | b
    elif k == 4:
        f = IntersectionFilter(*[sub(x) for x in e[1:]])
    elif k == 5:
        f = UnionFilter(*[sub(x) for x in e[1:]])
    else:
        f = NegFilter(sub(e[1]))
    if nodes is not None:
        nodes.append(f)
    return f


def impl(case):
    if case["kind"] == "algebra":
        e, envs = case["data"]
        box = [None]
        bases = case.get("bases")
        wrapped = bool(bases) and any(b[0] == "local" for b in bases)
        nodes = []
        f = build(e, box, bases, envs, nodes, wrapped)

        def answers(g):
            out = []
            for obj, env in enumerate(envs):
                box[0] = env
                p = obj_prog(obj, wrapped)
                out.append([1 if g.accept(p) else 0, 1 if g.reject(p) else 0])
            return out
        root = answers(f)
        # every intermediate object is asked again AFTER the whole expression was built:
        # composing a filter must not change the filters it was composed from
        return {"root": root, "nodes": [answers(g) for g in nodes]}
    skip, inputs, seq = case["data"]
    ev = DSLEvaluator(O.semantics_dict(sorted(S.PRIMS)))
    ev.skip_exceptions = {S.EXC_BY_ID[i] for i in skip}
    filt = ObsEqFilter(ev, [[S.value_from_wire(v) for v in inp] for inp in inputs])
    out = []
    for w in seq:
        p = O.prog(w)
        try:
            out.append([0, 1 if filt.accept(p) else 0])
        except (ZeroDivisionError, IndexError, ValueError) as ex:
            out.append([1, S.EXC_IDS[type(ex)]])
    return out
