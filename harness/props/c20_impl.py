from synth.filter.filter import Filter, IntersectionFilter, NegFilter, UnionFilter
from synth.filter.obs_eq_filter import ObsEqFilter
from synth.semantic.evaluator import DSLEvaluator
from lib import objs as O
from lib import semantics as S


class Stub(Filter):
    def __init__(self, i, box):
        self.i = i
        self.box = box

    def accept(self, obj):
        return bool(self.box[0][self.i])


def leaf(obj_index):
    from synth.syntax.program import Primitive
    from synth.syntax.type_system import INT
    return Primitive("o%d" % obj_index, INT)


def dfta_filter(i, accepting, envs):
    """A real DFTAFilter that answers envs[obj][i] on the leaf program of object obj."""
    from synth.filter.dfta_filter import DFTAFilter
    from synth.syntax.automata.tree_automaton import DFTA
    rules = {}
    for obj, env in enumerate(envs):
        if bool(env[i]) == bool(accepting):
            rules[(leaf(obj), ())] = 0
    return DFTAFilter(DFTA(rules, {0}), accepting_dfta=bool(accepting))


def build(e, box, bases=None, envs=None):
    k = e[0]
    if k == 0:
        if bases is not None and bases[e[1]][0] == "dfta":
            return dfta_filter(e[1], bases[e[1]][1], envs)
        return Stub(e[1], box)
    if k == 1:
        return -build(e[1], box, bases, envs)
    if k == 2:
        return build(e[1], box, bases, envs) & build(e[2], box, bases, envs)
    if k == 3:
        return build(e[1], box, bases, envs) | build(e[2], box, bases, envs)
    if k == 4:
        return IntersectionFilter(*[build(x, box, bases, envs) for x in e[1:]])
    if k == 5:
        return UnionFilter(*[build(x, box, bases, envs) for x in e[1:]])
    return NegFilter(build(e[1], box, bases, envs))


def impl(case):
    if case["kind"] == "algebra":
        e, envs = case["data"]
        box = [None]
        f = build(e, box, case.get("bases"), envs)
        out = []
        for obj, env in enumerate(envs):
            box[0] = env
            out.append([1 if f.accept(leaf(obj)) else 0, 1 if f.reject(leaf(obj)) else 0])
        return out
    skip, inputs, seq = case["data"]
    ev = DSLEvaluator(O.semantics_dict(sorted(S.PRIMS)))
    ev.skip_exceptions = {S.EXC_BY_ID[i] for i in skip}
    filt = ObsEqFilter(ev, [[S.value_from_wire(v) for v in inp] for inp in inputs])
    out = []
    for w in seq:
        p = O.prog(w)
        try:
            out.append([0, 1 if filt.accept(p) else 0])
        except (ZeroDivisionError, IndexError, ValueError) as ex:
            out.append([1, S.EXC_IDS[type(ex)]])
    return out
