"""C16: equal types/programs hash equally and survive persistence across processes."""
import copy

ID = "C16"
IMPL_MODULE = "props.c16_impl"
HASHSEEDS = {"quick": [0, 1], "thorough": [0, 1, 2, 3]}
CASE_TIMEOUT = 120
RULE = ("pair/triple: two or three objects of one kind (types: primitive, arrow, generic with infix flag, type "
        "variable, restricted type variable, sum, unknown; programs: primitive, variable, constant over "
        "None/ints/integer floats/bools/strings with the three has_value arguments, function with any head, lambda; "
        "depth <= 4), the second/third obtained from the first by 0-3 near-collision mutations (members permuted or "
        "duplicated, arity changed, infix flipped, variable renamed or swapped with a primitive type of the same "
        "name, variable retyped/untyped, constant replaced by an equal-comparing or equally printing value, "
        "has_value changed, lambda retyped, argument added/dropped), at top level or nested; non-trivial = the "
        "objects are not structurally identical and are either equal or have equal hash keys under some repair set.  "
        "derived: objects returned by all_versions/without_unit_arguments/unify/|/DSL.instantiate_polymorphic_types/"
        "clone/depth_first_iter/assign/reset against a constructor-built twin.  xproc: 25-40 such objects written "
        "by a subprocess under another PYTHONHASHSEED through pickle (protocol 2 and default), save_object (optimised "
        "and raw), Dataset.save (tasks with PBE/PBEWithConstants keyed by types) and a dict keyed by tuples, read "
        "back in this process.  xgrammar: DSL, CFG.depth_constraint, ProbDetGrammar.uniform, UCFG.depth_constraint, "
        "ProbUGrammar.uniform of a small DSL written the same way; membership of up to 60 programs and 20 "
        "outsiders, probabilities, programs(), rule tables as dicts; non-trivial = at least 10 programs.")
ASSUMPTIONS = [
    "distinct hash keys give distinct hashes: the comparison expects hash(a) != hash(b) when the model's key trees "
    "differ (a 64-bit collision would be reported; none of the generated atoms collide structurally: variable "
    "indices < 3, string names disjoint from renderings of numbers)",
    "constant values are None, ints, integer-valued floats below 1e15 in absolute value, bools and strings; NaN, "
    "containers and user classes as constant values are outside the model",
    "set-based comparisons are modelled abstractly (mutual inclusion modulo ==) in the repaired model; the literal "
    "transcription of CPython's set algorithms with every repair applied is run beside it on every case and must agree",
    "cross-process legs: the model's claim (Theorem C16_pickle_roundtrip and its container lifting) is that every "
    "flag is 1; grammar-level observables are compared between the loaded grammar and a twin built in the reader",
]

FINDINGS = ["c16_variable_hash_covers_type", "c16_sum_hash_ordered", "c16_generic_zip_truncation",
            "c16_constant_hash_finer_than_eq", "c16_fixedpoly_name_not_compared"]
# repaired in /repo by 45deee3/bc6934a (found independently by C14): no longer in known_findings.json,
# so a recurrence is a VIOLATION; the classifier only names it
DSL_FINDING = "c16_dsl_unit_stale_hash"
UGRAMMAR_FINDING = "c16_ugrammar_no_eq"

# names: base types 1..4, generics 9..10, variables 20..22, primitives 30..34
PRIMS = [1, 2, 3, 4]
GENS = [9, 10]
VARS = [20, 21, 22]
PNAMES = [30, 31, 32, 33]


# ----------------------------------------------------------------------------
# generators
# ----------------------------------------------------------------------------
def gen_ty(rng, depth):
    if depth <= 0 or rng.random() < 0.3:
        k = rng.choice([0, 0, 0, 3, 6])
        if k == 0:
            # a primitive type may carry the name of a type variable
            return [0, rng.choice(PRIMS + PRIMS + VARS[:1])]
        if k == 3:
            return [3, rng.choice(VARS)]
        return [6]
    k = rng.choice([1, 1, 2, 2, 4, 5, 5])
    if k == 1:
        return [1, gen_ty(rng, depth - 1), gen_ty(rng, depth - 1)]
    if k == 2:
        return [2, rng.choice(GENS), rng.randint(0, 1)] + [gen_ty(rng, depth - 1) for _ in range(rng.randint(0, 3))]
    if k == 4:
        return [4, rng.choice(VARS)] + [gen_ty(rng, depth - 1) for _ in range(rng.randint(1, 3))]
    return [5] + [gen_ty(rng, depth - 1) for _ in range(rng.randint(1, 3))]


VALUES = [[0], [1, 1], [2, 1], [3, 1], [4, [1, 1]], [4, [2, 1]], [4, [3]], [1, 0], [2, 0], [3, 0], [4, [1, 0]],
          [4, [4]], [4, [5]], [4, [0, 7]], [4, [0, 8]], [1, 2], [2, 2], [1, -1], [2, -1], [4, [1, -1]], [1, 12], [2, 12]]


def gen_const(rng, depth):
    v = rng.choice(VALUES)
    return [2, gen_ty(rng, min(depth, 1)), v, rng.choice([0, 0, 1, 2])]


def gen_prog(rng, depth):
    if depth <= 0 or rng.random() < 0.3:
        k = rng.choice([0, 0, 1, 1, 2, 2])
        if k == 0:
            return [0, rng.choice(PNAMES), gen_ty(rng, 2)]
        if k == 1:
            return [1, rng.randint(0, 2), rng.choice([[6], [0, 1], [0, 2], gen_ty(rng, 1)])]
        return gen_const(rng, depth)
    k = rng.choice([3, 3, 3, 4])
    if k == 3:
        hk = rng.random()
        if hk < 0.7:
            head = [0, rng.choice(PNAMES), gen_ty(rng, 2)]
        else:
            head = gen_prog(rng, depth - 1)
        return [3, head] + [gen_prog(rng, depth - 1) for _ in range(rng.randint(0, 3))]
    return [4, gen_prog(rng, depth - 1), rng.choice([[6], gen_ty(rng, 1)])]


def ty_positions(t, path=()):
    """paths to every sub-type"""
    out = [path]
    k = t[0]
    if k == 1:
        out += ty_positions(t[1], path + (1,)) + ty_positions(t[2], path + (2,))
    elif k == 2:
        for i in range(3, len(t)):
            out += ty_positions(t[i], path + (i,))
    elif k == 4:
        for i in range(2, len(t)):
            out += ty_positions(t[i], path + (i,))
    elif k == 5:
        for i in range(1, len(t)):
            out += ty_positions(t[i], path + (i,))
    return out


def get_at(t, path):
    for i in path:
        t = t[i]
    return t


def set_at(t, path, new):
    if not path:
        return new
    t = list(t)
    t[path[0]] = set_at(t[path[0]], path[1:], new)
    return t


def mutate_ty_node(rng, t):
    """one near-collision mutation at the root of t"""
    k = t[0]
    choices = ["leaf"]
    if k in (4, 5):
        choices += ["perm", "dup", "drop", "add", "perm", "dup"]
    if k == 4:
        choices += ["rename", "rename", "tosum", "topoly"]
    if k == 5:
        choices += ["tofixed"]
    if k == 2:
        choices += ["arity+", "arity-", "arity+", "infix", "rename", "permg"]
    if k == 3:
        choices += ["rename", "tofixed", "toprim"]
    if k == 0:
        choices += ["rename", "topoly"]
    if k == 1:
        choices += ["swap"]
    c = rng.choice(choices)
    t = list(t)
    first = {2: 3, 4: 2, 5: 1}.get(k)
    if c == "leaf":
        return gen_ty(rng, 1)
    if c in ("perm", "permg"):
        ms = t[first:]
        rng.shuffle(ms)
        return t[:first] + ms
    if c == "dup":
        ms = t[first:]
        if ms:
            ms.insert(rng.randint(0, len(ms)), copy.deepcopy(rng.choice(ms)))
        return t[:first] + ms
    if c in ("drop", "arity-"):
        ms = t[first:]
        if len(ms) > (1 if k != 2 else 0):
            del ms[rng.randrange(len(ms))]
        return t[:first] + ms
    if c in ("add", "arity+"):
        return t + [gen_ty(rng, 1)]
    if c == "rename":
        pool = {0: PRIMS, 2: GENS, 3: VARS, 4: VARS}[k]
        t[1] = rng.choice(pool)
        return t
    if c == "tosum":
        return [5] + t[2:]
    if c == "topoly":
        return [3, t[1]]
    if c == "toprim":
        return [0, t[1]]
    if c == "tofixed":
        if k == 3:
            return [4, t[1], gen_ty(rng, 1)]
        return [4, rng.choice(VARS)] + t[1:]
    if c == "infix":
        t[2] = 1 - t[2]
        return t
    if c == "swap":
        return [1, t[2], t[1]]
    return t


def mutate_ty(rng, t):
    pos = rng.choice(ty_positions(t))
    return set_at(t, pos, mutate_ty_node(rng, get_at(t, pos)))


EQUIV_VALUES = {
    1: [[1, 1], [2, 1], [3, 1], [4, [1, 1]], [4, [2, 1]], [4, [3]]],
    0: [[1, 0], [2, 0], [3, 0], [4, [1, 0]], [4, [4]]],
    None: [[0], [4, [5]]],
}


def prog_positions(p, path=()):
    out = [path]
    if p[0] == 3:
        for i in range(1, len(p)):
            out += prog_positions(p[i], path + (i,))
    elif p[0] == 4:
        out += prog_positions(p[1], path + (1,))
    return out


def mutate_prog_node(rng, p):
    k = p[0]
    p = list(p)
    if k == 0:
        c = rng.choice(["type", "type", "name", "leaf"])
        if c == "type":
            p[2] = mutate_ty(rng, p[2])
        elif c == "name":
            p[1] = rng.choice(PNAMES)
        else:
            return gen_prog(rng, 0)
        return p
    if k == 1:
        c = rng.choice(["type", "type", "untype", "index", "leaf"])
        if c == "type":
            p[2] = rng.choice([[0, 1], [0, 2], mutate_ty(rng, p[2])])
        elif c == "untype":
            p[2] = [6]
        elif c == "index":
            p[1] = rng.randint(0, 2)
        else:
            return gen_prog(rng, 0)
        return p
    if k == 2:
        c = rng.choice(["value", "value", "value", "hv", "hv", "type", "other"])
        if c == "value":
            for cls in EQUIV_VALUES.values():
                if p[2] in cls:
                    p[2] = rng.choice(cls)
                    return p
            p[2] = rng.choice(VALUES)
        elif c == "hv":
            p[3] = rng.choice([0, 1, 2])
        elif c == "type":
            p[1] = mutate_ty(rng, p[1])
        else:
            p[2] = rng.choice(VALUES)
        return p
    if k == 3:
        c = rng.choice(["addarg", "droparg", "head", "permargs", "wrap"])
        if c == "addarg":
            p.append(gen_prog(rng, 0))
        elif c == "droparg" and len(p) > 2:
            del p[rng.randrange(2, len(p))]
        elif c == "head":
            p[1] = mutate_prog_node(rng, p[1])
        elif c == "permargs":
            a = p[2:]
            rng.shuffle(a)
            p = p[:2] + a
        else:
            return [3, p, ]
        return p
    c = rng.choice(["type", "type", "body", "unwrap"])
    if c == "type":
        p[2] = rng.choice([[6], [0, 1], [0, 2]])
    elif c == "body":
        p[1] = mutate_prog_node(rng, p[1])
    else:
        return p[1]
    return p


def mutate_prog(rng, p):
    pos = rng.choice(prog_positions(p))
    return set_at(p, pos, mutate_prog_node(rng, get_at(p, pos)))


def mutate_obj(rng, o, n):
    k, w = o
    for _ in range(n):
        w = mutate_ty(rng, w) if k == 0 else mutate_prog(rng, w)
    return [k, w]


def gen_obj(rng):
    if rng.random() < 0.5:
        return [0, gen_ty(rng, rng.randint(0, 3))]
    return [1, gen_prog(rng, rng.randint(0, 3))]


FIXED_PAIRS = [
    # the design probe's witnesses and their relatives
    [[1, [1, 0, [0, 1]]], [1, [1, 0, [0, 2]]]],
    [[1, [1, 0, [0, 1]]], [1, [1, 0, [6]]]],
    [[0, [5, [0, 1], [0, 2]]], [0, [5, [0, 2], [0, 1]]]],
    [[0, [5, [0, 1], [0, 1]]], [0, [5, [0, 1]]]],
    [[0, [2, 9, 0, [0, 1]]], [0, [2, 9, 0, [0, 1], [0, 2]]]],
    [[0, [2, 9, 0, [0, 1], [0, 2]]], [0, [2, 9, 0, [0, 1]]], [0, [2, 9, 0, [0, 1], [0, 3]]]],
    [[1, [2, [0, 1], [1, 1], 0]], [1, [2, [0, 1], [2, 1], 0]]],
    [[1, [2, [0, 1], [1, 1], 0]], [1, [2, [0, 1], [3, 1], 0]]],
    [[1, [2, [0, 1], [1, 1], 0]], [1, [2, [0, 1], [4, [1, 1]], 0]]],
    [[1, [2, [0, 1], [0], 1]], [1, [2, [0, 1], [0], 0]]],
    [[1, [2, [0, 1], [0], 1]], [1, [2, [0, 1], [4, [5]], 0]]],
    [[0, [4, 20, [0, 1]]], [0, [4, 21, [0, 1]]]],
    [[0, [3, 20]], [0, [4, 20, [0, 1]]]],
    [[0, [0, 20]], [0, [3, 20]]],
    [[0, [1, [3, 20], [0, 1]]], [0, [1, [4, 20, [0, 1]], [0, 1]]]],
    [[0, [5, [3, 20]]], [0, [5, [4, 20, [0, 1]]]]],
    [[0, [5, [0, 20], [3, 20]]], [0, [5, [3, 20], [0, 20]]]],
    [[1, [4, [1, 0, [6]], [0, 1]]], [1, [4, [1, 0, [6]], [0, 2]]]],
    [[0, [2, 9, 1, [0, 1], [0, 2]]], [0, [2, 9, 0, [0, 1], [0, 2]]]],
    [[1, [3, [0, 30, [1, [0, 1], [0, 1]]], [1, 0, [0, 1]]]], [1, [3, [0, 30, [1, [0, 1], [0, 1]]], [1, 0, [0, 2]]]]],
    [[1, [3, [0, 30, [0, 1]]]], [1, [0, 30, [0, 1]]]],
    [[0, [4, 20, [5, [0, 1], [0, 2]]]], [0, [4, 20, [5, [0, 2], [0, 1]]]]],
    [[0, [5, [2, 9, 0, [0, 1]], [0, 2]]], [0, [5, [0, 2], [2, 9, 0, [0, 1], [0, 3]]]]],
]


# one minimal witness per recorded defect is always reported (KNOWN-FINDING while the defect is
# in known_findings.json, VIOLATION otherwise); the other disagreements that a recorded defect
# explains are accepted by agree(), so that the core's budget of minimised disagreements is left
# to unexplained ones
REPRESENTATIVES = {0, 2, 4, 6, 11}


def gen_xproc(rng, n):
    objs = []
    while len(objs) < n:
        o = gen_obj(rng)
        objs.append(o)
        if rng.random() < 0.4:
            objs.append(mutate_obj(rng, o, 1))
    # at least one type and one program
    objs.append([0, gen_ty(rng, 2)])
    objs.append([1, gen_prog(rng, 2)])
    # a constant explicitly holding None (has_value=True) and a falsy value, alone: the flag itself must survive
    objs.append([1, [2, gen_ty(rng, 1), [0], 1]])
    objs.append([1, [2, gen_ty(rng, 1), rng.choice([[1, 0], [3, 0], [4, [4]]]), rng.choice([0, 1])]])
    return objs


INT, BOOL = [0, 1], [0, 2]


def arrow(*ts):
    out = ts[-1]
    for t in reversed(ts[:-1]):
        out = [1, t, out]
    return out


def LIST(t):
    return [2, 9, 0, t]


GRAMMAR_FAMILIES = [
    # (syntax, type request, depth, constant types)
    ([[30, arrow(INT, INT, INT)], [31, INT], [32, arrow(INT, INT)]], arrow(INT, INT), 3, []),
    ([[30, arrow(INT, INT, INT)], [31, INT], [32, arrow(INT, BOOL)], [33, arrow(BOOL, INT, INT, INT)]],
     arrow(INT, BOOL, INT), 3, []),
    ([[30, arrow(INT, INT, INT)], [31, INT], [34, arrow(LIST([3, 20]), [3, 20])], [32, arrow(LIST(INT), INT, LIST(INT))]],
     arrow(LIST(INT), INT), 3, []),
    ([[30, arrow(INT, INT, INT)], [31, INT]], arrow(INT, INT, INT), 3, [INT]),
    ([[30, arrow(arrow(INT, INT), INT, INT)], [31, arrow(INT, INT)], [32, INT]], arrow(INT, INT), 3, []),
    ([[30, arrow([0, 5], INT)], [31, arrow(INT, INT, INT)], [32, INT]], arrow(INT, INT), 3, []),
]


def limit_vars(t, seen=None):
    """At most two distinct type variables per declared type: the library's
    instantiate_polymorphic_types is exponential in their number."""
    if seen is None:
        seen = []
    k = t[0]
    if k in (3, 4):
        if t[1] not in seen:
            if len(seen) < 2:
                seen.append(t[1])
            else:
                t = [k, seen[0]] + t[2:]
        if k == 4:
            return t[:2] + [limit_vars(x, seen) for x in t[2:]]
        return t
    first = {1: 1, 2: 3, 5: 1}.get(k)
    if first is None:
        return t
    return t[:first] + [limit_vars(x, seen) for x in t[first:]]


def gen(rng, tier):
    cases = []
    n_pairs, n_triples, n_derived, n_x, x_size, n_g = (
        (4000, 1500, 60, 8, 30, 8) if tier == "quick" else (12000, 4000, 200, 24, 40, 18))
    for i, objs in enumerate(FIXED_PAIRS):
        c = {"kind": "pair" if len(objs) == 2 else "triple", "objs": objs}
        if i in REPRESENTATIVES:
            c["report"] = True
        cases.append(c)
    cases.append({"kind": "derived", "syntax": [[30, [1, [0, 0], [0, 1]]], [31, [0, 1]]], "unifier": [], "other": [0, 2],
                  "progs": [], "unit": 1, "report": True})
    # cross-process and derived cases come before the many pairs: the core minimises only the
    # first 25 disagreements of a run
    for i in range(n_derived):
        syntax = []
        for n in rng.sample(PNAMES + [34], rng.randint(1, 4)):
            t = gen_ty(rng, rng.randint(0, 2))
            r = rng.random()
            if i % 2 == 0 and r < 0.3:
                t = [1, [0, 0], t]                       # unit -> t
            elif i % 2 == 0 and r < 0.5:
                t = [1, [1, gen_ty(rng, 0), [0, 0]], t]  # (a -> unit) -> t
            elif i % 2 == 0 and r < 0.6:
                t = [1, gen_ty(rng, 0), [1, [0, 0], t]]  # a -> unit -> t
            syntax.append([n, limit_vars(t)])
        cases.append({"kind": "derived", "syntax": syntax,
                      "unifier": [[v, gen_ty(rng, 1)] for v in rng.sample(VARS, 2)],
                      "other": gen_ty(rng, 1),
                      "progs": [gen_prog(rng, rng.randint(0, 3)) for _ in range(4)],
                      "unit": i % 2})
    for i in range(n_x):
        cases.append({"kind": "xproc", "objs": gen_xproc(rng, x_size), "wseed": 1 + rng.randrange(1000)})
    for i in range(n_g):
        syn, tr, depth, ct = GRAMMAR_FAMILIES[i % len(GRAMMAR_FAMILIES)]
        syn = list(syn)
        rng.shuffle(syn)
        cases.append({"kind": "xgrammar", "syntax": syn, "treq": tr, "depth": depth - (i // len(GRAMMAR_FAMILIES)) % 2,
                      "ctypes": ct, "wseed": 1 + rng.randrange(1000)})
        if i == 0:
            cases[-1]["report"] = True
    for _ in range(n_pairs):
        a = gen_obj(rng)
        bb = mutate_obj(rng, a, rng.choice([0, 1, 1, 1, 2, 3]))
        cases.append({"kind": "pair", "objs": [a, bb]})
    for _ in range(n_triples):
        a = gen_obj(rng)
        if rng.random() < 0.5:
            bb = mutate_obj(rng, a, 1)
            c = mutate_obj(rng, bb, 1)
        else:
            bb = mutate_obj(rng, a, 1)
            c = mutate_obj(rng, a, 1)
        objs = [a, bb, c]
        rng.shuffle(objs)
        cases.append({"kind": "triple", "objs": objs})
    return cases


# ----------------------------------------------------------------------------
# model side
# ----------------------------------------------------------------------------
def to_model(case):
    k = case["kind"]
    if k in ("pair", "triple"):
        return (1, case["objs"])
    if k == "xproc":
        return (2, [case["objs"], case["wseed"], case["wseed"] + 1])
    if k == "xgrammar":
        return (2, [[[1, [0, n, t]] for n, t in case["syntax"]] + [[0, case["treq"]]], case["wseed"], case["wseed"] + 1])
    # derived: the input objects themselves (their twins are built by the runner)
    return (2, [[[0, t] for _, t in case["syntax"]] + [[1, p] for p in case["progs"]], 1, 2])


def expected_from_block(block, n, literal):
    """observables of props.c16_impl.observe predicted from one block of the
    model's answer ([eq for ordered pairs] + [key equality for i<j])"""
    npairs = n * (n - 1)
    eq = block[:npairs]
    key = block[npairs:]
    if 2 in block:
        return None
    idx = {}
    c = 0
    for i in range(n):
        for j in range(n):
            if i != j:
                idx[(i, j)] = c
                c += 1
    kidx = {}
    c = 0
    for i in range(n):
        for j in range(i + 1, n):
            kidx[(i, j)] = c
            kidx[(j, i)] = c
            c += 1
    # Theorem C16_eq_hash: equal objects have equal hashes (repaired model)
    hs = [1 if (key[kidx[(i, j)]] or (not literal and eq[idx[(i, j)]])) else 0
          for i in range(n) for j in range(i + 1, n)]

    def h(i, j):
        return hs[kidx[(i, j)]]
    gets = [1 if (h(i, j) and eq[idx[(i, j)]]) else 0 for i in range(n) for j in range(n) if i != j]
    sets = [1 if (h(i, j) and eq[idx[(i, j)]]) else 2 for i in range(n) for j in range(i + 1, n)]
    # x in [y] evaluates y == x
    ins = [eq[idx[(i, j)]] for i in range(n) for j in range(n) if i != j]
    nes = [1 - e for e in eq]
    return {"eq": eq, "hash": hs, "get": gets, "set": sets, "in_list": ins, "ne": nes}


def model_obs(case, raw):
    k = case["kind"]
    if k in ("pair", "triple"):
        n = len(case["objs"])
        if raw[0] != raw[32]:
            raise RuntimeError("abstract repaired model and literal model with every repair disagree on %r: %r vs %r"
                               % (case["objs"], raw[0], raw[32]))
        return {"repaired": expected_from_block(raw[0], n, False),
                "literal": [expected_from_block(blk, n, True) for blk in raw[1:]]}
    return raw


def all_ones(l):
    return isinstance(l, list) and len(l) > 0 and all(x == 1 for x in l)


def agree_repaired(case, io, mo):
    k = case["kind"]
    if not isinstance(io, dict) and k != "derived":
        return False
    if k in ("pair", "triple"):
        return io == mo["repaired"]
    if k == "derived":
        return isinstance(io, list) and len(io) > 0 and all(all_ones(f) for _, f in io)
    if "crash" in io or "hang" in io:
        return False
    if k == "xproc":
        if io.get("seeds_differ") != 1:
            return False
        for route in ("pickle_default", "pickle_2", "save_object", "save_object_raw"):
            if io["routes"].get(route) != mo:
                return False
        return all_ones(io["dataset"]) and all_ones(io["keyed"])
    if k == "xgrammar":
        return (io.get("seeds_differ") == 1 and io.get("programs", 0) >= 1 and all_ones(io.get("pickle"))
                and all_ones(io.get("save_object")) and all_ones(io.get("pickle_u_eq"))
                and all_ones(io.get("save_object_u_eq")))
    return False


def recorded_findings():
    import json
    import os
    path = os.path.join(os.path.dirname(os.path.dirname(os.path.dirname(os.path.abspath(__file__)))),
                        "known_findings.json")
    try:
        data = json.load(open(path))
    except (OSError, ValueError):
        return set()
    return {f["classifier"] for f in data.get("findings", []) if f.get("property") == ID and f.get("status") == "known"}


RECORDED = recorded_findings()


def agree(case, io, mo):
    if agree_repaired(case, io, mo):
        return True
    if case.get("report"):
        return False
    # explained by a defect recorded in known_findings.json (the implementation behaves exactly
    # like the literal model of the code with that repair missing): reported once, through the
    # representatives
    return classify(case, io, mo) in RECORDED


def nontrivial(case, mo):
    k = case["kind"]
    if k in ("pair", "triple"):
        objs = case["objs"]
        if all(o == objs[0] for o in objs[1:]):
            return False
        for e in [mo["repaired"]] + mo["literal"]:
            if e and (1 in e["eq"] or 1 in e["hash"]):
                return True
        return False
    if k == "xproc":
        return len(case["objs"]) >= 10
    return True


def show_ty(t):
    k = t[0]
    if k == 0:
        return "n%d" % t[1]
    if k == 1:
        return "(%s -> %s)" % (show_ty(t[1]), show_ty(t[2]))
    if k == 2:
        return "Generic(n%d%s%s)" % (t[1], "".join(", " + show_ty(x) for x in t[3:]), ", infix" if t[2] else "")
    if k == 3:
        return "'n%d" % t[1]
    if k == 4:
        return "'n%d[%s]" % (t[1], ", ".join(show_ty(x) for x in t[2:]))
    if k == 5:
        return "Sum(%s)" % ", ".join(show_ty(x) for x in t[1:])
    return "?"


def show_val(v):
    k = v[0]
    if k == 0:
        return "None"
    if k == 1:
        return str(v[1])
    if k == 2:
        return "%d.0" % v[1]
    if k == 3:
        return str(bool(v[1]))
    s = v[1]
    return repr({0: "s%d" % s[1] if s[0] == 0 else "", 1: str(s[1]) if s[0] == 1 else "", 2: "%s.0" % (s[1] if s[0] == 2 else ""),
                 3: "True", 4: "False", 5: "None"}[s[0]])


def show_prog(p):
    k = p[0]
    if k == 0:
        return "Primitive(n%d: %s)" % (p[1], show_ty(p[2]))
    if k == 1:
        return "Variable(%d: %s)" % (p[1], show_ty(p[2]))
    if k == 2:
        return "Constant(%s, %s, has_value=%s)" % (show_ty(p[1]), show_val(p[2]), {0: None, 1: True, 2: False}[p[3]])
    if k == 3:
        return "Function(%s, [%s])" % (show_prog(p[1]), ", ".join(show_prog(x) for x in p[2:]))
    return "Lambda(%s, %s)" % (show_prog(p[1]), show_ty(p[2]))


def show_obj(o):
    return show_ty(o[1]) if o[0] == 0 else show_prog(o[1])


def describe(case, mo):
    k = case["kind"]
    if k in ("pair", "triple"):
        return {"kind": k, "objects": [show_obj(o) for o in case["objs"]],
                "model": mo["repaired"] if isinstance(mo, dict) else None}
    if k == "xproc":
        return {"kind": k, "writer_seed": case["wseed"], "objects": [show_obj(o) for o in case["objs"][:6]],
                "n": len(case["objs"])}
    if k == "xgrammar":
        return {"kind": k, "writer_seed": case["wseed"], "syntax": [[n, show_ty(t)] for n, t in case["syntax"]],
                "type_request": show_ty(case["treq"]), "depth": case["depth"]}
    return {"kind": k, "syntax": [[n, show_ty(t)] for n, t in case["syntax"]],
            "programs": [show_prog(p) for p in case["progs"]]}


# ----------------------------------------------------------------------------
# shrinking
# ----------------------------------------------------------------------------
def shrink_ty(t):
    k = t[0]
    first = {1: 1, 2: 3, 4: 2, 5: 1}.get(k)
    if first is None:
        return
    for i in range(first, len(t)):
        yield t[i]                                   # a child
    if k in (2, 4, 5) and len(t) - first > (0 if k == 2 else 1):
        for i in range(first, len(t)):
            yield t[:i] + t[i + 1:]                  # drop a member
    for i in range(first, len(t)):
        for s in shrink_ty(t[i]):
            yield t[:i] + [s] + t[i + 1:]


def shrink_prog(p):
    k = p[0]
    if k == 0:
        for s in shrink_ty(p[2]):
            yield [0, p[1], s]
    elif k == 1:
        for s in shrink_ty(p[2]):
            yield [1, p[1], s]
    elif k == 2:
        for s in shrink_ty(p[1]):
            yield [2, s, p[2], p[3]]
    elif k == 3:
        for i in range(1, len(p)):
            yield p[i]
        for i in range(2, len(p)):
            yield p[:i] + p[i + 1:]
        for i in range(1, len(p)):
            for s in shrink_prog(p[i]):
                yield p[:i] + [s] + p[i + 1:]
    else:
        yield p[1]
        for s in shrink_prog(p[1]):
            yield [4, s, p[2]]
        for s in shrink_ty(p[2]):
            yield [4, p[1], s]


def shrink_obj(o):
    if o[0] == 0:
        for s in shrink_ty(o[1]):
            yield [0, s]
    else:
        for s in shrink_prog(o[1]):
            yield [1, s]


def children_positions(w, is_ty):
    """(positions of sub-objects of the same sort, positions that can be dropped)"""
    k = w[0]
    if is_ty:
        first = {1: 1, 2: 3, 4: 2, 5: 1}.get(k)
        if first is None:
            return [], []
        pos = list(range(first, len(w)))
        return pos, (pos if k in (2, 4, 5) else [])
    if k == 3:
        return list(range(1, len(w))), list(range(2, len(w)))
    if k == 4:
        return [1], []
    return [], []


def joint_shrink(objs):
    """Descend into / drop the same position of all objects (keeps related objects related)."""
    kind = objs[0][0]
    ws = [o[1] for o in objs]
    if any(o[0] != kind for o in objs):
        return
    is_ty = kind == 0
    if len({w[0] for w in ws}) == 1:
        n = min(len(w) for w in ws)
        pos, drop = children_positions(ws[0], is_ty)
        for i in pos:
            if i < n:
                yield [[kind, w[i]] for w in ws]
        for i in drop:
            if i < n:
                yield [[kind, w[:i] + w[i + 1:]] for w in ws]
        # programs: the type carried by a leaf
        if not is_ty and ws[0][0] in (0, 1):
            yield [[0, w[2]] for w in ws]
        if not is_ty and ws[0][0] == 2:
            yield [[0, w[1]] for w in ws]
        # one level down, same position in every object
        for i in pos:
            if i < n and len({w[i][0] for w in ws}) == 1:
                for sub in joint_shrink([[kind, w[i]] for w in ws]):
                    if sub[0][0] == kind:
                        yield [[kind, w[:i] + [x[1]] + w[i + 1:]] for w, x in zip(ws, sub)]


def shrink(case):
    k = case["kind"]
    if case.get("report"):
        return              # the representatives are minimal by construction
    if k in ("pair", "triple"):
        objs = case["objs"]
        if len(objs) == 3:
            for i in range(3):
                yield dict(case, kind="pair", objs=objs[:i] + objs[i + 1:])
        # the same shrink step applied to all objects when they share the shape, then one at a time
        for cand in joint_shrink(objs):
            yield dict(case, objs=cand)
        for i in range(len(objs)):
            for s in itertools_islice(shrink_obj(objs[i]), 25):
                yield dict(case, objs=objs[:i] + [s] + objs[i + 1:])
    elif k == "xproc":
        objs = case["objs"]
        if len(objs) > 1:
            # a stale hash or a changed structure shows on a single object: try those first
            for i in range(min(len(objs), 56)):
                yield dict(case, objs=[objs[i]])
            h = len(objs) // 2
            yield dict(case, objs=objs[:h])
            yield dict(case, objs=objs[h:])
        elif len(objs) == 1:
            for s in itertools_islice(shrink_obj(objs[0]), 12):
                yield dict(case, objs=[s])
    elif k == "derived":
        if len(case["syntax"]) > 1:
            for i in range(len(case["syntax"])):
                yield dict(case, syntax=case["syntax"][:i] + case["syntax"][i + 1:])
        if case["progs"]:
            yield dict(case, progs=[])
            for i in range(len(case["progs"])):
                yield dict(case, progs=case["progs"][:i] + case["progs"][i + 1:])
        if len(case["syntax"]) == 1:
            n, t = case["syntax"][0]
            for s in itertools_islice(shrink_ty(t), 30):
                yield dict(case, syntax=[[n, s]])
    elif k == "xgrammar":
        if len(case["syntax"]) > 1:
            for i in range(len(case["syntax"])):
                yield dict(case, syntax=case["syntax"][:i] + case["syntax"][i + 1:])
        if case["depth"] > 1:
            yield dict(case, depth=case["depth"] - 1)


def itertools_islice(it, n):
    import itertools
    return itertools.islice(it, n)


# ----------------------------------------------------------------------------
# known findings
# ----------------------------------------------------------------------------
def popcount(m):
    return bin(m).count("1")


def classify(case, io, mo):
    """A disagreement on objects is a recorded defect only when the
    implementation behaves exactly like the literal model of the code with
    some of the five repairs missing; the finding named is the first missing
    repair of the largest such repair set.  The DSL finding is recognised by
    its shape: only primitives returned by DSL.instantiate_polymorphic_types
    whose declared type had a unit argument disagree with their twins."""
    k = case["kind"]
    if k in ("pair", "triple"):
        if not isinstance(io, dict) or "eq" not in io:
            return None
        best = None
        for m in range(31):          # 31 = every repair applied: that would not be a disagreement
            if mo["literal"][m] is not None and mo["literal"][m] == io:
                if best is None or popcount(m) > popcount(best):
                    best = m
        if best is None:
            return None
        for bit in range(5):
            if not (best >> bit) & 1:
                return FINDINGS[bit]
        return None
    if k == "derived":
        if not isinstance(io, list) or not io:
            return None
        declared = {n: t for n, t in case["syntax"]}
        bad = 0
        for w, f in io:
            if all_ones(f):
                continue
            bad += 1
            # a Primitive of the DSL, declared with a unit argument, whose own hash is the only
            # stale one (the sub-objects of its type are fine)
            if not (w[0] == 1 and w[1][0] == 0 and w[1][1] in declared and has_unit_argument(declared[w[1][1]])):
                return None
            if not (len(f) >= 2 and all_ones(f[:-1]) and f[-1] == 0):
                return None
        return DSL_FINDING if bad else None
    if k == "xgrammar":
        # everything observable agrees, only == between a loaded and an identically built
        # UCFG / ProbUGrammar is False (UGrammar defines no __eq__: identity)
        if (isinstance(io, dict) and io.get("seeds_differ") == 1 and io.get("programs", 0) >= 1
                and all_ones(io.get("pickle")) and all_ones(io.get("save_object"))
                and io.get("pickle_u_eq") == [0, 0, 0, 0] and io.get("save_object_u_eq") == [0, 0, 0, 0]):
            return UGRAMMAR_FINDING
        return None
    return None


def has_unit_argument(t):
    # UNIT is PrimitiveType("unit"): the generator encodes it as name 0
    while t[0] == 1:
        if t[1] == [0, 0]:
            return True
        t = t[2]
    return False


def theorem_for(case):
    k = case["kind"]
    if k in ("pair", "triple"):
        return ("C16_eq_equivalence, C16_eq_hash, C16_interchangeable (py_eq is an equivalence; equal objects have "
                "equal hashes and are interchangeable as keys).  A disagreement on 'hash' alone between unequal "
                "objects means the cached hash no longer covers the modelled key tree (faithfulness of hash_key, "
                "under the no-collision assumption), not a failure of the implication eq => same hash")
    if k == "derived":
        return "C16_cached_hash with C16_eq_equivalence (an object and a constructor-built twin are equal with equal hashes)"
    return "C16_pickle_roundtrip, C16_pickle_roundtrip_containers, C16_pickle_dict_lookup"
