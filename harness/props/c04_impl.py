"""Implementation side of C04 (and, through the shared helpers, C17): builds a
grammar with the real code, attaches weights the way the case asks for,
serialises the implementation's own rule table and weights into the wire
format of the Coq models (Gram/Det.v, Gram/U.v) and observes membership,
probability, programs() and the float sum over the language."""
import random
from fractions import Fraction

from synth.syntax.grammars.cfg import CFG
from synth.syntax.grammars.ttcfg import TTCFG
from synth.syntax.grammars.u_cfg import UCFG
from synth.syntax.grammars.grammar import NGram
from synth.syntax.grammars.tagged_det_grammar import ProbDetGrammar
from synth.syntax.grammars.tagged_u_grammar import ProbUGrammar
from synth.syntax.program import Constant, Function, Primitive, Program, Variable
from synth.syntax.type_system import Arrow, Type
from lib import objs as O
from props.c01_impl import build_dsl

CAP = 2500          # largest language the model is asked to enumerate
FUEL = 40
SUM_CAP = 300      # the model also returns the exact sum for languages up to this size


# ----------------------------------------------------------------------------
# generic encoder of grammar states (S, T, U components): nested int lists
# ----------------------------------------------------------------------------
def enc(x):
    if x is None:
        return [1]
    if isinstance(x, bool):
        return [7, int(x)]
    if isinstance(x, int):
        return [0, x]
    if isinstance(x, str):
        return [2] + list(x.encode("utf8"))
    if isinstance(x, NGram):
        return [4, x.n] + [enc(e) for e in x.predecessors]
    if isinstance(x, (tuple, list)):
        return [3] + [enc(e) for e in x]
    if isinstance(x, (Primitive, Variable, Constant)):
        return [5, O.sym_wire(x)]
    if isinstance(x, Type):
        return [6, O.ty_wire(x)]
    if isinstance(x, float):
        n, d = x.as_integer_ratio()
        return [8, n, d]
    if isinstance(x, (set, frozenset)):
        return [9] + sorted((enc(e) for e in x), key=repr)
    raise ValueError("cannot encode state %r" % (x,))


def qwire(x):
    f = Fraction(x)
    return [f.numerator, f.denominator]


def det_nt(S):
    return [O.ty_wire(S[0]), enc(S[1][0]), enc(S[1][1])]


def det_table(g):
    out = []
    for S in g.rules:
        rs = []
        for P in g.rules[S]:
            args, T = g.rules[S][P]
            rs.append([O.sym_wire(P), [[O.ty_wire(t), enc(s)] for t, s in args], enc(T)])
        out.append([det_nt(S), rs])
    return out


def det_weights(tags):
    return [[det_nt(S), [[O.sym_wire(P), qwire(tags[S][P])] for P in tags[S]]] for S in tags]


def u_nt(S):
    return [O.ty_wire(S[0]), enc(S[1])]


def u_table(g):
    out = []
    for S in g.rules:
        rs = []
        for P in g.rules[S]:
            rs.append([O.sym_wire(P), [[u_nt(a) for a in alt] for alt in g.rules[S][P]]])
        out.append([u_nt(S), rs])
    return out


def u_weights(tags):
    return [[u_nt(S), [[O.sym_wire(P), [[[u_nt(a) for a in alt], qwire(q)] for alt, q in tags[S][P].items()]]
                       for P in tags[S]]] for S in tags]


# ----------------------------------------------------------------------------
# independent structural enumeration of the language from the rule table
# ----------------------------------------------------------------------------
def det_language(g, start):
    memo = {}

    def lang(nt):
        if nt in memo:
            return memo[nt]
        out = []
        for P, (args, T) in g.rules.get(nt, {}).items():
            if not args:
                out.append((P, T))
                continue
            seqs = [([], T)]
            for (t, s) in args:
                new = []
                for l, y in seqs:
                    for p, y2 in lang((t, (s, y))):
                        new.append((l + [p], y2))
                seqs = new
            out += [(Function(P, l), y) for l, y in seqs]
        memo[nt] = out
        return out

    return [p for p, _ in lang(start)]


def u_language(g):
    memo = {}

    def lang(S):
        if S in memo:
            return memo[S]
        out = []
        for P, alts in g.rules.get(S, {}).items():
            for alt in alts:
                if not alt:
                    out.append(P)
                    continue
                seqs = [[]]
                for a in alt:
                    seqs = [l + [p] for l in seqs for p in lang(a)]
                out += [Function(P, l) for l in seqs]
        memo[S] = out
        return out

    res = []
    for s in g.starts:
        res += lang(s)
    return res


# ----------------------------------------------------------------------------
# grammar construction
# ----------------------------------------------------------------------------
def build_grammar(kind, gp):
    """Returns (grammar, effective size bound, note).  The requested depth / size
    is lowered until programs() <= CAP so that the language can be enumerated."""
    prims, forbidden, request, bound, min_var, n_gram, const_types, constraint = gp
    treq = O.ty(request)
    consts = {O.ty(t) for t in const_types}
    note = ""
    while True:
        dsl = build_dsl(prims, forbidden)
        if kind == "ttcfg":
            g = TTCFG.size_constraint(dsl, treq, bound, max(2, n_gram))
        else:
            g = CFG.depth_constraint(dsl, treq, bound, min_var, n_gram, False, consts)
        if kind == "cfgdfa":
            # TTCFG.clean() of a product is very slow on huge languages (minutes for 10^8 programs):
            # lower the bound on the cheap CFG count first
            if g.programs() > 40 * CAP and bound > 1:
                bound -= 1
                continue
            g = g * counting_dfa(g, constraint)
        n = g.programs()
        if 0 <= n <= CAP or bound <= 1:
            break
        bound -= 1
    if kind == "ucfg":
        g = UCFG.from_CFG(g, True)
    elif kind == "udfta":
        from synth.filter.constraints.dfta_constraints import add_dfta_constraints
        try:
            dfta = add_dfta_constraints(g, [constraint], progress=False)
            g = UCFG.from_DFTA(dfta)
        except Exception as e:      # sharpening itself is the subject of C05, not of this check
            note = "sharpening failed (%s), plain UCFG used" % type(e).__name__
            g = UCFG.from_CFG(g, True)
    return g, bound, note


def counting_dfa(g, spec):
    """DFA over the derivable programs of g whose state counts the occurrences of
    the counted symbols (spec "dfa:<max>:<what>", what = const | var | leaf):
    the product g * dfa is a genuine tree-traversing grammar (state T varies)."""
    from synth.syntax.automata.dfa import DFA
    _, k, what = spec.split(":")
    k = int(k)
    syms = []
    for S in g.rules:
        for P in g.rules[S]:
            if P not in syms:
                syms.append(P)

    def counted(P):
        if what == "const":
            return isinstance(P, Constant)
        if what == "var":
            return isinstance(P, Variable)
        return isinstance(P, (Variable, Constant)) or not isinstance(P.type, Arrow)

    if not any(counted(P) for P in syms):
        what = "leaf"
    rules = {}
    for used in range(k + 1):
        rules[used] = {}
        for P in syms:
            if counted(P):
                if used < k:
                    rules[used][P] = used + 1
            else:
                rules[used][P] = used
    return DFA(0, rules)


def dyadic(rng):
    return rng.randint(1, 64) / 16.0


def near_one(rng, n):
    """n positive dyadic weights (denominator 1024) whose sum is within 1% of 1 but is not 1:
    normalise() must still normalise them"""
    total = rng.choice([1015, 1019, 1022, 1023, 1025, 1027, 1031, 1033])
    ks = [rng.randint(1, 64) for _ in range(n)]
    sc = [max(1, (k * total) // sum(ks)) for k in ks]
    sc[-1] = max(1, sc[-1] + total - sum(sc))
    return [k / 1024.0 for k in sc]


def weigh_det(g, wmode, wseed, cands):
    """Returns (pgrammar, model mode, raw weight wire, sample wire)."""
    if wmode == "uniform":
        return ProbDetGrammar.uniform(g), 0, [], []
    if wmode == "random":
        drawn = []

        def gen(prng):
            # 12-bit dyadic draws: the exact model arithmetic stays small
            x = (int(prng.uniform() * 4095) + 1) / 4096.0
            drawn.append(x)
            return x

        pg = ProbDetGrammar.random(g, seed=wseed, gen=gen)
        it = iter(drawn)
        raw = {S: {P: next(it) for P in g.rules[S]} for S in g.rules}
        return pg, 1, det_weights(raw), []
    if wmode == "hand":
        rng = random.Random(wseed)
        if wseed % 3 == 0:
            raw = {}
            for S in g.rules:
                ws = near_one(rng, len(g.rules[S]))
                raw[S] = {P: w for P, w in zip(g.rules[S], ws)}
        else:
            raw = {S: {P: dyadic(rng) for P in g.rules[S]} for S in g.rules}
        pg = ProbDetGrammar(g, {S: dict(v) for S, v in raw.items()})
        pg.normalise()
        return pg, 1, det_weights(raw), []
    if wmode == "learnt":
        rng = random.Random(wseed)
        members = [p for p in cands if p in g]
        k = min(len(members), rng.randint(1, 6))
        samples = [rng.choice(members) for _ in range(k)] if members else []
        # also samples OUTSIDE the grammar whose offending symbols are leaves (add_count ignores
        # those occurrences; an offending function head raises KeyError and is not used here)
        outside = []
        for q in cands:
            if q in g or len(outside) >= 2 or rng.random() < 0.5:
                continue
            try:
                ProbDetGrammar.pcfg_from_samples(g, [q])
            except (KeyError, IndexError):
                continue
            outside.append(q)
        if samples and outside:
            samples = samples + outside
            rng.shuffle(samples)
        pg = ProbDetGrammar.pcfg_from_samples(g, samples)
        return pg, 3, [], [O.prog_wire(p) for p in samples]
    raise ValueError(wmode)


def weigh_u(g, wmode, wseed):
    if wmode == "uniform":
        return ProbUGrammar.uniform(g), 0, [], []
    if wmode == "random":
        drawn = []

        def gen(prng):
            # 12-bit dyadic draws: the exact model arithmetic stays small
            x = (int(prng.uniform() * 4095) + 1) / 4096.0
            drawn.append(x)
            return x

        pg = ProbUGrammar.random(g, seed=wseed, gen=gen)
        it = iter(drawn)
        raw = {S: {P: {tuple(alt): next(it) for alt in der} for P, der in g.rules[S].items()} for S in g.rules}
        sraw = {S: next(it) for S in g.starts}
        return pg, 1, u_weights(raw), [[u_nt(S), qwire(q)] for S, q in sraw.items()]
    rng = random.Random(wseed)
    if wseed % 3 == 0:
        raw = {}
        for S in g.rules:
            keys = [(P, tuple(alt)) for P, der in g.rules[S].items() for alt in der]
            ws = near_one(rng, len(keys))
            raw[S] = {}
            for (P, alt), w in zip(keys, ws):
                raw[S].setdefault(P, {})[alt] = w
        sraw = {S: w for S, w in zip(g.starts, near_one(rng, len(g.starts)))}
    else:
        raw = {S: {P: {tuple(alt): dyadic(rng) for alt in der} for P, der in g.rules[S].items()} for S in g.rules}
        sraw = {S: dyadic(rng) for S in g.starts}
    pg = ProbUGrammar(g, {S: {P: dict(a) for P, a in v.items()} for S, v in raw.items()}, dict(sraw))
    pg.normalise()
    return pg, 1, u_weights(raw), [[u_nt(S), qwire(q)] for S, q in sraw.items()]


def prob_obs(pg, p):
    try:
        x = pg.probability(p)
    except Exception as e:
        return {"exc": type(e).__name__}
    return qwire(x)


def impl(case):
    kind = case["kind"]
    gp, wmode, wseed, progs = case["data"]
    try:
        g, bound, note = build_grammar(kind, gp)
    except KeyError as e:
        # CFG.depth_constraint raises KeyError from clean() when the language is empty
        # (recorded C01 finding c01_empty_language_raises): no grammar, nothing to check here
        return {"skipped": "grammar construction raised KeyError (empty language)"}
    cands = [O.prog(w) for w in progs]
    rng = random.Random(wseed * 7919 + 1)
    out = {"bound": bound, "note": note}
    if isinstance(g, UCFG):
        pg, mode, raw, sraw = weigh_u(g, wmode if wmode != "learnt" else "hand", wseed)
        lang = u_language(g)
        extra = [lang[rng.randrange(len(lang))] for _ in range(min(30, len(lang)))] if lang else []
        allp = cands + extra
        starts = list(pg.starts)
        out["model_call"] = [2, [u_table(pg), [u_nt(s) for s in starts], mode, raw, sraw,
                                 [O.prog_wire(p) for p in allp], FUEL, int(len(lang) <= SUM_CAP)]]
        out["weights"] = u_weights(pg.tags)
        out["start_weights"] = [[u_nt(S), qwire(q)] for S, q in pg.start_tags.items()]
        out["max_rules"] = max([sum(len(a) for a in pg.rules[S].values()) for S in pg.rules] + [len(starts), 1])
    else:
        pg, mode, raw, samples = weigh_det(g, wmode, wseed, cands)
        lang = det_language(g, g.start)
        extra = [lang[rng.randrange(len(lang))] for _ in range(min(30, len(lang)))] if lang else []
        allp = cands + extra
        out["model_call"] = [1, [det_table(pg), det_nt(pg.start), mode, raw, samples,
                                 [O.prog_wire(p) for p in allp], FUEL,
                                 int(len(lang) <= (4 * SUM_CAP if kind in ("ttcfg", "cfgdfa") else SUM_CAP))]]
        out["weights"] = det_weights(pg.tags)
        out["max_rules"] = max([len(pg.rules[S]) for S in pg.rules] + [1])
    out["in"] = [1 if p in pg else 0 for p in allp]
    out["prob"] = [prob_obs(pg, p) for p in allp]
    out["normalised"] = wmode in ("uniform", "random", "hand")
    out["programs"] = pg.programs()
    out["enumerated"] = len(lang)
    out["all_in"] = all(p in pg for p in lang)
    s = 0.0
    bad = None
    for p in lang:
        try:
            s += pg.probability(p)
        except Exception as e:
            bad = type(e).__name__
            break
    out["sum"] = qwire(s) if bad is None else {"exc": bad}
    return out
