"""C15 implementation runner: auto_type on text, str()/parse_program round trips."""
import itertools
import signal

from synth.syntax.type_system import (
    Arrow, FixedPolymorphicType, Generic, PolymorphicType, PrimitiveType, Sum, UnknownType,
)
from synth.syntax.type_helper import auto_type
from synth.syntax.program import Constant, Function, Primitive, Variable
from synth.syntax.dsl import DSL


# --- names are interned as base-256 numbers with a leading 1 (Syn/TypeParser.v: intern) ---
def intern(s):
    return int.from_bytes(b"\x01" + s.encode("latin-1"), "big")


def unintern(n):
    b = n.to_bytes((n.bit_length() + 7) // 8, "big")
    return b[1:].decode("latin-1")


def text_of(cps):
    return "".join(chr(c) for c in cps)


def cps_of(s):
    return [ord(c) for c in s]


def ty(w):
    t = w[0]
    if t == 0:
        return PrimitiveType(unintern(w[1]))
    if t == 1:
        return Arrow(ty(w[1]), ty(w[2]))
    if t == 2:
        return Generic(unintern(w[1]), *[ty(x) for x in w[2:]])
    if t == 3:
        return PolymorphicType(unintern(w[1]))
    if t == 4:
        return FixedPolymorphicType(unintern(w[1]), *[ty(x) for x in w[2:]])
    if t == 5:
        return Sum(*[ty(x) for x in w[1:]])
    if t == 6:
        return UnknownType()
    raise ValueError(w)


def ty_wire(t):
    if isinstance(t, PrimitiveType):
        return [0, intern(t.type_name)]
    if isinstance(t, Arrow):
        return [1, ty_wire(t.type_in), ty_wire(t.type_out)]
    if isinstance(t, Generic):
        return [2, intern(t.name)] + [ty_wire(x) for x in t.types]
    if isinstance(t, FixedPolymorphicType):
        return [4, intern(t.name)] + [ty_wire(x) for x in t.types]
    if isinstance(t, PolymorphicType):
        return [3, intern(t.name)]
    if isinstance(t, Sum):
        return [5] + [ty_wire(x) for x in t.types]
    if isinstance(t, UnknownType):
        return [6]
    raise ValueError(t)


def value(w):
    if w[0] == 0:
        return w[1]
    if w[0] == 1:
        return bool(w[1])
    if w[0] == 2:
        return [value(x) for x in w[1:]]
    if w[0] == 3:
        return None
    raise ValueError(w)


def value_wire(v):
    if isinstance(v, bool):
        return [1, 1 if v else 0]
    if isinstance(v, int):
        return [0, v]
    if v is None:
        return [3]
    if isinstance(v, (list, tuple)):
        return [2] + [value_wire(x) for x in v]
    raise ValueError(v)


def sym(w):
    t = w[0]
    if t == 0:
        return Primitive(unintern(w[1]), ty(w[2]))
    if t == 1:
        return Variable(w[1], ty(w[2]))
    if t == 2:
        return Constant(ty(w[1]))
    if t == 3:
        return Constant(ty(w[1]), value(w[2]), True)
    raise ValueError(w)


def prog(w):
    if w[0] == 0:
        return sym(w[1])
    return Function(sym(w[1]), [prog(x) for x in w[2:]])


def sym_wire(p):
    if isinstance(p, Primitive):
        return [0, intern(p.primitive), ty_wire(p.type)]
    if isinstance(p, Variable):
        return [1, p.variable, ty_wire(p.type)]
    if isinstance(p, Constant):
        if p.has_value():
            return [3, ty_wire(p.type), value_wire(p.value)]
        return [2, ty_wire(p.type)]
    raise ValueError("not a leaf: %r" % (p,))


def prog_wire(p):
    if isinstance(p, Function):
        return [1, sym_wire(p.function)] + [prog_wire(a) for a in p.arguments]
    return [0, sym_wire(p)]


# --- types -----------------------------------------------------------------
class _Hang(BaseException):
    pass


def run_auto_type(text):
    """auto_type under a short private time limit (an unclosed bracket makes
    the pinned code loop forever while allocating)."""
    old = signal.getsignal(signal.SIGALRM)

    def h(signum, frame):
        raise _Hang()

    signal.signal(signal.SIGALRM, h)
    signal.setitimer(signal.ITIMER_REAL, 0.4)
    try:
        try:
            t = auto_type(text)
        finally:
            signal.setitimer(signal.ITIMER_REAL, 0)
        return {"ok": ty_wire(t)}
    except _Hang:
        return {"hang": 1}
    except MemoryError:
        return {"hang": 1}
    except Exception as e:
        return {"raise": type(e).__name__}
    finally:
        signal.signal(signal.SIGALRM, old)


# --- programs --------------------------------------------------------------
def roundtrip(dsl, request, constants, programs):
    out = []
    for p in programs:
        text = str(p)
        try:
            q = dsl.parse_program(text, request, constants)
        except Exception as e:
            out.append([cps_of(text), {"raise": type(e).__name__}, 0, 0])
            continue
        try:
            w = {"ok": prog_wire(q)}
        except ValueError as e:
            w = {"odd": str(e)[:200]}
        out.append([cps_of(text), w, 1 if q == p else 0, 1 if q.type == p.type else 0])
    return out


def make_dsl(dsl_wire):
    d = DSL({})
    d.list_primitives = [Primitive(text_of(n), ty(t)) for n, t in dsl_wire]
    return d


def enumerate_cfg(cfg, cap):
    rules = cfg.rules

    def gen(S):
        for P, out in rules[S].items():
            args = out[0]
            if not args:
                yield P
            else:
                subs = [list(gen((a[0], (a[1], None)))) for a in args]
                for combo in itertools.product(*subs):
                    yield Function(P, list(combo))

    return list(itertools.islice(gen(cfg.start), cap))


def warm_up(d, constants):
    """Uses the same DSL object first with ANOTHER type request and ANOTHER table of
    constants: parsing must not remember anything from one call to the next."""
    from synth.syntax.type_system import Arrow, PrimitiveType
    z = PrimitiveType("zzother")
    req = z
    for _ in range(6):
        req = Arrow(z, req)
    for i in range(6):
        try:
            d.parse_program("var%d" % i, req)
        except Exception:
            pass
    for key in list(constants):
        try:
            d.parse_program(key, req, {key: (z, "zz")})
        except Exception:
            pass


def impl(case):
    k = case["kind"]
    if k in ("texpr", "showtype", "badtype"):
        return run_auto_type(text_of(case["text"]))
    if k == "progs":
        d = make_dsl(case["dsl"])
        request = ty(case["request"])
        constants = {text_of(key): (ty(t), value(v)) for key, t, v in case["consts"]}
        programs = [prog(w) for w in case["progs"]]
        if case.get("warm"):
            warm_up(d, constants)
        return {"obs": roundtrip(d, request, constants, programs)}
    if k == "grammar":
        from synth.syntax.grammars.cfg import CFG
        syntax = {text_of(n): ty(t) for n, t in case["syntax"]}
        d = DSL(syntax)
        if case["instantiate"] is not None:
            d.instantiate_polymorphic_types(case["instantiate"])
        request = ty(case["request"])
        ctypes = {ty(t) for t, _ in case["const_values"]}
        cfg = CFG.depth_constraint(d, request, case["depth"], constant_types=ctypes)
        constants = {}
        if case["const_values"]:
            table = {ty(t): [value(v) for v in vals] for t, vals in case["const_values"]}
            cfg = cfg.instantiate_constants(table)
            for t, vals in table.items():
                for v in vals:
                    constants[format(v)] = (t, v)
        programs = enumerate_cfg(cfg, case["cap"])
        if case.get("partial"):
            # partial applications of the enumerated programs: drop trailing arguments
            extra = []
            for p in programs:
                if isinstance(p, Function) and len(p.arguments) > 1:
                    extra.append(Function(p.function, p.arguments[:-1]))
            programs = programs + extra[: case["cap"] // 4]
        if case.get("warm"):
            warm_up(d, constants)
        return {
            "dsl": [[cps_of(P.primitive), ty_wire(P.type)] for P in d.list_primitives],
            "request": ty_wire(request),
            "consts": [[cps_of(key), ty_wire(t), value_wire(v)] for key, (t, v) in constants.items()],
            "progs": [prog_wire(p) for p in programs],
            "obs": roundtrip(d, request, constants, programs),
        }
    raise ValueError(k)
