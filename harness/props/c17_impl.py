"""Implementation side of C17: builds a grammar with constant slots with the real
code, instantiates the constants (grammar, weights, programs) and serialises
the ORIGINAL table/weights for the model (Gram/Consts.v computes its own
instantiation) together with everything observed on the instantiated grammar."""
import random

from synth.syntax.grammars.u_cfg import UCFG
from synth.syntax.program import Constant, Function, Primitive, Variable
from lib import objs as O
from lib import semantics as S
from props import c04_impl as C

SUM_CAP = 300


def has_const(p):
    if isinstance(p, Function):
        return has_const(p.function) or any(has_const(a) for a in p.arguments)
    return isinstance(p, Constant)


def near_misses(rng, insts, constants, other_types):
    """wrong value, value at a wrong type, for some instantiated programs."""
    out = []

    def mutate(p, how):
        if isinstance(p, Function):
            idx = [i for i, a in enumerate(p.arguments) if has_const(a)]
            if not idx:
                return None
            i = rng.choice(idx)
            m = mutate(p.arguments[i], how)
            if m is None:
                return None
            return Function(p.function, p.arguments[:i] + [m] + p.arguments[i + 1:])
        if isinstance(p, Constant):
            if how == "value":
                return Constant(p.type, 77 if not isinstance(p.value, bool) else (not p.value), True)
            if how == "type" and other_types:
                return Constant(rng.choice(other_types), p.value, True)
            if how == "slot":
                return Constant(p.type)
        return None

    for q in insts[:12]:
        for how in ("value", "type", "slot"):
            m = mutate(q, how)
            if m is not None:
                out.append(m)
    return out


def impl(case):
    kind = case["kind"]
    gp, prob, wmode, wseed, vwire, progs = case["data"]
    try:
        g, bound, note = C.build_grammar(kind, gp)
    except KeyError:
        return {"skipped": "grammar construction raised KeyError (empty language)"}
    constants = {O.ty(t): [S.value_from_wire(v) for v in vs] for t, vs in vwire}
    rng = random.Random(wseed * 31 + 5)
    cands = [O.prog(w) for w in progs]
    is_u = isinstance(g, UCFG)
    out = {"bound": bound, "prob": bool(prob)}
    if prob:
        if is_u:
            pg, mode, raw, sraw = C.weigh_u(g, wmode, wseed)
        else:
            pg, mode, raw, _ = C.weigh_det(g, wmode, wseed, [])
            sraw = []
    else:
        pg, mode, raw, sraw = g, 0, [], []
    lang0 = C.u_language(g) if is_u else C.det_language(g, g.start)
    with_c = [p for p in lang0 if has_const(p)]
    without = [p for p in lang0 if not has_const(p)]
    rng.shuffle(with_c)
    rng.shuffle(without)
    templates = with_c[:20] + without[:5]
    if case.get("two_step") and len(constants) >= 2:
        # one call per type: the result must be that of a single call with the whole table
        ig = pg
        for t in constants:
            ig = ig.instantiate_constants({t: constants[t]})
    else:
        ig = pg.instantiate_constants(constants)
    # program-side instantiation
    tobs = []
    all_insts = []
    for p in templates:
        try:
            ins = list(p.all_constants_instantiation(constants))
        except KeyError:
            tobs.append({"exc": "KeyError"})
            continue
        all_insts += ins
        o = {"insts": [O.prog_wire(q) for q in ins], "all_in": all(q in ig for q in ins)}
        if prob:
            o["p0"] = C.qwire(pg.probability(p))
            o["mass"] = C.qwire(sum(ig.probability(q) for q in ins))
        tobs.append(o)
    other_types = [O.ty(b) for b in ([0, 0], [0, 1], [0, 10], [0, 11])]
    rng.shuffle(all_insts)
    allc = cands + all_insts[:40] + near_misses(rng, all_insts, constants, other_types) + templates[:10]
    lang1 = C.u_language(ig) if is_u else C.det_language(ig, ig.start)
    want = int(len(lang1) <= SUM_CAP)
    tw = [O.prog_wire(p) for p in templates]
    cw = [O.prog_wire(p) for p in allc]
    if is_u:
        starts = list(g.starts)
        out["model_call"] = [2, [C.u_table(g), [C.u_nt(s) for s in starts], mode, raw, sraw, vwire, cw, tw, C.FUEL, want]]
        out["table"] = C.u_table(ig)
        out["weights"] = C.u_weights(ig.tags) if prob else None
        out["max_rules"] = max([sum(len(a) for a in ig.rules[X].values()) for X in ig.rules] + [len(starts), 1])
    else:
        out["model_call"] = [1, [C.det_table(g), C.det_nt(g.start), mode, raw, vwire, cw, tw, C.FUEL, want]]
        out["table"] = C.det_table(ig)
        out["weights"] = C.det_weights(ig.tags) if prob else None
        out["max_rules"] = max([len(ig.rules[X]) for X in ig.rules] + [1])
    out["templates"] = tobs
    out["in"] = [1 if p in ig else 0 for p in allc]
    out["prob_c"] = [C.prob_obs(ig, p) for p in allc] if prob else None
    out["programs"] = ig.programs()
    out["enumerated"] = len(lang1)
    out["all_in"] = all(p in ig for p in lang1)
    if prob:
        s = 0.0
        bad = None
        for p in lang1:
            try:
                s += ig.probability(p)
            except Exception as e:
                bad = type(e).__name__
                break
        out["sum"] = C.qwire(s) if bad is None else {"exc": bad}
    else:
        out["sum"] = None
    return out
