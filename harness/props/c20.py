"""C20: filters compose as predicates; obs-equivalence keeps one representative."""
from lib import semantics as S
from lib import progs as P

ID = "C20"
IMPL_MODULE = "props.c20_impl"
HASHSEEDS = {"quick": [0, 1], "thorough": [0, 1, 2, 3]}
CASE_TIMEOUT = 20
RULE = ("algebra: random filter expressions (operators &, |, -, and the n-ary constructors, depth <= 5) over "
        "2-5 base filters (stubs, and in 40% of the cases real DFTAFilter objects of either polarity and real LocalStatelessFilter "
        "objects that all carry a rule for the same head), each evaluated on 8 objects with random base answers; the answers of the "
        "object of EVERY sub-expression are asked again after the whole expression was built (composition must not change its "
        "operands); non-trivial = expression of "
        "depth >= 2 whose answers are not constant.  obseq: 12-40 random well-typed programs (with repetitions) of "
        "the fixed semantic DSL presented to one ObsEqFilter with 1-3 reference inputs and a random set of "
        "skippable exceptions; non-trivial = at least one acceptance and one rejection.")
ASSUMPTIONS = ["program identity in ObsEqFilter is compared by hash(): modelled as program equality (hash collisions ignored)",
               "stub filters are pure; DSL semantics is the fixed table of harness/lib/semantics.py"]

ALL_PRIMS = sorted(S.PRIMS)


def gen_expr(rng, depth, nbase):
    if depth <= 0 or rng.random() < 0.2:
        return [0, rng.randrange(nbase)]
    k = rng.choice([1, 2, 2, 2, 3, 3, 3, 4, 5, 6])
    if k in (1, 6):
        return [k, gen_expr(rng, depth - 1, nbase)]
    if k in (2, 3):
        return [k, gen_expr(rng, depth - 1, nbase), gen_expr(rng, depth - 1, nbase)]
    return [k] + [gen_expr(rng, depth - 1, nbase) for _ in range(rng.randint(0, 3))]


def gen(rng, tier):
    cases = []
    n_alg, n_obs = (300, 120) if tier == "quick" else (6000, 1500)
    for _ in range(n_alg):
        nbase = rng.randint(2, 5)
        e = gen_expr(rng, rng.randint(1, 5), nbase)
        envs = [[rng.randint(0, 1) for _ in range(nbase)] for _ in range(8)]
        c = {"kind": "algebra", "data": [e, envs]}
        if rng.random() < 0.4:
            # some base filters are real DFTAFilter objects (either polarity) over leaf programs
            c["bases"] = [rng.choice([["stub"], ["dfta", 1], ["dfta", 0], ["local"], ["local"]]) for _ in range(nbase)]
        cases.append(c)
    for _ in range(n_obs):
        var_types = rng.choice([[S.INT], [S.INT, S.INT], [S.LIST(S.INT)], [S.LIST(S.INT), S.INT], [S.INT, S.BOOL]])
        inputs = [[2] and [P.gen_value(rng, t) for t in var_types] for _ in range(rng.randint(1, 3))]
        skip = rng.choice([[0, 1, 2, 3], [0, 1, 2, 3], [0, 1], [1], []])
        targets = [S.INT, S.INT, S.LIST(S.INT), S.BOOL, S.LIST(S.LIST(S.INT)), S.ARROW(S.INT, S.INT)]
        pool = []
        for _ in range(rng.randint(8, 25)):
            p = P.gen_prog(rng, rng.choice(targets), rng.randint(1, 4), ALL_PRIMS, var_types)
            if p is not None:
                pool.append(p)
        if not pool:
            continue
        seq = [rng.choice(pool) for _ in range(rng.randint(12, 40))]
        cases.append({"kind": "obseq", "data": [skip, inputs, seq]})
    # list-valued outputs whose concatenation over the reference inputs coincides although the
    # outputs differ input by input: ([1],[2,3]) versus ([1,2],[3])
    for _ in range(n_obs // 6):
        seqv = [rng.randint(0, 4) for _ in range(rng.randint(2, 5))]
        i, j = rng.sample(range(len(seqv) + 1), 2)
        L = S.LIST(S.INT)
        lst = lambda xs: [2] + [[0, x] for x in xs]
        inputs = [[lst(seqv[:i]), lst(seqv[:j])], [lst(seqv[i:]), lst(seqv[j:])]]
        progs = [[0, [1, 0, L]], [0, [1, 1, L]], [1, [0, 16, S.PRIMS[16][2]], [0, [1, 0, L]]],
                 [1, [0, 16, S.PRIMS[16][2]], [0, [1, 1, L]]]]
        seq = [rng.choice(progs) for _ in range(rng.randint(4, 10))]
        cases.append({"kind": "obseq", "data": [[0, 1], inputs, seq]})
    return cases


def to_model(case):
    return (1 if case["kind"] == "algebra" else 2, case["data"])


def model_obs(case, raw):
    return raw


def subexprs(e):
    """children first, left to right, then the node (the order in which c20_impl.build records objects)"""
    out = []
    if e[0] != 0:
        for x in e[1:]:
            out += subexprs(x)
    out.append(e)
    return out


_NODES = {}


def node_answers(case):
    from lib import core
    k = core.digest(case)
    if k not in _NODES:
        e, envs = case["data"]
        _NODES[k] = core.run_model(ID, [(1, [x, envs]) for x in subexprs(e)])
    return _NODES[k]


def agree(case, impl_obs, model_obs):
    if case["kind"] != "algebra":
        return impl_obs == model_obs
    if not isinstance(impl_obs, dict) or impl_obs.get("root") != model_obs:
        return False
    # every sub-expression's object, asked after the whole expression was built, still denotes the sub-expression
    return impl_obs.get("nodes") == node_answers(case)


def expr_depth(e):
    if e[0] == 0:
        return 0
    return 1 + max([0] + [expr_depth(x) for x in e[1:]])


def nontrivial(case, mo):
    if case["kind"] == "algebra":
        return expr_depth(case["data"][0]) >= 2 and len({tuple(x) for x in mo}) > 1
    flat = [tuple(x) for x in mo]
    return (0, 1) in flat and (0, 0) in flat


def show_expr(e):
    k = e[0]
    if k == 0:
        return "f%d" % e[1]
    if k == 1:
        return "-%s" % show_expr(e[1])
    if k == 2:
        return "(%s & %s)" % (show_expr(e[1]), show_expr(e[2]))
    if k == 3:
        return "(%s | %s)" % (show_expr(e[1]), show_expr(e[2]))
    if k == 4:
        return "Inter(%s)" % ", ".join(show_expr(x) for x in e[1:])
    if k == 5:
        return "Union(%s)" % ", ".join(show_expr(x) for x in e[1:])
    return "Neg(%s)" % show_expr(e[1])


def describe(case, mo):
    if case["kind"] == "algebra":
        return {"kind": "algebra", "expression": show_expr(case["data"][0]), "stub_answers": case["data"][1][:3],
                "accept_reject": mo[:3]}
    skip, inputs, seq = case["data"]
    return {"kind": "obseq", "skip": skip, "inputs": [[S.value_from_wire(v).__repr__() for v in i] for i in inputs],
            "programs": [P.show_prog(p) for p in seq[:8]], "answers": mo[:8]}


def shrink(case):
    for c in _shrink(case):
        if "bases" in case:
            c["bases"] = case["bases"]
        yield c


def _shrink(case):
    if case["kind"] == "algebra":
        e, envs = case["data"]
        if len(envs) > 1:
            for i in range(len(envs)):
                yield {"kind": "algebra", "data": [e, [envs[i]]]}
        if e[0] != 0:
            for x in e[1:]:
                yield {"kind": "algebra", "data": [x, envs]}
            if e[0] in (4, 5) and len(e) > 2:
                for i in range(1, len(e)):
                    yield {"kind": "algebra", "data": [e[:i] + e[i + 1:], envs]}
            # shrink inside
            for i in range(1, len(e)):
                if e[i][0] != 0:
                    for x in e[i][1:]:
                        yield {"kind": "algebra", "data": [e[:i] + [x] + e[i + 1:], envs]}
    else:
        skip, inputs, seq = case["data"]
        if len(seq) > 1:
            half = len(seq) // 2
            yield {"kind": "obseq", "data": [skip, inputs, seq[:half]]}
            yield {"kind": "obseq", "data": [skip, inputs, seq[half:]]}
            if len(seq) <= 12:
                for i in range(len(seq)):
                    yield {"kind": "obseq", "data": [skip, inputs, seq[:i] + seq[i + 1:]]}
        if len(inputs) > 1:
            for i in range(len(inputs)):
                yield {"kind": "obseq", "data": [skip, inputs[:i] + inputs[i + 1:], seq]}


def classify(case, impl_obs, model_obs):
    return None


def theorem_for(case):
    if case["kind"] == "algebra":
        return "C20_flatten / C20_reject (accept (build e) = denote e)"
    return "C20_obseq_char (obseq_run [] l = spec_run [] l) with C11_history_independent for the evaluator"
