"""C11: program evaluation is compositional and independent of the cache and
its history.  Generator side (no import of synth)."""
from lib import semantics as S
from lib import progs as P

ID = "C11"
IMPL_MODULE = "props.c11_impl"
HASHSEEDS = {"quick": [0, 1], "thorough": [0, 1, 2, 3]}
CASE_TIMEOUT = 20
RULE = ("history: 5-40 operations (eval / clear_cache) on ONE DSLEvaluator; programs are random well-typed terms "
        "(depth <= 5, plus wrappers around earlier programs) over all 33 primitives of the fixed semantic DSL "
        "(failing div/head/checked, higher-order map/compose/apply2, None-aware safe_head/isnone/default, valued and "
        "unvalued constants, a few out-of-range variables), 1-3 distinct input vectors reused along the history, a "
        "random subset of the 4 exception classes as skip set, cache on (3/4) or off.  non-trivial = cache on and the "
        "history evaluates a failing program and later, on the same input and without a clear in between, a strictly "
        "larger program containing it.  ref: one program on one input through a fresh evaluator (reference "
        "semantics alone).")
ASSUMPTIONS = [
    "the skip set and use_cache are fixed for the life of the evaluator (attributes are not mutated between calls)",
    "inputs of one history are typed alike: two input vectors that are == in Python but structurally different "
    "(1 / True / 1.0) share one table in the code and are different keys in the model; never generated",
    "program keys: Program.__eq__/__hash__ is modelled as structural equality (that is property C16); variables of "
    "one history have one type per index",
    "semantic functions are pure and never mutate their arguments; the DSL semantics is the fixed table of "
    "harness/lib/semantics.py; every primitive used is in the semantics dictionary (no KeyError)",
    "programs are applicative terms whose head is a primitive, variable or constant (no Lambda, no Function as head)",
]

ALL_PRIMS = sorted(S.PRIMS)
TARGETS = [S.INT, S.INT, S.INT, S.BOOL, S.LIST(S.INT), S.LIST(S.INT), S.OPTINT, S.LIST(S.LIST(S.INT)),
           S.ARROW(S.INT, S.INT)]
VAR_TYPES = [[S.INT], [S.INT, S.INT], [S.LIST(S.INT)], [S.LIST(S.INT), S.INT], [S.INT, S.BOOL],
             [S.INT, S.LIST(S.INT), S.ARROW(S.INT, S.INT)], [S.OPTINT, S.INT]]
CLEAR = "clear"


def prog_type(w):
    """Type of a well-typed program in wire form."""
    s = w[1]
    t = s[2] if s[0] in (0, 1) else s[1]
    if w[0] == 0:
        return t
    args, r = P.arrow_parts(t)
    n = len(w) - 2
    return S.ARROW(*args[n:], r)


def wrap(rng, q, var_types):
    """A strictly larger well-typed program having q as one argument, or None."""
    qt = prog_type(q)
    cands = []
    for n in ALL_PRIMS:
        args, r = P.arrow_parts(S.PRIMS[n][2])
        for i, a in enumerate(args):
            if a == qt:
                cands.append((n, i, args))
    if not cands:
        return None
    for _ in range(4):
        n, i, args = rng.choice(cands)
        # full application, or a partial one that still includes position i
        k = len(args) if rng.random() < 0.85 else rng.randint(i + 1, len(args))
        subs = []
        for j in range(k):
            if j == i:
                subs.append(q)
            else:
                subs.append(P.gen_prog(rng, args[j], rng.randint(1, 2), ALL_PRIMS, var_types))
        if all(s is not None for s in subs):
            return [1, [0, n, S.PRIMS[n][2]]] + subs
    return None


def proper_subs(w):
    """Proper sub-programs that are applications (worth caching)."""
    return [s for s in P.subprogs(w) if s is not w and s[0] == 1]


def gen_history(rng):
    var_types = rng.choice(VAR_TYPES)
    inputs = []
    for _ in range(rng.randint(1, 3)):
        for _ in range(5):
            inp = [P.gen_value(rng, t) for t in var_types]
            if inp not in inputs:
                inputs.append(inp)
                break
    if rng.random() < 0.15:
        # three arguments of one type and inputs that are shifts of one another: programs reading
        # different arguments then see equal values at different positions
        var_types = [S.INT, S.INT, S.INT]
        a, b, c = [P.gen_value(rng, S.INT) for _ in range(3)]
        inputs = [[a, b, c], [c, a, b], [b, c, a]][:rng.randint(2, 3)]
    skip = sorted(rng.sample([0, 1, 2, 3], rng.choice([0, 1, 2, 2, 3, 4, 4])))
    use_cache = 1 if rng.random() < 0.75 else 0
    pool = []
    for _ in range(rng.randint(5, 14)):
        p = P.gen_prog(rng, rng.choice(TARGETS), rng.choice([1, 2, 3, 3, 4, 4, 5, 5]), ALL_PRIMS, var_types)
        if p is not None:
            pool.append(p)
    # a few special leaves: variable out of range, constant without value
    if rng.random() < 0.15:
        pool.append([0, [1, len(var_types) + rng.randint(0, 1), S.INT]])
    if rng.random() < 0.25:
        pool.append([0, [2, S.OPTINT]])
    if not pool:
        pool.append([0, [1, 0, var_types[0]]])
    n_ops = rng.randint(5, 40)
    ops = []
    if var_types == [S.INT, S.INT, S.INT] and len(inputs) >= 2:
        f = rng.choice([0, 1])                      # add / sub of lib/semantics.py
        head = [0, f, S.PRIMS[f][2]]
        v = lambda i: [0, [1, i, S.INT]]
        p01, p12 = [1, head, v(0), v(1)], [1, head, v(1), v(2)]
        ops += [[0, p01, inputs[0]], [0, p12, inputs[1]], [0, p01, inputs[1]]]
        pool += [p01, p12]
    while len(ops) < n_ops:
        r = rng.random()
        inp = rng.choice(inputs)
        if r < 0.07:
            ops.append([1])
        elif r < 0.30:
            # a sub-program first, later the program containing it
            p = rng.choice(pool)
            subs = proper_subs(p)
            q = rng.choice(subs) if subs else p
            ops.append([0, q, inp])
            if rng.random() < 0.3:
                ops.append([0, rng.choice(pool), rng.choice(inputs)])
            ops.append([0, p, inp])
        elif r < 0.60:
            # a program first, later a wrapper consuming its result (twice nested sometimes)
            q = rng.choice(pool)
            ops.append([0, q, inp])
            p = wrap(rng, q, var_types)
            if p is not None:
                if rng.random() < 0.3:
                    ops.append([0, rng.choice(pool), rng.choice(inputs)])
                ops.append([0, p, inp])
                if rng.random() < 0.4:
                    p2 = wrap(rng, p, var_types)
                    if p2 is not None:
                        ops.append([0, p2, inp])
                        pool.append(p2)
                pool.append(p)
        else:
            p = rng.choice(pool)
            if rng.random() < 0.3:
                subs = proper_subs(p)
                if subs:
                    p = rng.choice(subs)
            ops.append([0, p, inp])
    return {"kind": "history", "data": [use_cache, skip, ops[:40]]}


def gen(rng, tier):
    n_hist, n_ref = (400, 150) if tier == "quick" else (6000, 2000)
    cases = [gen_history(rng) for _ in range(n_hist)]
    # a quarter of the histories present some programs in explicitly curried form
    # ((f a) b): Function objects whose head is itself a Function
    for c in cases:
        if rng.random() < 0.2:
            c["decoy"] = 1
        if rng.random() < 0.25:
            ops = c["data"][2]
            c["curry"] = [k for k, o in enumerate(ops) if o[0] == 0 and rng.random() < 0.5]
    for _ in range(n_ref):
        var_types = rng.choice(VAR_TYPES)
        p = P.gen_prog(rng, rng.choice(TARGETS), rng.randint(1, 5), ALL_PRIMS, var_types)
        if p is None:
            continue
        cases.append({"kind": "ref", "data": [p, [P.gen_value(rng, t) for t in var_types]]})
    return cases


def to_model(case):
    if case["kind"] == "history":
        return (1, case["data"])
    return (2, case["data"])


def model_obs(case, raw):
    if case["kind"] == "history":
        return [CLEAR if x == [2] else x for x in raw]
    return raw


def agree(case, impl_obs, model_obs):
    return impl_obs == model_obs


def is_failure(x):
    return x != CLEAR and (x[0] == 1 or x == [0, [3]])


def chains(case, mo):
    """Number of (i, j): op i evaluates a failing program, op j > i a strictly larger program containing it on the
    same input, no clear in between."""
    use_cache, skip, ops = case["data"]
    n = 0
    for j, oj in enumerate(ops):
        if oj[0] != 0:
            continue
        subs = None
        for i in range(j - 1, -1, -1):
            oi = ops[i]
            if oi[0] == 1:
                break
            if oi[2] == oj[2] and is_failure(mo[i]) and oi[1] != oj[1]:
                if subs is None:
                    subs = list(P.subprogs(oj[1]))
                if oi[1] in subs:
                    n += 1
                    break
    return n


def nontrivial(case, mo):
    if case["kind"] == "history":
        return case["data"][0] == 1 and chains(case, mo) > 0
    return P.prog_depth(case["data"][0]) >= 3


def show_op(o):
    if o[0] == 1:
        return "clear_cache()"
    return "eval %s on %r" % (P.show_prog(o[1]), [S.value_from_wire(v) for v in o[2]])


def show_obs(x):
    if x == CLEAR:
        return CLEAR
    if isinstance(x, list) and len(x) >= 2 and x[0] == 0:
        return "-> %r" % (S.value_from_wire(x[1]),)
    if isinstance(x, list) and len(x) >= 2 and x[0] == 1:
        return "raises %s" % (S.EXC_BY_ID[x[1]].__name__ if x[1] in S.EXC_BY_ID else x[1:])
    return repr(x)


def describe(case, mo):
    if case["kind"] == "history":
        use_cache, skip, ops = case["data"]
        return {"kind": "history", "use_cache": bool(use_cache),
                "skip": [S.EXC_BY_ID[i].__name__ for i in skip],
                "ops": [show_op(o) for o in ops[:8]], "expected": [show_obs(x) for x in mo[:8]],
                "n_ops": len(ops), "failing_subprogram_then_larger": chains(case, mo)}
    p, inp = case["data"]
    return {"kind": "ref", "program": P.show_prog(p), "input": [repr(S.value_from_wire(v)) for v in inp],
            "expected": show_obs(mo)}


def shrink(case):
    for c in _shrink(case):
        if "curry" in case and c["kind"] == "history":
            c["curry"] = list(range(len(c["data"][2])))
        if "decoy" in case:
            c["decoy"] = 1
        yield c


def _shrink(case):
    if case["kind"] == "ref":
        p, inp = case["data"]
        if p[0] == 1:
            for a in p[2:]:
                yield {"kind": "ref", "data": [a, inp]}
        return
    use_cache, skip, ops = case["data"]
    n = len(ops)
    if n > 1:
        half = n // 2
        yield {"kind": "history", "data": [use_cache, skip, ops[:half]]}
        yield {"kind": "history", "data": [use_cache, skip, ops[half:]]}
        if n > 6:
            third = n // 3
            yield {"kind": "history", "data": [use_cache, skip, ops[third:]]}
            yield {"kind": "history", "data": [use_cache, skip, ops[:n - third]]}
            yield {"kind": "history", "data": [use_cache, skip, ops[:third] + ops[2 * third:]]}
        if n <= 16:
            for i in range(n):
                yield {"kind": "history", "data": [use_cache, skip, ops[:i] + ops[i + 1:]]}
    if n <= 6:
        # programs to sub-programs
        for i, o in enumerate(ops):
            if o[0] == 0 and o[1][0] == 1:
                for a in o[1][2:]:
                    yield {"kind": "history", "data": [use_cache, skip, ops[:i] + [[0, a, o[2]]] + ops[i + 1:]]}
        for i in range(len(skip)):
            yield {"kind": "history", "data": [use_cache, skip[:i] + skip[i + 1:], ops]}


def classify(case, impl_obs, model_obs):
    return None


def theorem_for(case):
    if case["kind"] == "history":
        return ("C11_history_independent (run_history use_cache [] h = spec_history h): every evaluation of a history "
                "returns the observation of the reference semantics, cache on or off")
    return "C11_compositional / C11_cached_eq_ref on the empty cache (eval = observe (eval_ref p inp))"
