"""C12: filtering or merging during enumeration removes only what it should."""
import json
from lib import dsls as D
from lib import enumgen as EG
from lib import progs as P
from lib import semantics as S
from props import c02 as C02

ID = "C12"
IMPL_MODULE = "props.enum_impl"
MODEL_AFTER_IMPL = True
HASHSEEDS = {"quick": [0, 1], "thorough": [0, 1, 2, 3, 4, 5]}
CASE_TIMEOUT = 12
RULE = ("depth-bounded CFGs from random DSLs (as C02) with an installed filter given as a finite set of rejected (sub)programs "
        "(1-4 typed terms of depth <= 2 of any type of the DSL: both sub-program-closed filters and filters that reject a whole "
        "program only), or a merge script (1-2 calls of merge_program after k = 0..6 yields); all five deterministic-grammar "
        "enumerators.  The implementation's table and output go to check_filtered / check_merged.  Non-trivial: the filter "
        "rejects (hereditarily) at least one and not all programs of the language / the merged program occurs in the language.")
ASSUMPTIONS = ["filters are deterministic and given by a finite rejected set (DFTAFilter and others reduce to this on a finite language)",
               "merge_program(representative, other): only 'other' matters for the specification",
               "a run cut by the time limit is a violation unless it is the recorded bee-search blow-up (prefix still checked)"]


def gen(rng, tier):
    rng.seed(rng.getrandbits(64) ^ 0xC12)
    n = 120 if tier == "quick" else 1200
    cases = []
    for i in range(n):
        # beap search is the enumerator that handles filters and merges correctly on the
        # unchanged tree (see the known findings for the others): it gets more of the cases
        rotation = EG.ALL_ENUMS + ["bps", "bps", "bps"]
        c = EG.gen_case(rng, enum=rotation[i % len(rotation)], small=True)
        if c["enum"] == "bps" and i % 2 == 0:
            c["weights"]["kind"] = "random"
        g = c["grammar"]
        if c["enum"] in EG.DET_ENUMS:
            g["kind"] = "cfg"
            g.setdefault("max_depth", 3)
            g.setdefault("min_var", 1)
        dsl = {"prims": g["prims"], "request": g["request"], "const_types": [], "forbidden": []}
        pool = []
        for b in D.BASES:
            pool += D.terms(dsl, b, 2, rng, 8, allow_const=False)
        if not pool:
            continue
        leaves = [t for t in pool if t[0] == 0]
        r = rng.random()
        if r < 0.2 and leaves and c["enum"] in EG.DET_ENUMS:
            # an automaton filter (DFTAFilter) without a rule for some leaves: rejects whatever contains them
            c["dfta_rejected"] = [rng.choice(leaves) for _ in range(rng.randint(1, 2))]
            c["dfta_state"] = rng.choice([0, 0, "q"])
            c["rejected"] = c["dfta_rejected"]
            c["kind"] += "/dfta-filter"
        elif r < 0.6:
            c["rejected"] = [rng.choice(pool) for _ in range(rng.randint(1, 4))]
            if leaves and rng.random() < 0.6:
                c["rejected"].append(rng.choice(leaves))      # often the whole cheapest cost class of a non-terminal
            c["kind"] += "/filter"
        else:
            ks = sorted(rng.sample(range(0, 7), rng.randint(1, 2)))
            c["merges"] = [[k, rng.choice(pool), rng.choice(pool)] for k in ks]
            c["kind"] += "/merge"
        c["max_lang"] = 400
        cases.append(c)
    # automaton filters on the enumerator that handles filters correctly on the unchanged tree,
    # with a falsy state name (0) and with a string state
    for i in range(14 if tier == "quick" else 140):
        c = EG.gen_case(rng, enum="bps", small=True)
        g = c["grammar"]
        g["kind"] = "cfg"
        g.setdefault("max_depth", 3)
        g.setdefault("min_var", 1)
        dsl = {"prims": g["prims"], "request": g["request"], "const_types": [], "forbidden": []}
        leaves = []
        for b in D.BASES:
            leaves += [t for t in D.terms(dsl, b, 1, rng, 8, allow_const=False) if t[0] == 0]
        if not leaves:
            continue
        c["dfta_rejected"] = [rng.choice(leaves) for _ in range(rng.randint(1, 2))]
        c["dfta_state"] = [0, 0, "q"][i % 3]
        c["rejected"] = c["dfta_rejected"]
        c["kind"] += "/dfta-filter"
        c["max_lang"] = 400
        cases.append(c)
    return cases


usable = C02.usable
slim = C02.slim
should_shrink = C02.should_shrink


def to_model(case, io):
    if not usable(io) or io.get("skip"):
        return []
    fuel = EG.fuel_of(case["grammar"])
    if "utable" in io:
        if "rejected" in case:
            return [(13, [io["utable"], io["starts"], fuel, case["rejected"], io["out"]])]
        return [(14, [io["utable"], io["starts"], fuel, [[m[0], m[2]] for m in case["merges"]], io["out"]])]
    if "dfta_rejected" in case:
        return [(6, [io["table"], io["start"], fuel, case["dfta_rejected"], io["out"]])]
    if "rejected" in case:
        return [(3, [io["table"], io["start"], fuel, case["rejected"], io["out"]])]
    return [(4, [io["table"], io["start"], fuel, [[m[0], m[2]] for m in case["merges"]], io["out"]])]


def model_obs(case, raws, io):
    if not raws:
        return None
    r = raws[0]
    if "rejected" in case:
        keys = ["ok", "nodup", "first_bad", "missing", "n_lang", "n_hereditary", "n_accepted"]
    else:
        keys = ["ok", "nodup", "members", "no_merged_after", "missing", "n_lang"]
    mo = dict(zip(keys, r))
    mo["missing"] = [P.show_prog(p) for p in mo["missing"]]
    mo["n_out"] = len(io["out"])
    return mo


def agree(case, io, mo):
    if isinstance(io, dict) and io.get("skip"):
        return True
    if not usable(io) or mo is None:
        return False
    return io.get("ended") == "stop" and mo["ok"] == 1


def nontrivial(case, mo):
    if mo is None:
        return False
    if "rejected" in case:
        return 0 < mo["n_hereditary"] < mo["n_lang"]
    return mo["n_out"] < mo["n_lang"]


def describe(case, mo):
    d = C02.describe(case, None)
    if "rejected" in case:
        d["rejected"] = [P.show_prog(p) for p in case["rejected"]]
    else:
        d["merges"] = [[m[0], P.show_prog(m[1]), P.show_prog(m[2])] for m in case["merges"]]
    d["checker"] = mo
    return d


def shrink(case):
    for c in C02.shrink(case):
        yield c
    if "rejected" in case and len(case["rejected"]) > 1:
        for i in range(len(case["rejected"])):
            yield dict(case, rejected=case["rejected"][:i] + case["rejected"][i + 1:])
    if "merges" in case and len(case["merges"]) > 1:
        for i in range(len(case["merges"])):
            yield dict(case, merges=case["merges"][:i] + case["merges"][i + 1:])


HS_FAMILY = ("hs", "hs_bucket", "hs_u", "hs_bucket_u")


def classify(case, io, mo):
    if case.get("expect_ok"):
        # regression corpus: recorded as handled correctly by the unchanged tree under hash seeds 0-3
        # (tools/okcorpus.py); a failure now is a regression whatever its shape
        return None
    if case["enum"] == "bs" and isinstance(io, dict) and io.get("hang"):
        return "c12_bee_search_never_returns"
    if case["enum"] in ("hs_u", "hs_bucket_u") and "merges" in case and isinstance(io, dict) \
            and str(io.get("crash", "")).startswith("IndexError") and "start_query" in str(io.get("tb", "")):
        return "c12_heap_search_merge_bookkeeping"
    if not isinstance(io, dict) or "ended" not in io or mo is None:
        return None
    if case["enum"] == "bs" and "merges" in case and mo["nodup"] == 1 and mo["members"] == 1 and mo["no_merged_after"] == 0:
        return "c12_bee_search_merge_yields_containing"
    valid_prefix = mo["nodup"] == 1 and mo.get("first_bad", -1) == -1 and mo.get("members", 1) == 1 \
        and mo.get("no_merged_after", 1) == 1
    if case["enum"] == "bs" and io.get("ended") == "timeout" and valid_prefix:
        return "c12_bee_search_never_returns"
    stopped = io.get("ended") == "stop"
    if "rejected" in case and stopped and valid_prefix and mo["missing"]:
        if case["enum"] == "cd":
            return "c12_cd_filter_loses_programs"
        if case["enum"] in HS_FAMILY:
            return "c12_heap_search_filter_loses_programs"
    if "merges" in case and stopped and mo["nodup"] == 1 and mo["members"] == 1:
        if case["enum"] == "bs" and case["weights"]["kind"] != "uniform" and mo["no_merged_after"] == 1 and mo["missing"]:
            return "c12_bee_search_merge_stops_early"
        if case["enum"] in HS_FAMILY and (mo["no_merged_after"] == 0 or mo["missing"]):
            return "c12_heap_search_merge_bookkeeping"
        if case["enum"] == "cd" and (mo["no_merged_after"] == 0 or mo["missing"]):
            return "c12_cd_merge_loses_programs"
        if case["enum"] == "bps" and mo["no_merged_after"] == 0 and not mo["missing"]:
            return "c12_beap_search_merge_yields_containing"
    return None


def theorem_for(case):
    return "C12_checker_filter / C12_closed_filter" if "rejected" in case else "C12_checker_merge"
