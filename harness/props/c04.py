"""C04: probabilistic grammars define a probability distribution over their language.

The implementation runner builds a grammar with the real code, serialises the
implementation's own rule table and weights, and the extracted Coq model
(Gram/Det.v, Gram/U.v) is run on exactly that table: membership, exact
probability, language size and the exact sum are the specified answers
(theorems of Props/C04.v)."""
import json
from fractions import Fraction

from lib import core
from lib import dsls as D
from lib import progs as P
from lib import semantics as S

ID = "C04"
IMPL_MODULE = "props.c04_impl"
HASHSEEDS = {"quick": [0, 1], "thorough": [0, 1, 2, 3]}
CASE_TIMEOUT = 120
RULE = ("random abstract DSLs (families F1-F6 of lib/dsls.py) compiled by the real code into CFG.depth_constraint (depth 1-4, "
        "random forbidden tables, constant slots, n_gram 1-3), TTCFG.size_constraint (first-order DSLs, size 2-6), "
        "UCFG.from_CFG and UCFG.from_DFTA of a sharpened automaton (several start symbols); weights uniform(), "
        "random() (numpy draws recorded, then normalise()), hand-made dyadic weights + normalise(), pcfg_from_samples() on "
        "members; the implementation's rule table and the exact rational value of every float weight are sent to the model; "
        "candidates = independent brute-force terms one level deeper than the bound, near-miss mutants (partial / "
        "over-applications, bare heads, swapped heads), terms of other types, and 30 programs drawn from the runner's own "
        "structural enumeration of the table.  Observables: membership and probability() of every candidate, programs(), "
        "size of the enumerated language, float sum of probability() over the language, the tags after uniform / normalise / "
        "learning.  Non-trivial = candidates contain members and non-members, the language has >= 3 programs and the model "
        "reports the weighted table well formed (wf_at) so that the sum-to-one theorem applies.")
ASSUMPTIONS = ["hand-made weights are dyadic; one case in three uses weights whose sum at every non-terminal is within 1% of 1 without being 1 (normalise() must still normalise them)",
               "float arithmetic: probability() is compared with the exact rational product within relative "
               "(k*(m+2)+2)*2^-52, k = program size, m = largest number of rules of a non-terminal; sums within 1e-9",
               "grammars are finite (no recursive=True), at most 2500 programs (the runner lowers the bound otherwise)",
               "programs have no empty application Function(P, []); rule dictionaries come from Python dicts (distinct keys)",
               "unambiguous grammars: every rule has at least one alternative and all alternatives of a rule have the same length",
               "samples given to pcfg_from_samples are members of the grammar, plus up to two programs outside it whose offending symbols are leaves (add_count ignores those occurrences; an offending function head makes the code raise KeyError and is not used)"]

_CACHE = {}


def gen(rng, tier):
    n = 64 if tier == "quick" else 600
    cases = []
    kinds = ["cfg", "cfg", "ttcfg", "ucfg", "udfta", "udfta", "cfgdfa"]
    for i in range(n):
        kind = kinds[i % len(kinds)]
        if kind in ("ttcfg", "udfta"):
            dsl = D.gen_dsl(rng, rng.choice(["F1", "F2", "F2", "F5"]))
        else:
            dsl = D.gen_dsl(rng)
        if kind == "ttcfg":
            bound = rng.choice([3, 4, 5, 6, 7])
            dsl["const_types"] = []
        else:
            bound = rng.choice([1, 2, 2, 3, 3, 4])
        min_var = rng.choice([0, 1, 1, 1, 2])
        n_gram = rng.choice([1, 2, 2, 2, 3])
        constraint = ""
        if kind == "udfta":
            dsl["const_types"] = []
            funs = [p for p in dsl["prims"] if p[1][0] == 1]
            f = rng.choice(funs)
            args, _ = D.arrow_parts(f[1])
            leaves = [p for p in dsl["prims"] if p[1] == args[0]]
            if leaves:
                c = rng.choice(leaves)
                constraint = "(p%d p%d%s)" % (f[0], c[0], " _" * (len(args) - 1))
            else:
                constraint = "(p%d%s)" % (f[0], " _" * len(args))
        if kind == "cfgdfa":
            constraint = "dfa:%d:%s" % (rng.choice([1, 2, 3]), rng.choice(["var", "leaf", "const"]))
        _, ret = D.arrow_parts(dsl["request"])
        dd = bound + 1 if kind != "ttcfg" else 3
        cands = D.terms(dsl, ret, dd, rng, 50)
        for b in D.BASES[:2]:
            if b != ret:
                cands += D.terms(dsl, b, 2, rng, 4)
        cands += D.mutants(rng, cands, dsl, 20)
        seen, uniq = set(), []
        for c in cands:
            k = json.dumps(c)
            if k not in seen:
                seen.add(k)
                uniq.append(c)
        if kind == "cfg":
            wmode = rng.choice(["uniform", "random", "hand", "learnt"])
        else:
            wmode = rng.choice(["uniform", "random", "hand"])
        gp = [dsl["prims"], dsl["forbidden"], dsl["request"], bound, min_var, n_gram, dsl["const_types"], constraint]
        cases.append({"kind": kind, "data": [gp, wmode, rng.randrange(1, 10 ** 6), uniq]})
    return cases


def to_model(case):
    return (0, [])          # the model is run on the implementation's table, inside agree()


def model_obs(case, raw):
    return {}


def frac(w):
    return Fraction(w[0], w[1])


def psize(w):
    return 1 if w[0] == 0 else 1 + sum(psize(a) for a in w[2:])


def close(x, exact, rel):
    """float result x (as an exact fraction) against the exact rational."""
    if exact == 0:
        return x == 0
    return abs(x - exact) <= rel * abs(exact)


def run_model_on(io):
    entry, wire = io["model_call"]
    raw = core.run_model(ID, [(entry, wire)])[0]
    if raw == [-1] or raw == [-2]:
        raise RuntimeError("model rejected the serialised table: %r" % (raw,))
    return raw


def decode_model(io, raw):
    entry = io["model_call"][0]
    if entry == 1:
        if len(raw) == 2:
            return {"entry": 1, "table_ok": raw[0][0], "productive": raw[0][1], "raises": True}
        (tok, productive), wf, count, total, w, res = raw
        return {"entry": 1, "table_ok": tok, "productive": productive, "wf": wf, "count": count, "programs": count, "sum": frac(total[0]) if total else None,
                "weights": w, "in": [r[0] for r in res], "prob": [frac(r[1]) for r in res], "raises": False}
    ucount, count, total, w, sw, res = raw
    return {"entry": 2, "table_ok": 1, "productive": None, "wf": None, "count": count, "programs": ucount,
            "sum": frac(total[0]) if total else None, "weights": w, "start_weights": sw, "in": [r[0] for r in res],
            "nder": [r[1] for r in res], "prob": [frac(r[2]) for r in res], "raises": False}


def flat_weights(w):
    """{key: Fraction} for a det or U weight wire, keys are JSON strings."""
    out = {}
    for nt, ws in w:
        for e in ws:
            if isinstance(e[1], list) and len(e[1]) == 2 and all(isinstance(z, int) for z in e[1]):
                out[json.dumps([nt, e[0]])] = frac(e[1])
            else:
                for alt, q in e[1]:
                    out[json.dumps([nt, e[0], alt])] = frac(q)
    return out


def compare(io, mo):
    """List of human-readable differences (empty = agreement)."""
    diffs = []
    if mo["raises"]:
        return ["pcfg_from_samples: the model says the code raises, the implementation returned a grammar"]
    u = 2.0 ** -52
    m = io["max_rules"]
    progs = io["model_call"][1][5]
    if io["in"] != mo["in"]:
        bad = [i for i, (a, b) in enumerate(zip(io["in"], mo["in"])) if a != b]
        diffs.append("membership differs on candidates %s (first: %s impl=%s model=%s)"
                     % (bad[:5], P.show_prog(progs[bad[0]]), io["in"][bad[0]], mo["in"][bad[0]]))
    for i, (x, q) in enumerate(zip(io["prob"], mo["prob"])):
        if isinstance(x, dict):
            diffs.append("probability(%s) raised %s, specified value %s" % (P.show_prog(progs[i]), x["exc"], q))
            break
        k = psize(progs[i]) + 1
        if not close(frac(x), q, Fraction((k * (m + 2) + 2) * u)):
            diffs.append("probability(%s) = %r, specified value %s = %r" % (P.show_prog(progs[i]), float(frac(x)), q, float(q)))
            break
    # weights after uniform / normalise / learning
    iw, mw = flat_weights(io["weights"]), flat_weights(mo["weights"])
    if set(iw) != set(mw):
        diffs.append("tag tables have different keys (%d vs %d)" % (len(iw), len(mw)))
    else:
        for k_ in iw:
            if not close(iw[k_], mw[k_], Fraction((m + 2) * u)):
                diffs.append("tag %s = %r, specified %s" % (k_[:120], float(iw[k_]), mw[k_]))
                break
    if "start_weights" in mo:
        isw = {json.dumps(k_): frac(q) for k_, q in io["start_weights"]}
        msw = {json.dumps(k_): frac(q) for k_, q in mo["start_weights"]}
        if set(isw) != set(msw) or any(not close(isw[k_], msw[k_], Fraction((m + 2) * u)) for k_ in isw):
            diffs.append("start tags differ")
    if io["programs"] != mo["programs"]:
        diffs.append("programs() = %s, the counter of the model gives %s" % (io["programs"], mo["programs"]))
    if io["programs"] != mo["count"]:
        diffs.append("programs() = %s but the language has %s programs" % (io["programs"], mo["count"]))
    if io["enumerated"] != mo["count"]:
        diffs.append("runner enumerated %s programs, model language has %s" % (io["enumerated"], mo["count"]))
    if not io["all_in"]:
        diffs.append("a program of the enumerated language is not a member")
    if isinstance(io["sum"], dict):
        diffs.append("probability() raised %s on a member while summing" % io["sum"]["exc"])
    else:
        s = float(frac(io["sum"]))
        if mo["sum"] is not None and abs(s - float(mo["sum"])) > 1e-9:
            diffs.append("float sum over the language = %r, exact sum of the specified probabilities = %r" % (s, float(mo["sum"])))
        if mo["wf"] and mo["sum"] is not None and mo["sum"] != 1:
            diffs.append("model inconsistency: wf_at holds but the exact sum is %s" % mo["sum"])
        if io["normalised"] and abs(s - 1.0) > 1e-9:
            diffs.append("SUM normalised grammar but the probabilities sum to %r over the language" % s)
        if io["normalised"] and mo["entry"] == 1 and mo["productive"] and not mo["wf"]:
            diffs.append("weights are not positive and summing to 1 at every reachable non-terminal after uniform()/normalise()")
    return diffs


def agree(case, io, mo_unused):
    if isinstance(io, dict) and "skipped" in io:
        _CACHE[core.digest(case)] = {"wf": 0, "count": 0, "members": 0, "cands": 0, "entry": 0, "diffs": [], "note": io["skipped"]}
        return True
    if not isinstance(io, dict) or "model_call" not in io:
        return False
    raw = run_model_on(io)
    mo = decode_model(io, raw)
    diffs = compare(io, mo)
    key = core.digest(case)
    summary = {"wf": mo.get("wf"), "count": mo.get("count"), "members": sum(mo.get("in", [])),
               "cands": len(mo.get("in", [])), "diffs": diffs, "bound": io.get("bound"), "note": io.get("note"),
               "entry": mo["entry"], "table_ok": mo["table_ok"], "productive": mo.get("productive"),
               "sample": [[P.show_prog(p), b, str(q)] for p, b, q in
                          list(zip(io["model_call"][1][5], mo.get("in", []), mo.get("prob", [])))[:8]]}
    _CACHE[key] = summary
    return not diffs


def nontrivial(case, mo):
    s = _CACHE.get(core.digest(case))
    return bool(s and (s["wf"] or s["entry"] == 2) and s["count"] >= 3 and 0 < s["members"] < s["cands"])


def describe(case, mo):
    gp, wmode, wseed, progs = case["data"]
    s = _CACHE.get(core.digest(case), {})
    return {"grammar": case["kind"], "weights": wmode, "weight_seed": wseed,
            "dsl": {S.prim_name(n): show_ty(t) for n, t in gp[0]},
            "forbidden": [[S.prim_name(k[0]), k[1], [S.prim_name(x) for x in v]] for k, v in gp[1]],
            "request": show_ty(gp[2]), "bound": gp[3], "effective_bound": s.get("bound"), "min_variable_depth": gp[4],
            "n_gram": gp[5], "constant_types": [show_ty(t) for t in gp[6]], "constraint": gp[7],
            "language_size": s.get("count"), "wf_at": s.get("wf"), "note": s.get("note"),
            "candidates[program, member, probability]": s.get("sample"), "differences": s.get("diffs")}


def show_ty(t):
    if t[0] == 0:
        return S.TYPE_NAMES.get(t[1], "t%d" % t[1])
    if t[0] == 1:
        return "(%s -> %s)" % (show_ty(t[1]), show_ty(t[2]))
    if t[0] == 2:
        return " ".join(show_ty(x) for x in t[2:]) + " " + S.TYPE_NAMES.get(t[1], "t%d" % t[1])
    return str(t)


def shrink(case):
    gp, wmode, wseed, progs = case["data"]
    k = case["kind"]
    if len(progs) > 1:
        h = len(progs) // 2
        yield {"kind": k, "data": [gp, wmode, wseed, progs[:h]]}
        yield {"kind": k, "data": [gp, wmode, wseed, progs[h:]]}
        if len(progs) <= 6:
            for i in range(len(progs)):
                yield {"kind": k, "data": [gp, wmode, wseed, progs[:i] + progs[i + 1:]]}
    if gp[3] > 1:
        yield {"kind": k, "data": [gp[:3] + [gp[3] - 1] + gp[4:], wmode, wseed, progs]}
    if wmode != "uniform" and wmode != "learnt":
        yield {"kind": k, "data": [gp, "uniform", wseed, progs]}
    if gp[1]:
        yield {"kind": k, "data": [[gp[0], []] + gp[2:], wmode, wseed, progs]}
    if gp[6]:
        yield {"kind": k, "data": [gp[:6] + [[]] + gp[7:], wmode, wseed, progs]}
    used = set()
    for p in progs:
        for q in P.subprogs(p):
            if q[1][0] == 0:
                used.add(q[1][1])
    if k != "udfta":
        prims = gp[0]
        for i in range(len(prims)):
            if prims[i][0] not in used:
                np_ = prims[:i] + prims[i + 1:]
                forb = [[kk, [x for x in v if x != prims[i][0]]] for kk, v in gp[1] if kk[0] != prims[i][0]]
                yield {"kind": k, "data": [[np_, forb] + gp[2:], wmode, wseed, progs]}


def classify(case, io, mo_unused):
    """c04_unproductive_rules: the only disagreement is that a normalised
    deterministic grammar does not sum to 1, the model (run on the
    implementation's own table) finds a reachable non-terminal without rules
    (wf_at fails even for uniform weights, which by C04_uniform can only be a
    structural failure), and the float sum equals the exact sum of the
    specified probabilities - so nothing but the lost mass is wrong."""
    if not isinstance(io, dict) or "model_call" not in io:
        return None
    try:
        mo = decode_model(io, run_model_on(io))
    except Exception:
        return None
    diffs = compare(io, mo)
    if (diffs and all(d.startswith("SUM ") for d in diffs) and mo["entry"] == 1 and mo["table_ok"]
            and not mo["productive"] and mo["sum"] is not None
            and abs(float(frac(io["sum"])) - float(mo["sum"])) <= 1e-9):
        return "c04_unproductive_rules"
    return None


def theorem_for(case):
    if case["kind"] in ("cfg", "ttcfg", "cfgdfa"):
        return ("C04_det_probability / C04_outside_zero (probability = product of the rule weights on members, 0 outside), "
                "C04_sum_to_one, C04_count, C04_uniform, C04_normalise")
    return "C04_u_probability_partial, C04_u_outside_zero (correspondence for the sum and the count of unambiguous grammars)"
