"""C15: textual types and programs parse to the objects they denote."""
import json

from lib import core

ID = "C15"
IMPL_MODULE = "props.c15_impl"
HASHSEEDS = {"quick": [0, 1], "thorough": [0, 1, 2, 3]}
CASE_TIMEOUT = 60
RULE = ("texpr: random expressions of the documented type notation (names, 'a, 'a[...], parentheses incl. redundant "
        "ones, postfix generics, optional, unions, right-nested arrows; depth <= 4) rendered with 0-3 blanks at every "
        "place the notation allows blanks; showtype: random documented type objects printed by the verified show_type "
        "under a random style; badtype: mutated renderings (brackets removed/added, empty restriction, dangling "
        "operators); progs: random abstract DSLs (unique names, arity 0-3, higher-order arguments, function-typed "
        "variables, valued constants, partial applications) with 30-60 random well-typed programs each, plus DSLs with "
        "one name at two types; grammar: every program (up to a cap) of CFG.depth_constraint on small DSLs, with and "
        "without instantiate_polymorphic_types / instantiate_constants, enumerated inside the runner.  "
        "non-trivial = the expression has >= 3 tokens / the case has >= 5 programs and one of depth >= 2.  "
        "Inputs on which the pinned tokenizer model (code before fix 29cc27f) and the repaired one differ - a blank after "
        "an opening bracket, a quote right after an operator - are all kept (they run last).")
ASSUMPTIONS = ["ASCII text only (str.isalpha/isdigit/strip modelled on code points < 128); blanks are U+0020",
               "names are interned injectively (base 256), so structural comparison of wires is comparison of names",
               "format(value) of a constant is modelled for int, bool, None and lists of those",
               "int() in 'var<i>' is modelled for digit strings only"]

FINDING_TYPES = "c15_type_blank_or_quote_tokenisation"
FINDING_NAMES = "c15_same_name_instances"
RISKY_CAP = {"quick": 10 ** 9, "thorough": 10 ** 9}      # no cap any more: fix 29cc27f is merged


# ----------------------------------------------------------------------------
# names and wires
# ----------------------------------------------------------------------------
def intern(s):
    return int.from_bytes(b"\x01" + s.encode("latin-1"), "big")


def unintern(n):
    b = n.to_bytes((n.bit_length() + 7) // 8, "big")
    return b[1:].decode("latin-1")


def cps(s):
    return [ord(c) for c in s]


def text_of(c):
    return "".join(chr(x) for x in c)


def T(name):
    return [0, intern(name)]


def ARROW(*ts):
    r = ts[-1]
    for x in reversed(ts[:-1]):
        r = [1, x, r]
    return r


def GEN(name, *ts):
    return [2, intern(name)] + list(ts)


def POLY(name):
    return [3, intern(name)]


INT, BOOL, T0 = T("int"), T("bool"), T("t0")
UNIT = T("unit")


def LIST(t):
    return GEN("list", t)


def arrow_parts(t):
    args = []
    while t[0] == 1:
        args.append(t[1])
        t = t[2]
    return args, t


def show_ty(t):
    k = t[0]
    if k == 0:
        return unintern(t[1])
    if k == 1:
        return "(%s -> %s)" % (show_ty(t[1]), show_ty(t[2]))
    if k == 2:
        return " ".join(show_ty(x) for x in t[2:]) + " " + unintern(t[1])
    if k == 3:
        return "'" + unintern(t[1])
    if k == 4:
        return "'%s[%s]" % (unintern(t[1]), ", ".join(show_ty(x) for x in t[2:]))
    if k == 5:
        return "Sum(" + ", ".join(show_ty(x) for x in t[1:]) + ")"
    return "?"


def show_value(v):
    if v[0] == 0:
        return str(v[1])
    if v[0] == 1:
        return "True" if v[1] else "False"
    if v[0] == 3:
        return "None"
    return "[" + ", ".join(show_value(x) for x in v[1:]) + "]"


def show_sym(s):
    if s[0] == 0:
        return unintern(s[1])
    if s[0] == 1:
        return "var%d" % s[1]
    if s[0] == 3:
        return show_value(s[2])
    return "<%s>" % show_ty(s[1])


def show_prog(w):
    if w[0] == 0:
        return show_sym(w[1])
    return "(" + " ".join([show_sym(w[1])] + [show_prog(a) for a in w[2:]]) + ")"


def prog_depth(w):
    return 1 if w[0] == 0 else 1 + max(prog_depth(a) for a in w[2:])


def res_of_model(r):
    """model result (0 x) | (1) | (2)  ->  ('ok', x) | ('err',) | ('fuel',)"""
    if r[0] == 0:
        return ("ok", r[1])
    return ("err",) if r[0] == 1 else ("fuel",)


# ----------------------------------------------------------------------------
# type expressions (mirror of texpr / render in Syn/TypeParser.v)
# ----------------------------------------------------------------------------
BASE_NAMES = ["int", "bool", "a", "b", "t0", "float", "x_1", "List", "unit", "string", "T9"]
GEN_NAMES = ["list", "optional", "set", "some", "t2", "list", "optional"]
VAR_NAMES = ["a", "b", "z", "aa", "t1"]


def blanks(rng):
    return rng.choice([0, 0, 1, 1, 1, 2, 3])


def e_level(e):
    return {0: 0, 1: 0, 2: 0, 3: 0, 4: 1, 5: 1, 6: 2}[e[0]]


def ends_name(e):
    k = e[0]
    if k in (0, 1, 4):
        return True
    if k in (2, 3):
        return False
    return ends_name(e[4])


def gen_atom(rng, depth, simple=False):
    r = rng.random()
    if depth <= 0 or r < 0.4:
        return [0, cps(rng.choice(BASE_NAMES))] if rng.random() < 0.6 else [1, cps(rng.choice(VAR_NAMES))]
    if r < 0.55 and not simple:
        return [2, cps(rng.choice(VAR_NAMES)), blanks(rng), blanks(rng), blanks(rng), gen_T(rng, depth - 1)]
    return [3, blanks(rng), blanks(rng), gen_T(rng, depth - 1)]


def gen_U(rng, depth):
    e = gen_atom(rng, depth)
    for _ in range(rng.choice([0, 0, 1, 1, 2, 3])):
        if rng.random() < 0.6:
            s = blanks(rng)
            if s == 0 and ends_name(e):
                s = 1
            e = [4, e, s, cps(rng.choice(GEN_NAMES))]
        else:
            e = [5, e, blanks(rng), blanks(rng), gen_atom(rng, depth - 1, simple=True)]
    return e


def gen_T(rng, depth):
    n = rng.choice([0, 0, 1, 1, 2, 3]) if depth > 0 else rng.choice([0, 0, 1])
    parts = [gen_U(rng, depth) for _ in range(n + 1)]
    e = parts[-1]
    for a in reversed(parts[:-1]):
        e = [6, a, blanks(rng), blanks(rng), e]
    return e


def render(e):
    k = e[0]
    if k == 0:
        return text_of(e[1])
    if k == 1:
        return "'" + text_of(e[1])
    if k == 2:
        return "'" + text_of(e[1]) + " " * e[2] + "[" + " " * e[3] + render(e[5]) + " " * e[4] + "]"
    if k == 3:
        return "(" + " " * e[1] + render(e[3]) + " " * e[2] + ")"
    if k == 4:
        return render(e[1]) + " " * e[2] + text_of(e[3])
    if k == 5:
        return render(e[1]) + " " * e[2] + "|" + " " * e[3] + render(e[4])
    return render(e[1]) + " " * e[2] + "->" + " " * e[3] + render(e[4])


def count_tokens(e):
    k = e[0]
    if k in (0, 1):
        return 1
    if k == 2:
        return 2 + count_tokens(e[5])
    if k == 3:
        return 1 + count_tokens(e[3])
    if k == 4:
        return 1 + count_tokens(e[1])
    return 1 + count_tokens(e[1]) + count_tokens(e[4])


def sub_exprs(e):
    k = e[0]
    if k == 2:
        return [e[5]]
    if k == 3:
        return [e[3]]
    if k == 4:
        return [e[1]]
    if k in (5, 6):
        return [e[1], e[4]]
    return []


def zero_blanks(e):
    """same expression with the minimal blanks"""
    k = e[0]
    if k in (0, 1):
        return e
    if k == 2:
        return [2, e[1], 0, 0, 0, zero_blanks(e[5])]
    if k == 3:
        return [3, 0, 0, zero_blanks(e[3])]
    if k == 4:
        a = zero_blanks(e[1])
        return [4, a, 1 if ends_name(a) else 0, e[3]]
    return [k, zero_blanks(e[1]), 0, 0, zero_blanks(e[4])]


def valid_name(c):
    t = text_of(c)
    return len(t) > 0 and t[0].isascii() and t[0].isalpha() and all(x.isascii() and (x.isalnum() or x == "_") for x in t[1:])


def wf(e):
    k = e[0]
    if k in (0, 1):
        return valid_name(e[1])
    if k == 2:
        return valid_name(e[1]) and wf(e[5])
    if k == 3:
        return wf(e[3])
    if k == 4:
        return wf(e[1]) and e_level(e[1]) <= 1 and valid_name(e[3]) and (e[2] >= 1 or not ends_name(e[1]))
    if k == 5:
        return wf(e[1]) and e_level(e[1]) <= 1 and wf(e[4]) and e[4][0] in (0, 1, 3)
    return wf(e[1]) and e_level(e[1]) <= 1 and wf(e[4])


CHILD_POS = {2: [5], 3: [3], 4: [1], 5: [1, 4], 6: [1, 4]}
BLANK_POS = {2: [2, 3, 4], 3: [1, 2], 4: [2], 5: [2, 3], 6: [2, 3]}


def texpr_shrinks(e):
    """smaller expressions: sub-expressions, a child replaced by one of its shrinks, one blank count lowered"""
    k = e[0]
    if k in (0, 1):
        if text_of(e[1]) not in ("a", "b"):
            yield [k, cps("a")]
        return
    for i in CHILD_POS[k]:
        yield e[i]
    yield zero_blanks(e)
    for i in BLANK_POS[k]:
        if e[i] > 0:
            e2 = list(e)
            e2[i] = 1 if (k == 4 and ends_name(e[1])) else 0
            if e2 != e:
                yield e2
    for i in CHILD_POS[k]:
        for c in texpr_shrinks(e[i]):
            e2 = list(e)
            e2[i] = c
            if k == 4 and e2[2] == 0 and ends_name(c):
                e2[2] = 1
            yield e2


def mk_texpr_case(e, k1, k2):
    return {"kind": "texpr", "e": e, "k1": k1, "k2": k2, "text": cps(" " * k1 + render(e) + " " * k2)}


# --- documented type objects for show_type ---
def gen_ty(rng, depth, allow_sum=True):
    r = rng.random()
    if depth <= 0 or r < 0.3:
        return T(rng.choice(BASE_NAMES)) if rng.random() < 0.6 else POLY(rng.choice(VAR_NAMES))
    if r < 0.5:
        return [1, gen_ty(rng, depth - 1), gen_ty(rng, depth - 1)]
    if r < 0.65:
        g = rng.choice(["list", "set", "some", "t2"])
        return GEN(g, gen_ty(rng, depth - 1))
    if r < 0.75:
        return [4, intern(rng.choice(VAR_NAMES)), gen_ty(rng, depth - 1)]
    if not allow_sum:
        return T(rng.choice(BASE_NAMES))
    if r < 0.85:
        return [5, UNIT, gen_ty(rng, depth - 1)]
    n = rng.choice([2, 2, 3, 4])
    members = [gen_ty(rng, depth - 1, allow_sum=False) for _ in range(n)]
    if n == 2 and members[0] == UNIT:
        members[0] = INT
    return [5] + members


def gen_style(rng):
    return [blanks(rng), blanks(rng), blanks(rng), blanks(rng), rng.choice([0, 0, 1, 2]), blanks(rng), blanks(rng),
            blanks(rng), blanks(rng), blanks(rng), 1 if rng.random() < 0.25 else 0]


# --- malformed text ---
def mutate_text(rng, s):
    ops = ["drop_close", "drop_open", "trail_arrow", "lead_arrow", "empty_restr", "empty_paren", "double_bar",
           "trail_bar", "lead_bracket", "name_bracket", "add_open", "add_close", "trail_open"]
    op = rng.choice(ops)
    if op == "drop_close":
        idx = [i for i, c in enumerate(s) if c in ")]"]
        if idx:
            i = rng.choice(idx)
            return s[:i] + s[i + 1:]
        return s + " ->"
    if op == "drop_open":
        idx = [i for i, c in enumerate(s) if c in "(["]
        if idx:
            i = rng.choice(idx)
            return s[:i] + s[i + 1:]
        return "-> " + s
    if op == "trail_arrow":
        return s + rng.choice([" ->", "->", " -> "])
    if op == "lead_arrow":
        return "-> " + s
    if op == "empty_restr":
        return "'a[] -> " + s
    if op == "empty_paren":
        return s + " -> ()"
    if op == "double_bar":
        return s + " | | int"
    if op == "trail_bar":
        return s + " |"
    if op == "lead_bracket":
        return "[int] -> " + s
    if op == "name_bracket":
        return "int[bool] -> " + s
    if op == "add_open":
        i = rng.randrange(len(s) + 1)
        return s[:i] + rng.choice("([") + s[i:]
    if op == "add_close":
        i = rng.randrange(len(s) + 1)
        return s[:i] + rng.choice(")]") + s[i:]
    return s + rng.choice([" (", " 'a["])


# ----------------------------------------------------------------------------
# programs over abstract DSLs
# ----------------------------------------------------------------------------
PRIM_NAMES = ["+", "-", "*", "f", "g2", "map", "ite", "<=", "a.b", "1", "0", "[]", "inc", "nil", "cons", "not",
              "variance", "h_1", "k", "&&", "id", "apply", "x", "fst"]


def gen_abstract_dsl(rng):
    bases = [INT, BOOL, T0, LIST(INT)][: rng.randint(2, 4)]
    names = rng.sample(PRIM_NAMES, rng.randint(4, 9))
    dsl = []
    for i, n in enumerate(names):
        if i < len(bases):
            t = bases[i]                       # one nullary primitive per base type
        else:
            ar = rng.choice([0, 1, 1, 2, 2, 3])
            args = []
            for _ in range(ar):
                if rng.random() < 0.2:
                    args.append(ARROW(rng.choice(bases), rng.choice(bases)))
                else:
                    args.append(rng.choice(bases))
            t = ARROW(*args, rng.choice(bases))
        dsl.append([cps(n), t])
    nvars = rng.randint(0, 3)
    var_types = []
    for _ in range(nvars):
        r = rng.random()
        if r < 0.2:
            var_types.append(ARROW(rng.choice(bases), rng.choice(bases)))
        elif r < 0.4:
            var_types.append(ARROW(rng.choice(bases), rng.choice(bases), rng.choice(bases)))
        elif r < 0.45:
            var_types.append(ARROW(ARROW(rng.choice(bases), rng.choice(bases)), rng.choice(bases), rng.choice(bases)))
        else:
            var_types.append(rng.choice(bases))
    ret = rng.choice(bases)
    return bases, dsl, var_types, ARROW(*var_types, ret)


def heads_for(target, dsl, var_types):
    out = []
    for i, vt in enumerate(var_types):
        args, r = arrow_parts(vt)
        for j in range(len(args) + 1):
            if ARROW(*args[j:], r) == target:
                out.append(([1, i, vt], args[:j]))
    for n, pt in dsl:
        args, r = arrow_parts(pt)
        for j in range(len(args) + 1):
            if ARROW(*args[j:], r) == target:
                out.append(([0, intern(text_of(n)), pt], args[:j]))
    return out


def gen_const(rng, target, taken):
    if target == INT:
        for _ in range(4):
            v = rng.choice([-3, -1, 2, 5, 7, 10, 42])
            if str(v) not in taken:
                return [0, [3, INT, [0, v]]]
    if target == BOOL:
        v = rng.randint(0, 1)
        if ("True" if v else "False") not in taken:
            return [0, [3, BOOL, [1, v]]]
    return None


def gen_program(rng, target, depth, dsl, var_types, taken, const_p=0.12):
    if rng.random() < const_p:
        c = gen_const(rng, target, taken)
        if c is not None:
            return c
    cands = heads_for(target, dsl, var_types)
    leaves = [c for c in cands if not c[1]]
    if depth <= 1:
        cands = leaves
    elif leaves and rng.random() < 0.2:
        cands = leaves
    if not cands:
        return None
    for _ in range(6):
        head, args = rng.choice(cands)
        if not args:
            return [0, head]
        subs = [gen_program(rng, a, depth - 1, dsl, var_types, taken, const_p) for a in args]
        if all(s is not None for s in subs):
            return [1, head] + subs
    return None


def syms_of(w):
    if w[0] == 0:
        return [w[1]]
    out = [w[1]]
    for a in w[2:]:
        out += syms_of(a)
    return out


def consts_for(progs, extra=()):
    table = []
    seen = set()
    for p in progs:
        for s in syms_of(p):
            if s[0] == 3:
                key = show_value(s[2])
                if key not in seen:
                    seen.add(key)
                    table.append([cps(key), s[1], s[2]])
    for key, t, v in extra:
        if key not in seen:
            seen.add(key)
            table.append([cps(key), t, v])
    return table


def gen_progs_case(rng, duplicate=False):
    bases, dsl, var_types, request = gen_abstract_dsl(rng)
    taken = {text_of(n) for n, _ in dsl}
    if duplicate:
        # a second (and third) instance of one non-nullary name, at other types, anywhere in the list
        cands = [i for i, (n, t) in enumerate(dsl) if t[0] == 1]
        if cands:
            i = rng.choice(cands)
            n, t = dsl[i]
            args, r = arrow_parts(t)
            for _ in range(rng.randint(1, 2)):
                t2 = ARROW(*[rng.choice(bases) for _ in args], rng.choice(bases))
                if t2 != t and [n, t2] not in dsl:
                    dsl.insert(rng.randrange(len(dsl) + 1), [n, t2])
    targets = list(bases) + [request] + [t for _, t in dsl if t[0] == 1]
    targets += [ARROW(*arrow_parts(t)[0][1:], arrow_parts(t)[1]) for _, t in dsl if t[0] == 1 and len(arrow_parts(t)[0]) > 1]
    for vt in var_types:                      # partial applications of function-typed variables
        args, r = arrow_parts(vt)
        targets += [ARROW(*args[j:], r) for j in range(1, len(args) + 1)] * 2
    progs = []
    seen = set()
    for _ in range(rng.randint(60, 120)):
        p = gen_program(rng, rng.choice(targets), rng.randint(1, 4), dsl, var_types, taken)
        if p is not None:
            key = json.dumps(p)
            if key not in seen:
                seen.add(key)
                progs.append(p)
        if len(progs) >= 60:
            break
    if not progs:
        return None
    extra = [("99", INT, [0, 99]), ("None", UNIT, [3])]
    return {"kind": "progs", "dsl": dsl, "request": request, "consts": consts_for(progs, extra), "progs": progs}


def grammar_cases(rng, tier):
    A = POLY("a")
    out = []

    def g(syntax, request, depth, instantiate=None, const_values=(), cap=400, partial=False):
        out.append({"kind": "grammar", "syntax": [[cps(n), t] for n, t in syntax], "request": request, "depth": depth,
                    "instantiate": instantiate, "const_values": [list(x) for x in const_values], "cap": cap,
                    "partial": partial})

    poly = [("head", ARROW(LIST(A), A)), ("len", ARROW(LIST(A), INT)), ("+", ARROW(INT, INT, INT)), ("1", INT)]
    g(poly, ARROW(LIST(LIST(INT)), INT), 4, instantiate=5, cap=400)          # the design probe
    g(poly, ARROW(LIST(INT), INT), 3, instantiate=5)
    arith = [("+", ARROW(INT, INT, INT)), ("-", ARROW(INT, INT, INT)), ("1", INT), ("0", INT),
             ("<=", ARROW(INT, INT, BOOL)), ("ite", ARROW(BOOL, INT, INT, INT))]
    g(arith, ARROW(INT, INT, INT), 3, cap=600)
    g(arith, ARROW(INT, BOOL), 3, cap=300, partial=True)
    ho = [("map", ARROW(ARROW(INT, INT), LIST(INT), LIST(INT))), ("inc", ARROW(INT, INT)), ("nil", LIST(INT)),
          ("cons", ARROW(INT, LIST(INT), LIST(INT))), ("1", INT), ("+", ARROW(INT, INT, INT))]
    g(ho, ARROW(LIST(INT), LIST(INT)), 3, cap=500)
    g(ho, ARROW(ARROW(INT, INT), INT, LIST(INT)), 3, cap=500, partial=True)   # function-typed variable
    g(arith[:4], ARROW(ARROW(INT, INT, INT), INT, INT), 3, cap=400, partial=True)   # binary function variable
    g(arith, ARROW(INT, INT), 3, const_values=[(INT, [[0, 5], [0, -7]])], cap=500)
    g(arith[:4] + [("not", ARROW(BOOL, BOOL)), ("<=", ARROW(INT, INT, BOOL))], ARROW(BOOL, BOOL), 3,
      const_values=[(INT, [[0, 12]]), (BOOL, [[1, 1]])], cap=400)
    fixed = [("+", ARROW([4, intern("a"), [5, INT, T("float")]], [4, intern("a"), [5, INT, T("float")]],
                         [4, intern("a"), [5, INT, T("float")]])),
             ("1", INT), ("2.0", T("float")), ("i2f", ARROW(INT, T("float")))]
    g(fixed, ARROW(INT, T("float")), 3, instantiate=5, cap=300)
    if tier != "quick":
        g(poly, ARROW(LIST(LIST(INT)), INT), 5, instantiate=5, cap=3000)
        g(arith, ARROW(INT, INT, INT), 4, cap=5000)
        g(ho, ARROW(LIST(INT), INT, LIST(INT)), 4, cap=5000, partial=True)
        idp = [("id", ARROW(A, A)), ("1", INT), ("nil", LIST(INT)), ("len", ARROW(LIST(A), INT))]
        g(idp, ARROW(INT, INT), 4, instantiate=4, cap=2000)
    return out


# ----------------------------------------------------------------------------
# generation
# ----------------------------------------------------------------------------
def gen(rng, tier):
    quick = tier == "quick"
    n_expr, n_show, n_bad, n_progs, n_dup = (1500, 500, 250, 40, 3) if quick else (30000, 8000, 2500, 500, 4)
    cap = RISKY_CAP["quick" if quick else "thorough"]
    cases = []
    late = []      # cases expected to hit a known finding: run last, so that they never crowd out another disagreement

    # fixed regression seeds: the documented examples and the forms the tests use
    docs = ["int", "int | float -> float", "'a list -> ('a -> 'b ) -> 'b list", "'a[int | float] -> 'a[int | float]",
            "int optional", "'a [int | float] -> 'a [int | float] -> 'a [int | float]", "int->int->int",
            "'a some optional", "bb|'aa", "a->(a->b)->b", "'z[ b|c ]", "'z [b|c]", "a*b", "a * b -> c",
            "'aa | bb", "a_a", "'a list"]
    for d in docs:
        cases.append({"kind": "badtype", "text": cps(d), "documented_example": True})
    # the example of docs/source/type_system.md as printed (an arrow is missing): raises, the model fails
    cases.append({"kind": "badtype", "text": cps("'a list  ('a -> 'b ) -> 'b list")})

    # type expressions; those on which pinned and repaired tokenizer differ are capped
    exprs = []
    for _ in range(n_expr):
        e = gen_T(rng, rng.randint(0, 4))
        exprs.append(mk_texpr_case(e, rng.choice([0, 0, 0, 1, 2]), rng.choice([0, 0, 1, 2])))
    raw = core.run_model(ID, [to_model(c) for c in exprs])
    risky = 0
    repl = []
    for c, r in zip(exprs, raw):
        if r[3] != r[4]:
            risky += 1
            if risky > cap:
                # keep the expression, with the blanks that do not trigger the pinned defect
                repl.append(mk_texpr_case(safe_blanks(c["e"]), 0, c["k2"]))
            else:
                late.append(c)
            continue
        cases.append(c)
    for c2, r2 in zip(repl, core.run_model(ID, [to_model(c) for c in repl])):
        if r2[3] == r2[4]:
            cases.append(c2)

    shows = []
    for _ in range(n_show):
        shows.append([gen_style(rng), gen_ty(rng, rng.randint(1, 4))])
    raw = core.run_model(ID, [(2, s) for s in shows])
    risky = 0
    repl = []
    for (sy, t), r in zip(shows, raw):
        if r[2] != r[3]:
            risky += 1
            if risky > cap:
                sy = list(sy)
                sy[1] = max(sy[1], 1)      # a blank after ->
                sy[5] = 0                  # none after (
                sy[8] = 0                  # none after [
                repl.append([sy, t])
            else:
                late.append({"kind": "showtype", "style": sy, "ty": t, "text": r[1]})
            continue
        cases.append({"kind": "showtype", "style": sy, "ty": t, "text": r[1]})
    for (sy, t), r in zip(repl, core.run_model(ID, [(2, x) for x in repl])):
        if r[2] == r[3]:
            cases.append({"kind": "showtype", "style": sy, "ty": t, "text": r[1]})

    base_texts = [text_of(c["text"]) for c in exprs[: n_bad * 2] if len(c["text"]) > 3]
    bads = [{"kind": "badtype", "text": cps(mutate_text(rng, rng.choice(base_texts).strip()))} for _ in range(n_bad * 2)]
    risky = 0
    kept = 0
    for c, r in zip(bads, core.run_model(ID, [to_model(c) for c in bads])):
        if kept >= n_bad:
            break
        if r[0] != r[1]:
            risky += 1
            if risky <= cap:
                late.append(c)
            continue
        kept += 1
        cases.append(c)

    for i in range(n_progs + n_dup):
        c = gen_progs_case(rng, duplicate=(i >= n_progs))
        if c is not None:
            (late if i >= n_progs else cases).append(c)
    for c in grammar_cases(rng, tier):
        (late if c["instantiate"] is not None else cases).append(c)
    # half of the program cases first use the same DSL object with another type request
    # and another constants table (parse_program must not remember anything between calls)
    for c in cases:
        if c["kind"] in ("progs", "grammar") and rng.random() < 0.5:
            c["warm"] = 1
    return cases + late


def safe_blanks(e):
    """blanks kept except the ones the pinned tokenizer mishandles: none after an
    opening bracket, one after -> (before a quote)"""
    k = e[0]
    if k in (0, 1):
        return e
    if k == 2:
        return [2, e[1], e[2], 0, e[4], safe_blanks(e[5])]
    if k == 3:
        return [3, 0, e[2], safe_blanks(e[3])]
    if k == 4:
        return [4, safe_blanks(e[1]), e[2], e[3]]
    if k == 5:
        return [5, safe_blanks(e[1]), e[2], e[3], safe_blanks(e[4])]
    return [6, safe_blanks(e[1]), e[2], max(e[3], 1), safe_blanks(e[4])]


# ----------------------------------------------------------------------------
# model side
# ----------------------------------------------------------------------------
def to_model(case):
    k = case["kind"]
    if k == "texpr":
        return (1, [case["e"], case["k1"], case["k2"]])
    if k == "showtype":
        return (2, [case["style"], case["ty"]])
    if k == "badtype":
        return (4, case["text"])
    if k == "progs":
        return (3, [case["dsl"], case["request"], case["consts"], case["progs"]])
    return (0, [])


def model_obs(case, raw):
    k = case["kind"]
    if k == "texpr":
        wf, text, den, fixed, pinned = raw
        if wf != 1 or text != case["text"]:
            raise RuntimeError("generator and model disagree on the rendering or well-formedness of %r" % case["e"])
        if fixed != [0, den]:
            raise RuntimeError("extracted model contradicts theorem C15_type_expr on %r" % text_of(text))
        if fixed != pinned:
            case["_risky"] = True
        return {"expected": den, "fixed": fixed, "pinned": pinned}
    if k == "showtype":
        doc, text, fixed, pinned = raw
        if doc != 1 or text != case["text"]:
            raise RuntimeError("show_type case is not documented or text differs: %r" % show_ty(case["ty"]))
        if fixed != [0, case["ty"]]:
            raise RuntimeError("extracted model contradicts theorem C15_type_roundtrip on %r" % text_of(text))
        if fixed != pinned:
            case["_risky"] = True
        return {"expected": case["ty"], "fixed": fixed, "pinned": pinned}
    if k == "badtype":
        if raw[0] != raw[1]:
            case["_risky"] = True
        return {"fixed": raw[0], "pinned": raw[1]}
    if k == "progs":
        return {"progs": raw}
    return {}


_MODEL_CACHE = {}


def model_for_explicit(ex):
    key = json.dumps(ex, sort_keys=True)
    if key not in _MODEL_CACHE:
        _MODEL_CACHE[key] = core.run_model(ID, [(3, [ex["dsl"], ex["request"], ex["consts"], ex["progs"]])])[0]
    return _MODEL_CACHE[key]


def type_matches(io, m):
    """implementation observable vs one model result"""
    if not isinstance(io, dict):
        return False
    if m[0] == 0:
        return io.get("ok") == m[1]
    return "raise" in io or "hang" in io


def prog_issues(dsl, progs, obs, mraw):
    """list of (index, kind, detail); kinds: 'printer', 'parser' (implementation differs from the faithful model),
    'roundtrip' (the parsed program is not the original)"""
    issues = []
    if len(obs) != len(progs) or len(mraw) != len(progs):
        return [(-1, "parser", "observable length mismatch")]
    for i, (p, o, m) in enumerate(zip(progs, obs, mraw)):
        text, res, eq, same_type = o
        mtext, mres, mresolved = m
        if text != mtext:
            issues.append((i, "printer", "str(program) differs from the model's printer"))
            continue
        if mres[0] == 2:
            issues.append((i, "parser", "model out of fuel"))
            continue
        if mres[0] == 0:
            if res.get("ok") != mres[1]:
                issues.append((i, "parser", "implementation's parse differs from the model's"))
                continue
            if mres[1] != p or not eq or not same_type:
                issues.append((i, "roundtrip", "parsed program differs from the original"))
        else:
            if "raise" not in res:
                issues.append((i, "parser", "model fails, implementation returns a program"))
    return issues


def explicit_of(case, io):
    if case["kind"] == "progs":
        return {"dsl": case["dsl"], "request": case["request"], "consts": case["consts"], "progs": case["progs"]}
    return {"dsl": io["dsl"], "request": io["request"], "consts": io["consts"], "progs": io["progs"]}


def agree(case, io, mo):
    k = case["kind"]
    if not isinstance(io, dict) or "crash" in io:
        return False
    if k in ("texpr", "showtype"):
        return type_matches(io, mo["fixed"])
    if k == "badtype":
        if case.get("documented_example"):
            return type_matches(io, mo["fixed"])
        # malformed text: error behaviour is not compared; a returned type must be the model's
        if "raise" in io or "hang" in io:
            return True
        return mo["fixed"][0] == 0 and io.get("ok") == mo["fixed"][1]
    if "hang" in io or "obs" not in io:
        return False
    ex = explicit_of(case, io)
    mraw = mo["progs"] if k == "progs" else model_for_explicit(ex)
    issues = prog_issues(ex["dsl"], ex["progs"], io["obs"], mraw)
    if issues:
        case["_explicit"] = ex
        case["_failing"] = sorted({i for i, _, _ in issues if i >= 0})[:40]
    return not issues


def nontrivial(case, mo):
    k = case["kind"]
    if k == "texpr":
        return count_tokens(case["e"]) >= 3
    if k == "showtype":
        return len(case["text"]) >= 8
    if k == "badtype":
        return True
    if k == "progs":
        return len(case["progs"]) >= 5 and any(prog_depth(p) >= 2 for p in case["progs"])
    return True


def describe(case, mo):
    k = case["kind"]
    if k in ("texpr", "showtype", "badtype"):
        d = {"kind": k, "text": text_of(case["text"])}
        if isinstance(mo, dict):
            for key in ("fixed", "pinned"):
                if key in mo:
                    d["model_" + key] = show_ty(mo[key][1]) if mo[key][0] == 0 else "failure"
        return d
    if k == "progs":
        return {"kind": k, "dsl": ["%s : %s" % (text_of(n), show_ty(t)) for n, t in case["dsl"]],
                "request": show_ty(case["request"]), "programs": [show_prog(p) for p in case["progs"][:6]],
                "n_programs": len(case["progs"])}
    return {"kind": k, "syntax": ["%s : %s" % (text_of(n), show_ty(t)) for n, t in case["syntax"]],
            "request": show_ty(case["request"]), "depth": case["depth"], "instantiate": case["instantiate"]}


# ----------------------------------------------------------------------------
# shrinking
# ----------------------------------------------------------------------------
def sub_progs(w):
    return [] if w[0] == 0 else list(w[2:])


def guided(start, candidates, differs, size):
    """Greedy minimisation with the model only: keeps the smallest candidate on which
    the pinned and the repaired tokenizer still differ."""
    cur = start
    for _ in range(40):
        cands = [c for c in candidates(cur)]
        if not cands:
            break
        raw = core.run_model(ID, [to_model(c) for c in cands])
        good = [c for c, r in zip(cands, raw) if differs(r)]
        good = [c for c in good if size(c) < size(cur)]
        if not good:
            break
        cur = min(good, key=size)
    return cur


def texpr_candidates(case):
    e = case["e"]
    out = []
    if case["k1"] or case["k2"]:
        out.append(mk_texpr_case(e, 0, 0))
    seen = set()
    for c in texpr_shrinks(e):
        key = json.dumps(c)
        if key not in seen and wf(c):
            seen.add(key)
            out.append(mk_texpr_case(c, case["k1"], case["k2"]))
    return out[:80]


def showtype_candidates(case):
    t = case["ty"]
    subs = t[1:] if t[0] in (1, 5) else (t[2:] if t[0] in (2, 4) else [])
    subs = [x for x in subs if isinstance(x, list)]
    styles = [case["style"]]
    z = [0] * 10 + [0]
    for i in range(11):
        if case["style"][i]:
            sy = list(case["style"])
            sy[i] = 0
            styles.append(sy)
    cands = [(sy, x) for x in subs for sy in styles[:1]] + [(sy, t) for sy in styles[1:]]
    if not cands:
        return []
    raw = core.run_model(ID, [(2, [sy, x]) for sy, x in cands])
    return [{"kind": "showtype", "style": sy, "ty": x, "text": r[1]} for (sy, x), r in zip(cands, raw) if r[0] == 1]


def badtype_candidates(case):
    s = case["text"]
    step = max(1, len(s) // 30)
    return [{"kind": "badtype", "text": s[:i] + s[i + step:]} for i in range(0, len(s), step)] if len(s) > 1 else []


def shrink(case):
    k = case["kind"]
    if k in ("texpr", "showtype", "badtype"):
        cand_fn = {"texpr": texpr_candidates, "showtype": showtype_candidates, "badtype": badtype_candidates}[k]
        if case.get("_risky"):
            # the disagreement expected here (pinned tokenizer) is decided by the two models: minimise with them
            if k == "texpr":
                differs = lambda r: r[3] != r[4] and r[4][0] == 0
            elif k == "showtype":
                differs = lambda r: r[2] != r[3] and r[3][0] == 0
            else:
                differs = lambda r: r[0] != r[1] and r[1][0] == 0
            small = guided(case, cand_fn, differs, lambda c: len(c["text"]))
            if len(small["text"]) < len(case["text"]):
                yield small
            return
        for c in cand_fn(case):
            yield c
    elif k == "grammar":
        ex = case.get("_explicit")
        if ex is not None:
            fail = case.get("_failing") or list(range(min(40, len(ex["progs"]))))
            fail = sorted(fail, key=lambda i: len(json.dumps(ex["progs"][i])))[:6]
            for i in fail:
                yield {"kind": "progs", "dsl": ex["dsl"], "request": ex["request"], "consts": ex["consts"],
                       "progs": [ex["progs"][i]], "warm": case.get("warm", 0)}
    elif k == "progs":
        progs = case["progs"]
        base = {"kind": "progs", "dsl": case["dsl"], "request": case["request"], "consts": case["consts"],
                "warm": case.get("warm", 0)}
        if len(progs) > 1:
            fail = case.get("_failing") or list(range(len(progs)))
            fail = sorted(fail, key=lambda i: len(json.dumps(progs[i])))[:6]
            for i in fail:
                yield dict(base, progs=[progs[i]])
        else:
            p = progs[0]
            for s in sub_progs(p):
                yield dict(base, progs=[s])
            used = {s[1] for s in syms_of(p) if s[0] == 0}
            keep = [d for d in case["dsl"] if intern(text_of(d[0])) in used]
            if len(keep) < len(case["dsl"]):
                yield dict(base, dsl=keep, progs=[p])
            for i, (n, t) in enumerate(case["dsl"]):
                if intern(text_of(n)) not in used:
                    yield dict(base, dsl=case["dsl"][:i] + case["dsl"][i + 1:], progs=[p])
            for i, (n, t) in enumerate(case["dsl"]):
                if intern(text_of(n)) in used and sum(1 for m, _ in case["dsl"] if m == n) > 2:
                    yield dict(base, dsl=case["dsl"][:i] + case["dsl"][i + 1:], progs=[p])
            if case["consts"]:
                keys = {show_value(s[2]) for s in syms_of(p) if s[0] == 3}
                kept = [c for c in case["consts"] if text_of(c[0]) in keys]
                if kept != case["consts"]:
                    yield dict(base, consts=kept, progs=[p])


# ----------------------------------------------------------------------------
# known findings
# ----------------------------------------------------------------------------
def differs_only_by_instance(p, q, dup_names):
    """q is p with, at some primitives whose name has several instances in the DSL, another type"""
    if p[0] != q[0] or len(p) != len(q):
        return False
    s, t = p[1], q[1]
    if s != t:
        if not (s[0] == 0 and t[0] == 0 and s[1] == t[1] and s[1] in dup_names):
            return False
    if p[0] == 1:
        return all(differs_only_by_instance(a, b, dup_names) for a, b in zip(p[2:], q[2:]))
    return True


def classify(case, io, mo):
    k = case["kind"]
    if not isinstance(io, dict) or "crash" in io:
        return None
    if k in ("texpr", "showtype", "badtype"):
        # explained only if the implementation does exactly what the pinned tokenizer model does
        if mo["pinned"] != mo["fixed"] and type_matches(io, mo["pinned"]) and \
                (mo["pinned"][0] == 0 or "raise" in io):
            return FINDING_TYPES
        return None
    if "obs" not in io:
        return None
    ex = explicit_of(case, io)
    mraw = mo["progs"] if k == "progs" else model_for_explicit(ex)
    issues = prog_issues(ex["dsl"], ex["progs"], io["obs"], mraw)
    if not issues:
        return None
    names = [intern(text_of(n)) for n, _ in ex["dsl"]]
    dup = {n for n in names if names.count(n) > 1}
    if not dup:
        return None
    for i, kind, _ in issues:
        if kind != "roundtrip":
            return None               # printer / parser correspondence failures are never explained
        p, (text, mres, mresolved) = ex["progs"][i], mraw[i]
        q = mres[1]
        # the faithful model (= implementation, checked above) returns the first-instance resolution of p
        if q != mresolved or q == p or not differs_only_by_instance(p, q, dup):
            return None
    return FINDING_NAMES


def theorem_for(case):
    k = case["kind"]
    if k == "texpr":
        return "C15_type_expr (wf e -> auto_type (blanks ++ render e ++ blanks) = Ok (denote e)), C15_function_type"
    if k == "showtype":
        return "C15_type_roundtrip (documented t -> auto_type (show_type style t) = Ok t)"
    if k == "badtype":
        return "correspondence with the auto_type model (the model fails or returns this very type)"
    return ("C15_program_roundtrip (names_unique dsl -> wfp p -> parse_program dsl request consts (show p) = Ok p); "
            "C15_program_resolved for DSLs with repeated names")
