"""C07: tree-automaton operations are the language operations they are named after.

Generator side (must not import synth).  A case is
  {"kind": k, "A": aut, ["B": aut,] ["table": [[q, q'], ...],] "trees": dag, "names": 0|1}
aut   = [rules, finals], rules = [[letter, [args...], dst], ...]  (dict insertion order), states/letters ints
dag   = [[letter, [child indices...]], ...]: entry i is a tree whose children are earlier entries
names = 1: the implementation runner renames state n to the string "q<n>" (hash-seed dependent set order)
"""

ID = "C07"
IMPL_MODULE = "props.c07_impl"
HASHSEEDS = {"quick": [0, 1], "thorough": [0, 1, 2, 3]}
CASE_TIMEOUT = 60
RULE = ("random deterministic bottom-up automata over a ranked alphabet (2-5 letters, arity <= 3, 1-10 states, up to ~40 "
        "rules) in the styles rich (trim by construction), complete (total table), dense, grow, sparse, acyclic, chain, "
        "with cloned (Nerode-equivalent) states, one perturbed rule, unproductive tails and unproductive loops, "
        "unreachable states, none/some/all states final; alone or in pairs over the same alphabet (second automaton "
        "independent, a renamed and perturbed copy of the first, the same transition table with other final states, or the first automaton itself as an object).  Observable: acceptance (for product/map_states "
        "also the run state) of every tree of a set made of all trees up to depth 3-4 (randomly thinned above the "
        "cap) plus trees grown along the rules of the automata, for the original automaton (DFTA.read) and for the "
        "result of reduce / read_product / read_union / map_states (injective table) / minimise (on an independently "
        "trimmed automaton) / minimise on a raw automaton (KeyError or result) / reduce-then-minimise; number of "
        "states of the minimised automaton, compared with the model AND with a table-filling Myhill-Nerode count "
        "computed in the harness (that second comparison is a test, not a proof).  State names are ints or, in half "
        "of the cases, strings (so set orders depend on the hash seed).  Non-trivial = the original automaton "
        "accepts some tree of the set and rejects another.")
ASSUMPTIONS = ["input automata are Python dicts: pairwise distinct (letter, args) keys (hypothesis 'deterministic' of every theorem)",
               "state and letter equality is structural (ints, tuples, None, strings); hash collisions are outside the model",
               "minimise is called with mapping=None, read_union with the default fusion",
               "the Myhill-Nerode count of the harness is an independent test oracle, not part of the proof"]

TREE_CAP = {"quick": 1200, "thorough": 3000}
MAX_DEAD = 3


# ----------------------------------------------------------------------------
# generation
# ----------------------------------------------------------------------------
def gen_alphabet(rng):
    k = rng.randint(2, 5)
    ar = [rng.choice([0, 1, 1, 2, 2, 3]) for _ in range(k)]
    ar[0] = 0
    if rng.random() < 0.3 and k > 2:
        ar[1] = 0
    return ar


def _finals(rng, n):
    fin_style = rng.choice(["none", "all", "some", "some", "some", "some", "one"])
    if fin_style == "none":
        return []
    if fin_style == "all":
        return list(range(n))
    if fin_style == "one":
        return [rng.randrange(n)]
    return [q for q in range(n) if rng.random() < 0.4]


def gen_aut(rng, arities, max_states=8, max_rules=30, max_arity=3):
    """one deterministic automaton (a dict: keys are unique by construction).  Styles:
    dense   few states, most entries of the table defined
    grow    rules are added over states already reachable, so most states are reachable
    sparse  rules drawn blindly: unreachable and unproductive junk
    acyclic destination above all arguments;  chain: long thin automata
    then optionally: cloned states (Nerode-equivalent copies for minimise to merge), a perturbation of
    one rule, an unproductive loop, rules over unreachable states."""
    import itertools
    style = rng.choice(["rich"] * 7 + ["complete"] * 4 + ["dense", "dense", "grow", "grow", "sparse", "acyclic", "chain"])
    letters = [l for l, a in enumerate(arities) if a <= max_arity]
    nullary = [l for l in letters if arities[l] == 0]
    rules = {}
    forced_finals = None
    if style == "rich":
        # mostly trim by construction: every state reachable, finals chosen, then rules added until
        # every state can reach a final one
        n = rng.randint(2, max_states)
        pos_letters = [l for l in letters if arities[l] > 0]
        reach = []
        for l in nullary:
            if rng.random() < 0.9 or not reach:
                d = rng.randrange(n)
                rules[(l, ())] = d
                if d not in reach:
                    reach.append(d)
        tries = 0
        while pos_letters and len(reach) < n and tries < 6 * n and len(rules) < max_rules:
            tries += 1
            l = rng.choice(pos_letters)
            args = tuple(rng.choice(reach) for _ in range(arities[l]))
            if (l, args) in rules:
                continue
            fresh = [q for q in range(n) if q not in reach]
            d = rng.choice(fresh) if rng.random() < 0.7 else rng.randrange(n)
            rules[(l, args)] = d
            if d not in reach:
                reach.append(d)
        for _ in range(rng.randint(0, max(0, max_rules // 2 - len(rules)))):
            if not pos_letters:
                break
            l = rng.choice(pos_letters)
            args = tuple(rng.choice(reach) for _ in range(arities[l]))
            rules.setdefault((l, args), rng.choice(reach))
        forced_finals = [q for q in reach if rng.random() < 0.4] or [rng.choice(reach)]
        prod = set(forced_finals)
        for _ in range(3 * n):
            changed = False
            for (l, args), d in rules.items():
                if d in prod and not all(a in prod for a in args):
                    prod.update(args)
                    changed = True
            bad = [q for q in reach if q not in prod]
            if not bad and not changed:
                break
            if bad and pos_letters and len(rules) < max_rules + n:
                q = rng.choice(bad)
                l = rng.choice(pos_letters)
                args = [rng.choice(reach) for _ in range(arities[l])]
                args[rng.randrange(len(args))] = q
                if (l, tuple(args)) not in rules:
                    rules[(l, tuple(args))] = rng.choice(sorted(prod))
    elif style == "complete":
        # total transition table: states differ only by where their transitions lead
        use = [l for l in letters if arities[l] <= 2]
        budget = max(max_rules, 40) if max_states >= 6 else max_rules
        n = rng.randint(2, max(2, min(6, max_states)))
        while n > 1 and sum(n ** arities[l] for l in use) > budget:
            n -= 1
        for l in use:
            for args in itertools.product(range(n), repeat=arities[l]):
                rules[(l, args)] = rng.randrange(n)
        forced_finals = [q for q in range(n) if rng.random() < 0.4] or [rng.randrange(n)]
    elif style == "dense":
        n = rng.randint(1, min(4, max_states))
        p = rng.choice([0.5, 0.8, 1.0])
        for l in letters:
            a = arities[l]
            if a == 3 and n > 2:
                continue
            for args in itertools.product(range(n), repeat=a):
                if len(rules) < max_rules and rng.random() < p:
                    rules[(l, args)] = rng.randrange(n)
    elif style == "grow":
        n = rng.randint(2, max_states)
        reach = []
        for l in nullary:
            if rng.random() < 0.9 or not reach:
                d = rng.randrange(n)
                rules[(l, ())] = d
                if d not in reach:
                    reach.append(d)
        for _ in range(rng.randint(2, max_rules)):
            if len(rules) >= max_rules:
                break
            l = rng.choice(letters)
            a = arities[l]
            pool = reach if (reach and rng.random() < 0.9) else list(range(n))
            args = tuple(rng.choice(pool) for _ in range(a))
            fresh = [q for q in range(n) if q not in reach]
            d = rng.choice(fresh) if (fresh and rng.random() < 0.5) else rng.randrange(n)
            rules[(l, args)] = d
            if d not in reach and all(x in reach for x in args):
                reach.append(d)
    else:
        n = rng.randint(1, max_states)
        for l in nullary:
            if rng.random() < 0.85:
                rules[(l, ())] = rng.randrange(n)
        for _ in range(rng.randint(1, max_rules)):
            if len(rules) >= max_rules:
                break
            l = rng.choice(letters)
            a = arities[l]
            args = tuple(rng.randrange(n) for _ in range(a))
            if style == "acyclic":
                lo = max(args) + 1 if args else 0
                if lo >= n:
                    continue
                dst = rng.randrange(lo, n)
            elif style == "chain":
                dst = min(n - 1, (max(args) if args else 0) + rng.choice([0, 1, 1]))
            else:
                dst = rng.randrange(n)
            rules[(l, args)] = dst
    r = rng.random()
    reach = sorted(reachable_states([[l, list(a), d] for (l, a), d in rules.items()]))
    if forced_finals is not None and r < 0.9:
        finals = forced_finals
    elif r < 0.05:
        finals = []
    elif r < 0.15:
        finals = list(range(n))
    elif r < 0.85 and reach:
        finals = [q for q in reach if rng.random() < 0.45] or [rng.choice(reach)]
        finals += [q for q in range(n) if q not in reach and rng.random() < 0.2]
    else:
        finals = _finals(rng, n)
    # cloned states: q2 behaves exactly like q
    for _ in range(rng.choice([0, 0, 1, 1, 2, 3])):
        if n >= max_states or not rules or len(rules) > 2 * max_rules:
            break
        q = rng.randrange(n)
        q2 = n
        n += 1
        for (l, args), d in list(rules.items()):
            if q in args:
                pos = [k for k, x in enumerate(args) if x == q]
                for mask in range(1, 2 ** len(pos)):
                    na = list(args)
                    for b, k in enumerate(pos):
                        if mask >> b & 1:
                            na[k] = q2
                    rules[(l, tuple(na))] = d
        incoming = [S for S, d in rules.items() if d == q]
        rng.shuffle(incoming)
        for S in incoming[:max(1, len(incoming) // 2)] if len(incoming) > 1 else []:
            rules[S] = q2
        # self references of the moved rules keep pointing at q or q2 alike: both are equivalent
        if q in finals:
            finals.append(q2)
    if rules and rng.random() < 0.2:
        S = rng.choice(sorted(rules))
        rules[S] = rng.randrange(n)
    # an unproductive tail without loop: u(src) -> t1, u(t1) -> t2, ... (pruning needs one sweep per state)
    if rng.random() < 0.3:
        pos = [l for l in letters if arities[l] > 0]
        have = sorted({d for d in rules.values()})
        if pos and have:
            prev = rng.choice(have)
            for _ in range(rng.randint(1, 3)):
                l = rng.choice(pos)
                args = [rng.choice(have) for _ in range(arities[l])]
                args[rng.randrange(len(args))] = prev
                if (l, tuple(args)) in rules:
                    break
                rules[(l, tuple(args))] = n
                prev = n
                n += 1
    # an unproductive loop now and then (pruning by consumption keeps it)
    if rng.random() < 0.25:
        unary = [l for l in letters if arities[l] == 1]
        if unary:
            d = n
            n += 1
            rules[(rng.choice(unary), (d,))] = d
            src = rng.randrange(n - 1)
            rules.setdefault((rng.choice(unary), (src,)), d)
    rl = [[l, list(args), dst] for (l, args), dst in rules.items()]
    rng.shuffle(rl)
    return [rl, sorted(set(finals))]


def variant_of(rng, aut, arities):
    """a second automaton close to the first: states renamed, a few rules changed, other finals"""
    rl, fin = aut
    sts = sorted({d for _, a, d in rl} | {x for _, a, _ in rl for x in a} | set(fin))
    if not sts:
        return gen_aut(rng, arities, 5, 12)
    perm = list(sts)
    rng.shuffle(perm)
    ren = dict(zip(sts, perm))
    rules = {}
    for l, args, d in rl:
        if rng.random() < 0.12:
            continue
        nd = ren[d] if rng.random() > 0.15 else rng.choice(perm)
        rules[(l, tuple(ren[a] for a in args))] = nd
    nf = [ren[q] for q in fin if rng.random() > 0.3] + [q for q in perm if rng.random() < 0.15]
    out = [[l, list(a), d] for (l, a), d in rules.items()]
    rng.shuffle(out)
    return [out, sorted(set(nf))]


def all_trees(rng, arities, depth, cap):
    """DAG of trees: all trees level by level while they fit, random thinning afterwards."""
    import itertools
    dag = []
    seen = set()
    by_depth = [[]]
    for l, a in enumerate(arities):
        if a == 0:
            dag.append([l, []])
            seen.add((l, ()))
            by_depth[0].append(len(dag) - 1)
    npos = max(1, sum(1 for x in arities if x > 0))
    for d in range(1, depth + 1):
        prev_all = [i for lvl in by_depth for i in lvl]
        last = by_depth[-1]
        lastset = set(last)
        if not last or len(dag) >= cap:
            break
        new = []
        for l, a in enumerate(arities):
            if a == 0:
                continue
            total = len(prev_all) ** a - (len(prev_all) - len(last)) ** a
            budget = max(0, (cap - len(dag)) // npos)
            if total <= budget:
                for tup in itertools.product(prev_all, repeat=a):
                    if not any(i in lastset for i in tup):
                        continue
                    if (l, tup) not in seen:
                        seen.add((l, tup))
                        dag.append([l, list(tup)])
                        new.append(len(dag) - 1)
            else:
                for _ in range(budget):
                    tup = [rng.choice(prev_all) for _ in range(a)]
                    tup[rng.randrange(a)] = rng.choice(last)
                    tup = tuple(tup)
                    if (l, tup) not in seen:
                        seen.add((l, tup))
                        dag.append([l, list(tup)])
                        new.append(len(dag) - 1)
        by_depth.append(new)
    return dag, seen


def grow_along(rng, dag, seen, auts, rounds, per_round, cap):
    """adds trees that follow the rules of the automata, so that many trees have runs."""
    for rl, _ in auts:
        # run states of the trees so far
        table = {(l, tuple(a)): d for l, a, d in rl}
        st = []
        pool = {}
        for i, (l, cs) in enumerate(dag):
            q = None
            if all(st[c] is not None for c in cs):
                q = table.get((l, tuple(st[c] for c in cs)))
            st.append(q)
            if q is not None:
                pool.setdefault(q, []).append(i)
        for _ in range(rounds):
            for l, args, dst in rl:
                if len(dag) >= cap:
                    return
                if not all(a in pool for a in args):
                    continue
                for _ in range(per_round):
                    tup = tuple(rng.choice(pool[a]) for a in args)
                    if (l, tup) in seen:
                        continue
                    seen.add((l, tup))
                    dag.append([l, list(tup)])
                    st.append(dst)
                    pool.setdefault(dst, []).append(len(dag) - 1)


def gen_trees(rng, arities, auts, tier):
    cap = TREE_CAP[tier]
    depth = rng.choice([3, 3, 4])
    dag, seen = all_trees(rng, arities, depth, int(cap * 0.75))
    grow_along(rng, dag, seen, auts, rounds=3, per_round=2, cap=cap)
    return dag


# ---- independent computations on int automata (harness side) -----------------
def reachable_states(rl):
    reach = set()
    changed = True
    while changed:
        changed = False
        for l, args, d in rl:
            if d not in reach and all(a in reach for a in args):
                reach.add(d)
                changed = True
    return reach


def trim(aut):
    """reachable and productive part (independent of both the model and the implementation)."""
    rl, finals = aut
    reach = reachable_states(rl)
    rl = [r for r in rl if r[2] in reach and all(a in reach for a in r[1])]
    prod = set(q for q in finals if q in reach)
    changed = True
    while changed:
        changed = False
        for l, args, d in rl:
            if d in prod:
                for a in args:
                    if a not in prod:
                        prod.add(a)
                        changed = True
    rl = [r for r in rl if r[2] in prod]
    return [rl, sorted(prod & set(finals))]


def nerode_count(aut):
    """number of Myhill-Nerode classes of the trimmed automaton = least number of
    states of a deterministic (partial) bottom-up automaton for the language.
    Table filling over pairs of states with one-step contexts."""
    rl, finals = trim(aut)
    states = sorted({r[2] for r in rl} | set(finals))
    table = {(l, tuple(a)): d for l, a, d in rl}
    fin = set(finals)
    dist = set()
    for p in states:
        for q in states:
            if p < q and ((p in fin) != (q in fin)):
                dist.add((p, q))

    def isdist(x, y):
        return x != y and ((x, y) if x < y else (y, x)) in dist

    changed = True
    while changed:
        changed = False
        for p in states:
            for q in states:
                if p >= q or (p, q) in dist:
                    continue
                found = False
                for (a, b) in ((p, q), (q, p)):
                    for (l, args), d in table.items():
                        for k, x in enumerate(args):
                            if x != a:
                                continue
                            other = table.get((l, args[:k] + (b,) + args[k + 1:]))
                            if other is None or isdist(d, other):
                                found = True
                                break
                        if found:
                            break
                    if found:
                        break
                if found:
                    dist.add((p, q))
                    changed = True
    # classes
    classes = []
    for p in states:
        for c in classes:
            if not isdist(c[0], p):
                c.append(p)
                break
        else:
            classes.append([p])
    return len(classes)


def has_unproductive_after_pinned_reduce(aut):
    """does the code's reduce (consumption-based pruning) leave an unproductive state?"""
    rl, finals = aut
    reach = reachable_states(rl)
    rl = [r for r in rl if r[2] in reach and all(a in reach for a in r[1])]
    fin = set(finals) & reach
    while True:
        consumed = set(fin)
        for r in rl:
            consumed.update(r[1])
        new = [r for r in rl if r[2] in consumed]
        if len(new) == len(rl):
            break
        rl = new
    left = {r[2] for r in rl}
    t = trim(aut)
    return left != {r[2] for r in t[0]}


def gen(rng, tier):
    cases = []
    quick = tier != "thorough"
    # reduce_minimise last: on a tree without proposed_fixes/C07-1 its cases with an unproductive
    # cycle disagree (recorded finding); at most MAX_DEAD of them so that they cannot crowd out
    # the other disagreements the driver looks at
    n = {"reduce": 60, "product": 50, "union": 45, "map_states": 70, "minimise": 60, "minimise_raw": 15,
         "reduce_minimise": 60}
    dead_left = MAX_DEAD
    if not quick:
        n = {k: v * 14 for k, v in n.items()}
    for kind, cnt in n.items():
        for _ in range(cnt):
            ar = gen_alphabet(rng)
            names = rng.randint(0, 1)
            if kind in ("product", "union"):
                if kind == "union":
                    # the union's rule table has (|states B|+1)^arity entries per rule of A: keep it small
                    ms, mr = (3, 10) if max(ar) == 3 else (5, 16)
                else:
                    ms, mr = 7, 22
                A = gen_aut(rng, ar, ms, mr)
                r = rng.random()
                same = False
                if r < 0.12:
                    # the same transition table with other final states (equal tables are not equal automata)
                    sts = sorted({d for _, a, d in A[0]})
                    fin = sorted(q for q in sts if rng.random() < 0.5)
                    if fin == sorted(A[1]) and sts:
                        fin = [q for q in sts if q not in A[1]] or sts[:1]
                    B = [A[0], fin]
                elif r < 0.17:
                    B, same = A, True          # the automaton combined with itself (same object)
                elif r < 0.55:
                    B = variant_of(rng, A, ar)
                else:
                    B = gen_aut(rng, ar, ms, mr)
                trees = gen_trees(rng, ar, [A, B], tier)
                c = {"kind": kind, "A": A, "B": B, "trees": trees, "names": names}
                if same:
                    c["same_object"] = 1
                cases.append(c)
            elif kind == "map_states":
                A = gen_aut(rng, ar)
                sts = sorted({d for _, a, d in A[0]} | {x for _, a, _ in A[0] for x in a} | set(A[1]))
                # renamings whose image overlaps the old names (permutations, small shifts) are the
                # interesting ones: a state left un-renamed (e.g. an unreachable one) then collides
                mode = rng.choice(["shift", "pair", "perm", "perm", "perm", "shift_small", "shift_small", "nest"])
                if mode == "shift":
                    table = [[q, q + 100] for q in sts]
                elif mode == "shift_small":
                    k = rng.choice([1, 2])
                    table = [[q, q + k] for q in sts]
                elif mode == "pair":
                    table = [[q, [q, 7]] for q in sts]
                elif mode == "nest":
                    table = [[q, [[q], []]] for q in sts]
                else:
                    p = list(sts)
                    rng.shuffle(p)
                    table = [[q, p[i]] for i, q in enumerate(sts)]
                trees = gen_trees(rng, ar, [A], tier)
                cases.append({"kind": kind, "A": A, "table": table, "trees": trees, "names": 0})
            elif kind == "minimise":
                A = trim(gen_aut(rng, ar))
                if len(cases) % 5 == 0:
                    # partial automata with "diagonal only" rules: leaves x->0, y->1(, z->2), f(q,q)->3 for each leaf
                    # state q (f(0,1) has no rule), g(3)->4, g(4)->4: the leaf states are only told apart by the
                    # mixed contexts f(0,1) / f(1,0), which exist for no rule of the table
                    ar = [0, 0, 0, 2, 1][: rng.choice([5, 5, 4])] if rng.random() < 0.8 else [0, 0, 2, 1]
                    leaves = [i for i, a in enumerate(ar) if a == 0]
                    f = ar.index(2)
                    g = ar.index(1) if 1 in ar else None
                    nl = len(leaves)
                    rules = [[l, [], i] for i, l in enumerate(leaves)]
                    diag = [i for i in range(nl) if i == 0 or rng.random() < 0.8]
                    rules += [[f, [i, i], nl] for i in diag]
                    if rng.random() < 0.3 and nl >= 2:
                        rules.append([f, [0, 1], nl + 1])
                    fin = [nl]
                    if g is not None:
                        rules += [[g, [nl], nl + 1], [g, [nl + 1], nl + 1]]
                        fin = rng.choice([[nl], [nl, nl + 1], [nl + 1]])
                    A = trim([rules, fin])
                trees = gen_trees(rng, ar, [A], tier)
                cases.append({"kind": kind, "A": A, "trees": trees, "names": names})
            elif kind == "minimise_raw":
                # minimise on an automaton that was NOT reduced: KeyError or a result, as the model says
                A = gen_aut(rng, ar, 5, 10)
                trees = gen_trees(rng, ar, [A], tier)
                cases.append({"kind": kind, "A": A, "trees": trees[:200], "names": names})
            else:
                A = gen_aut(rng, ar)
                if kind == "reduce_minimise" and has_unproductive_after_pinned_reduce(A):
                    if dead_left == 0:
                        A = trim(A) if rng.random() < 0.5 else [A[0], sorted({r[2] for r in A[0]})]
                    else:
                        dead_left -= 1
                trees = gen_trees(rng, ar, [A], tier)
                cases.append({"kind": kind, "A": A, "trees": trees, "names": names})
    return cases


# ----------------------------------------------------------------------------
# model side
# ----------------------------------------------------------------------------
ENTRY = {"reduce": 1, "product": 2, "union": 3, "map_states": 4, "minimise": 5, "minimise_raw": 5, "reduce_minimise": 6}


def to_model(case):
    k = case["kind"]
    if k in ("product", "union"):
        return ENTRY[k], [case["A"], case["B"], case["trees"]]
    if k == "map_states":
        return ENTRY[k], [case["A"], case["table"], case["trees"]]
    return ENTRY[k], [case["A"], case["trees"]]


def _res(l):
    if l[0] != 0:
        return {"status": l[0]}
    return {"status": 0, "bits": l[1], "nstates": l[2]}


def model_obs(case, raw):
    k = case["kind"]
    if k == "product":
        return {"bitsA": raw[0], "bitsB": raw[1], "bits": raw[2], "runsA": raw[3], "runsB": raw[4], "runs": raw[5]}
    if k == "map_states":
        return {"bitsA": raw[0], "bits": raw[1], "runsA": raw[2], "runs": raw[3]}
    if raw[0] != 0:
        return {"status": raw[0]}
    if k == "union":
        return {"status": 0, "bitsA": raw[1], "bitsB": raw[2], "bits": raw[3], "nstates": raw[4], "pinned": _res(raw[5])}
    if k in ("minimise", "minimise_raw"):
        return {"status": 0, "bitsA": raw[1], "bits": raw[2], "nstates": raw[3]}
    return {"status": 0, "bitsA": raw[1], "bits": raw[2], "nstates": raw[3], "pinned": _res(raw[4])}


def spec_bits(case, mo):
    """what the theorem says the result accepts, from the model's runs of the originals"""
    k = case["kind"]
    if k == "product":
        return [a & b for a, b in zip(mo["bitsA"], mo["bitsB"])]
    if k == "union":
        return [a | b for a, b in zip(mo["bitsA"], mo["bitsB"])]
    return mo["bitsA"]


def agree(case, io, mo):
    if not isinstance(io, dict) or "crash" in io or "hang" in io:
        return False
    k = case["kind"]
    if mo.get("status", 0) == 2:
        return k == "minimise_raw" and io.get("keyerror") is True
    if mo.get("status", 0) != 0 or io.get("keyerror"):
        return False
    # the original automaton(s): DFTA.read against the model's run
    if io.get("bitsA") != mo["bitsA"]:
        return False
    if k in ("product", "union") and io.get("bitsB") != mo["bitsB"]:
        return False
    if io.get("bits") != mo["bits"]:
        return False
    if mo["bits"] != spec_bits(case, mo):
        return False  # would contradict the theorem: extraction or harness broken
    if k in ("product", "map_states"):
        if io.get("runs") != mo["runs"]:
            return False
    if k in ("minimise", "reduce_minimise", "minimise_raw"):
        if io.get("nstates") != mo["nstates"]:
            return False
    if k in ("minimise", "reduce_minimise"):
        if io.get("nstates") != nerode_count(case["A"]):
            return False
    return True


def nontrivial(case, mo):
    if "bitsA" not in mo:
        return False
    b = mo["bitsA"]
    return 1 in b and 0 in b


def show_aut(a):
    rl, fin = a
    return {"rules": ["%d(%s)->%d" % (l, ",".join(map(str, args)), d) for l, args, d in rl[:12]], "finals": fin}


def describe(case, mo):
    d = {"kind": case["kind"], "A": show_aut(case["A"]), "trees": len(case["trees"])}
    if "B" in case:
        d["B"] = show_aut(case["B"])
    if "bitsA" in mo:
        d["accepted_by_A"] = sum(mo["bitsA"])
    if "bits" in mo:
        d["accepted_by_result"] = sum(mo["bits"])
    if "nstates" in mo:
        d["states_of_result"] = mo["nstates"]
    return d


def _prune_trees(dag, keep):
    """sub-DAG needed for the trees whose indices are in keep"""
    need = set()
    stack = list(keep)
    while stack:
        i = stack.pop()
        if i in need:
            continue
        need.add(i)
        stack.extend(dag[i][1])
    order = sorted(need)
    ren = {o: n for n, o in enumerate(order)}
    return [[dag[o][0], [ren[c] for c in dag[o][1]]] for o in order]


_SHRINK_T0 = [None]
SHRINK_BUDGET_S = 150


def shrink(case):
    # all minimisation of one check run shares one time budget: when an operation is broken
    # outright, dozens of cases disagree and the remaining ones are reported as they are
    import time
    if _SHRINK_T0[0] is None:
        _SHRINK_T0[0] = time.time()
    if time.time() - _SHRINK_T0[0] > SHRINK_BUDGET_S:
        return
    if case["kind"] == "reduce_minimise" and has_unproductive_after_pinned_reduce(case["A"]):
        # a disagreement here is what the recorded finding explains (classify() checks it precisely);
        # minimising it would only cost time.  One cheap candidate: without the trees.
        if len(case["trees"]) > 1:
            c = dict(case)
            c["trees"] = case["trees"][:1]
            yield c
        return

    def variant(**kw):
        c = dict(case)
        c.update(kw)
        return c

    def fix(name, aut):
        return trim(aut) if (case["kind"] == "minimise" and name == "A") else aut

    dag = case["trees"]
    n = len(dag)
    # trees: keep one chunk out of 16/8/4/2 (with the subtrees it needs), most aggressive first
    if n > 8:
        for k in (16, 8, 4, 2):
            if n < 2 * k:
                continue
            step = (n + k - 1) // k
            for i in range(0, n, step):
                if i == 0:
                    yield variant(trees=dag[:step])
                else:
                    yield variant(trees=_prune_trees(dag, range(i, min(n, i + step))))
    elif n > 1:
        for i in range(n):
            yield variant(trees=_prune_trees(dag, [i]))
        for i in range(n):
            yield variant(trees=_prune_trees(dag, [j for j in range(n) if j != i]))
    for name in ("A", "B"):
        if name not in case:
            continue
        rl, fin = case[name]
        m = len(rl)
        if m > 6:
            for k in (4, 2):
                step = (m + k - 1) // k
                for i in range(0, m, step):
                    yield variant(**{name: fix(name, [rl[i:i + step], fin])})
            step = (m + 3) // 4
            for i in range(0, m, step):
                yield variant(**{name: fix(name, [rl[:i] + rl[i + step:], fin])})
            if m <= 36 and n <= 8:
                for i in range(m):
                    yield variant(**{name: fix(name, [rl[:i] + rl[i + 1:], fin])})
        else:
            for i in range(m):
                yield variant(**{name: fix(name, [rl[:i] + rl[i + 1:], fin])})
        if len(fin) > 3:
            yield variant(**{name: fix(name, [rl, fin[:len(fin) // 2]])})
            yield variant(**{name: fix(name, [rl, fin[len(fin) // 2:]])})
        else:
            for i in range(len(fin)):
                yield variant(**{name: fix(name, [rl, fin[:i] + fin[i + 1:]])})
    if case.get("names"):
        yield variant(names=0)
    if "table" in case:
        used = {d for _, a, d in case["A"][0]} | {x for _, a, _ in case["A"][0] for x in a} | set(case["A"][1])
        t2 = [e for e in case["table"] if e[0] in used]
        if len(t2) < len(case["table"]):
            yield variant(table=t2)


def classify(case, io, mo):
    """c07_reduce_keeps_unproductive_cycles: reduce() then minimise() returns more
    states than necessary because reduce() kept an unproductive state.  Only when
    (1) every acceptance bit agrees, (2) the implementation's state count is
    exactly the one of the model of the pinned code, (3) the harness's own
    computation confirms that consumption-based pruning leaves an unproductive
    state in this automaton."""
    if case["kind"] != "reduce_minimise" or not isinstance(io, dict) or not isinstance(mo, dict):
        return None
    if "crash" in io or "hang" in io or io.get("keyerror") or mo.get("status", 0) != 0:
        return None
    p = mo.get("pinned", {})
    if (io.get("bitsA") == mo["bitsA"] and io.get("bits") == mo["bits"] and p.get("status") == 0
            and p.get("bits") == io.get("bits") and p.get("nstates") == io.get("nstates")
            and io.get("nstates") != mo["nstates"] and io.get("nstates") > mo["nstates"]
            and has_unproductive_after_pinned_reduce(case["A"])):
        return "c07_reduce_keeps_unproductive_cycles"
    return None


def theorem_for(case):
    return {
        "reduce": "C07_reduce (accepts (reduce A) t = accepts A t)",
        "product": "C07_product (run of read_product = pair of runs; accepts = andb)",
        "union": "C07_union (accepts (read_union A B) t = accepts A t || accepts B t)",
        "map_states": "C07_map_states (injective renaming keeps acceptance; run = image of run)",
        "minimise": "C07_minimise_language + C07_minimise_minimal (state count = least possible; harness Myhill-Nerode count is a test)",
        "minimise_raw": "model of minimise (KeyError exactly when a rule argument or final state is unreachable; language otherwise)",
        "reduce_minimise": "C07_reduce + C07_reduce_trim + C07_minimise_language + C07_minimise_minimal",
    }[case["kind"]]
