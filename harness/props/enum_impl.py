"""Shared implementation runner for the enumerator properties C02, C03, C12:
builds a grammar and weights with the real code, runs one enumerator under a
hard limit on the number of outputs, and returns the output sequence together
with the grammar's own rule table and exact weights."""
import random

from synth.syntax.grammars.cfg import CFG
from synth.syntax.grammars.ttcfg import TTCFG
from synth.syntax.grammars.tagged_det_grammar import ProbDetGrammar
from synth.syntax.grammars import enumeration as E
from synth.filter.filter import Filter
from lib import objs as O
from lib import gramwire as G
from props.c01_impl import build_dsl
from synth.syntax.grammars.u_cfg import UCFG
from synth.syntax.grammars.tagged_u_grammar import ProbUGrammar


def build_grammar(g):
    dsl = build_dsl(g["prims"], g["forbidden"])
    treq = O.ty(g["request"])
    if g["kind"] == "cfg":
        return CFG.depth_constraint(dsl, treq, g["max_depth"], g.get("min_var", 1), g.get("n_gram", 2), False,
                                    {O.ty(t) for t in g.get("const_types", [])})
    if g["kind"] == "inf":
        return CFG.depth_constraint(dsl, treq, -1, 1, g.get("n_gram", 2), False, set())
    if g["kind"] == "size":
        return TTCFG.size_constraint(dsl, treq, g["max_size"], g.get("n_gram", 2))
    if g["kind"] in ("ucfg", "udfta"):
        cfg = CFG.depth_constraint(dsl, treq, g["max_depth"], g.get("min_var", 1), g.get("n_gram", 2), False, set())
        if g["kind"] == "ucfg":
            return UCFG.from_CFG(cfg, True)
        from synth.filter.constraints.dfta_constraints import add_dfta_constraints
        dfta = add_dfta_constraints(cfg, g["constraints"], progress=False)
        if g.get("u_ngram", 0) > 0:
            return UCFG.from_DFTA_with_ngrams(dfta, g["u_ngram"])
        return UCFG.from_DFTA(dfta)
    raise ValueError(g["kind"])


def draw_weight(rng, kind):
    if kind == "uniform":
        return 1.0
    if kind == "random":
        return rng.random() + 0.01
    if kind == "skewed":
        return 10.0 ** (-rng.randint(0, 6))
    if kind == "ties":
        return float(rng.choice([1, 1, 2, 4]))
    raise ValueError(kind)


def make_u_weights(ug, w):
    rng = random.Random(w["seed"])
    tags = {S: {P: {tuple(alt): draw_weight(rng, w["kind"]) for alt in der} for P, der in ug.rules[S].items()}
            for S in ug.rules}
    starts = {S: draw_weight(rng, w["kind"]) for S in ug.starts}
    pg = ProbUGrammar(ug, tags, starts)
    pg.normalise()
    return pg


def nt_depth(S):
    try:
        return int(S[1][0][1])
    except Exception:
        return 0


def make_weights(grammar, w):
    rng = random.Random(w["seed"])
    kind = w["kind"]
    probs = {}
    deepest = max([nt_depth(S) for S in grammar.rules] + [0])
    for S in grammar.rules:
        probs[S] = {}
        for i, P in enumerate(grammar.rules[S]):
            if kind == "underflow":
                # function rules so unlikely that program probabilities underflow to 0.0 in binary64
                from synth.syntax.type_system import Arrow
                x = 1e-120 if isinstance(getattr(P, "type", None), Arrow) and i % 2 == 0 else 1.0
            elif kind == "deep_spread":
                # uniform everywhere except on the deepest non-terminals: 1 : 10^3 : 10^6
                x = 1000.0 ** (i % 3) if nt_depth(S) == deepest else 1.0
            elif kind == "uniform":
                x = 1.0
            elif kind == "random":
                x = rng.random() + 0.01
            elif kind == "skewed":
                x = 10.0 ** (-rng.randint(0, 6))
            elif kind == "ties":
                x = float(rng.choice([1, 1, 2, 4]))
            elif kind == "rare_leaf":
                x = 0.01 if getattr(P, "primitive", None) in w["rare"] else 0.5 + rng.random()
            else:
                raise ValueError(kind)
            probs[S][P] = x
    pg = ProbDetGrammar(grammar, probs)
    pg.normalise()
    return pg


U_ENUMS = {
    "hs_u": lambda pg, p: E.hs_enumerate_prob_u_grammar(pg),
    "hs_bucket_u": lambda pg, p: E.hs_enumerate_bucket_prob_u_grammar(pg, p.get("bucket_size", 3)),
}

ENUMS = {
    "hs": lambda pg, p: E.hs_enumerate_prob_grammar(pg),
    "hs_bucket": lambda pg, p: E.hs_enumerate_bucket_prob_grammar(pg, p.get("bucket_size", 3)),
    "bs": lambda pg, p: E.bs_enumerate_prob_grammar(pg, p.get("threshold", 2)),
    "bps": lambda pg, p: E.bps_enumerate_prob_grammar(pg),
    "cd": lambda pg, p: E.cd_enumerate_prob_grammar(pg, p.get("k", 10), p.get("precision", 1e-5)),
}


def dfta_reject_filter(grammar, rejected, state):
    """A DFTAFilter whose automaton has one state and a rule for every symbol of
    the grammar except the rejected leaves: it rejects exactly the programs that
    contain one of them."""
    from synth.filter.dfta_filter import DFTAFilter
    from synth.syntax.automata.tree_automaton import DFTA
    rules = {}
    for S in grammar.rules:
        for P in grammar.rules[S]:
            if P in rejected:
                continue
            rules[(P, tuple([state] * grammar.arguments_length_for(S, P)))] = state
    return DFTAFilter(DFTA(rules, {state}))


class SetRejectFilter(Filter):
    def __init__(self, rejected):
        self.rejected = rejected

    def accept(self, obj):
        return obj not in self.rejected


def record_pushes(en, cap=300):
    """Bee search only: records, for the first `cap` popped combinations, the combinations pushed for
    each of them (fresh _add_combination_ calls; re-triggered delayed ones are the same list object)."""
    rec = {"groups": {}, "alive": [], "ids": set(), "last": None, "done": False}
    orig = en._add_combination_

    def wrapped(S, P, index_cost, changed_index=None):
        if not rec["done"] and changed_index is not None and id(index_cost) not in rec["ids"]:
            parent = list(index_cost)
            parent[changed_index] -= 1
            key = (S, P, tuple(parent))
            g = rec["groups"].get(key)
            if g is None and len(rec["groups"]) >= cap:
                rec["done"] = True
                rec["alive"] = []
                rec["ids"] = set()
            else:
                rec["ids"].add(id(index_cost))
                rec["alive"].append(index_cost)
                if g is None:
                    g = rec["groups"][key] = []
                g.append(list(index_cost))
                rec["last"] = key
        return orig(S, P, index_cost, changed_index)

    en._add_combination_ = wrapped
    return rec


def impl(case):
    is_u = case["enum"] in U_ENUMS
    try:
        grammar = build_grammar(case["grammar"])
    except KeyError:
        return {"skip": True, "why": "empty language (C01 known finding)"}
    if is_u:
        if not grammar.starts or any(S not in grammar.rules for S in grammar.starts):
            return {"skip": True, "why": "empty language"}
    elif grammar.start not in grammar.rules:
        return {"skip": True, "why": "empty language"}
    order = case["grammar"].get("rule_order", "asis")
    if order != "asis" and not is_u and case["grammar"]["kind"] == "cfg":
        # the same grammar with its rule table stored in another order
        items = list(grammar.rules.items())
        if order == "reversed":
            items.reverse()
        else:
            random.Random(case["weights"]["seed"]).shuffle(items)
        treq = grammar.type_request
        grammar = CFG(grammar.start, {S: dict(d) for S, d in items}, clean=False)
        grammar.type_request = treq
    n = grammar.programs()
    if case["grammar"]["kind"] == "inf":
        if n >= 0:
            return {"skip": True, "why": "the unbounded grammar is finite"}
    elif n <= 0 or n > case.get("max_lang", 1500):
        return {"skip": True, "why": "language size %d outside [1, max_lang]" % n}
    if is_u:
        return impl_u(case, grammar)
    pg = make_weights(grammar, case["weights"])
    en = ENUMS[case["enum"]](pg, case.get("params", {}))
    rec = record_pushes(en) if case["enum"] == "bs" and hasattr(en, "_add_combination_") else None
    if case.get("dfta_rejected") is not None:
        en.filter = dfta_reject_filter(grammar, {O.prog(w) for w in case["dfta_rejected"]}, case.get("dfta_state", 0))
    elif case.get("rejected") is not None:
        en.filter = SetRejectFilter({O.prog(w) for w in case["rejected"]})
    merges = {m[0]: (O.prog(m[1]), O.prog(m[2])) for m in case.get("merges", [])}
    limit = case.get("limit", 20000)
    out = []
    ended = "stop"
    it = iter(en)
    applied = []
    while True:
        if len(out) in merges and len(out) not in applied:
            rep, other = merges[len(out)]
            en.merge_program(rep, other)
            applied.append(len(out))
        try:
            p = next(it)
        except StopIteration:
            break
        except BaseException as e:
            if type(e).__name__ == "CaseTimeout":
                # keep what was produced so far: the checker still validates the prefix
                ended = "timeout"
                break
            raise
        out.append(O.prog_wire(p))
        if len(out) >= limit:
            ended = "limit"
            break
    res = {"table": G.enc_det_table(grammar), "start": G.enc_nt(grammar.start),
           "weights": G.enc_weights(pg.probabilities), "out": out, "ended": ended}
    # the integer / float costs the enumerator itself works with
    if rec is not None:
        if ended == "timeout" and not rec["done"]:
            rec["groups"].pop(rec["last"], None)   # the interrupted pop may have pushed only some successors
        res["pushes"] = [[list(k[2]), g] for k, g in rec["groups"].items()]
    if case["enum"] in ("bs", "cd"):
        res["costs"] = G.enc_weights(en.G.probabilities, conv=lambda c: [int(c), 1])
    return res


def run_enum(en, case):
    merges = {m[0]: (O.prog(m[1]), O.prog(m[2])) for m in case.get("merges", [])}
    limit = case.get("limit", 20000)
    out = []
    ended = "stop"
    it = iter(en)
    applied = []
    while True:
        if len(out) in merges and len(out) not in applied:
            rep, other = merges[len(out)]
            en.merge_program(rep, other)
            applied.append(len(out))
        try:
            p = next(it)
        except StopIteration:
            break
        except BaseException as e:
            if type(e).__name__ == "CaseTimeout":
                ended = "timeout"
                break
            raise
        out.append(O.prog_wire(p))
        if len(out) >= limit:
            ended = "limit"
            break
    return out, ended


def impl_u(case, ug):
    from props import c04_impl as C4
    pg = make_u_weights(ug, case["weights"])
    en = U_ENUMS[case["enum"]](pg, case.get("params", {}))
    if case.get("rejected") is not None:
        en.filter = SetRejectFilter({O.prog(w) for w in case["rejected"]})
    out, ended = run_enum(en, case)
    return {"utable": C4.u_table(ug), "starts": sorted([C4.u_nt(S) for S in ug.starts], key=repr),
            "uweights": C4.u_weights(pg.tags),
            "sweights": [[C4.u_nt(S), C4.qwire(q)] for S, q in pg.start_tags.items()],
            "out": out, "ended": ended}
