"""C09: sampling draws programs of the grammar with the grammar's probabilities."""
import itertools
import math
from fractions import Fraction

from lib import dsls
from lib import progs as P
from lib import semantics as S

ID = "C09"
IMPL_MODULE = "props.c09_impl"
HASHSEEDS = {"quick": [0, 1], "thorough": [0, 1, 2, 3]}
CASE_TIMEOUT = 120
TOL = Fraction(1, 2 ** 48)
ALPHA = 1e-6
NDRAWS = 40000

RULE = ("table: weight vectors of length 1-12 (normalised random floats, dyadic, zeros, ties, one dominant weight, "
        "sums different from 1) handed to the pure-Python alias sampler; compared: the caller's array is untouched and "
        "the exact distribution induced by the implementation's proba/alias arrays equals the model's draw_dist "
        "(= w/sum w by C09_alias_exact) within 2^-48; non-trivial = some column has proba < 1.  "
        "draw: random tables injected into the sampler, its rng replaced by a scripted stub; (u1,u2) on a grid "
        "straddling every column boundary and every threshold proba[col] (exact, +-1 ulp, 0, 1/2); returned index "
        "vs sample_1; non-trivial = both a column and an alias were returned.  "
        "det/u: grammars (CFG.depth_constraint on random DSLs with ProbDetGrammar.uniform/random, random TTCFG tables "
        "with threaded T states, random unambiguous tables with 1-3 start symbols) rebuilt from their wire form, every "
        "VoseSampler replaced by a scripted one; compared: weight vector and seed of every sampler (seeds pairwise "
        "distinct for a non-zero seed, None for seed 0), sampled programs for every choice script (valid scripts from an "
        "independent walk of the table, truncated and out-of-range scripts); non-trivial = well-formed table and an "
        "application was sampled.  "
        "stat/gstat/ugstat (TEST, not proof): %d draws with the real PRNG from the native vose extension and from the "
        "fallback, chi-square against the model's exact probabilities, fixed seeds, alpha = %g, cells with expectation "
        "< 5 pooled, any draw of probability 0 is a disagreement.  seed: equal non-zero seeds give equal sequences "
        "(both back-ends, samplers and grammars).  values: LexiconSampler/ListSampler/UnionSampler with scripted samplers."
        % (NDRAWS, ALPHA))
ASSUMPTIONS = [
    "the uniform numbers of numpy's Generator / std::mt19937_64 are treated as ideal independent uniforms; long-run "
    "frequencies are only TESTED (chi-square, fixed seeds, alpha 1e-6), the theorem is about the induced distribution",
    "the native vose extension exposes neither its tables nor its generator: it is covered by the statistical leg and the seed leg only",
    "col = int(uniform(0, n)) is computed in floating point; the scripted u1 stay 2^-20/n away from column boundaries",
    "two samplers seeded with different integers are assumed to produce independent streams; samplers seeded with the "
    "same integer produce the same stream, so the seeds of the samplers of one grammar must be pairwise distinct",
    "grammars are rebuilt from their wire form (TTCFG / UCFG constructors with opaque hashable states); ideal rational "
    "weights are sent to the model, the implementation gets the nearest floats",
    "unambiguous grammars: correspondence only (executable model usample_program / ustart_dist, no distribution theorem)",
]


# ---------------------------------------------------------------------------
# numbers
# ---------------------------------------------------------------------------
def fq(x):
    n, d = float(x).as_integer_ratio()
    return [n, d]


def Fr(q):
    return Fraction(q[0], q[1])


def qw(f):
    return [f.numerator, f.denominator]


def gammaincc(a, x):
    """regularised upper incomplete gamma Q(a, x)"""
    if x <= 0:
        return 1.0
    if x < a + 1:
        ap, s, d = a, 1.0 / a, 1.0 / a
        for _ in range(10000):
            ap += 1
            d *= x / ap
            s += d
            if abs(d) < abs(s) * 1e-16:
                break
        return max(0.0, 1.0 - s * math.exp(-x + a * math.log(x) - math.lgamma(a)))
    b = x + 1 - a
    c = 1e300
    d = 1.0 / b
    h = d
    for i in range(1, 10000):
        an = -i * (i - a)
        b += 2
        d = an * d + b
        d = 1e-300 if abs(d) < 1e-300 else d
        c = b + an / c
        c = 1e-300 if abs(c) < 1e-300 else c
        d = 1.0 / d
        de = d * c
        h *= de
        if abs(de - 1) < 1e-16:
            break
    return h * math.exp(-x + a * math.log(x) - math.lgamma(a))


def chi2_pvalue(counts, probs):
    """counts[i] observations of cell i with exact probability probs[i] (Fractions).  Returns
    (p-value, impossible) where impossible = a cell of probability 0 was observed."""
    n = sum(counts)
    cells = []
    pool_e, pool_o = 0.0, 0
    for c, p in zip(counts, probs):
        if p == 0:
            if c:
                return 0.0, True
            continue
        e = float(p) * n
        if e < 5:
            pool_e += e
            pool_o += c
        else:
            cells.append((c, e))
    if pool_e > 0:
        cells.append((pool_o, pool_e))
    if len(cells) < 2:
        return 1.0, False
    x = sum((o - e) ** 2 / e for o, e in cells)
    return gammaincc((len(cells) - 1) / 2.0, x / 2.0), False


# ---------------------------------------------------------------------------
# generators
# ---------------------------------------------------------------------------
def gen_weights(rng):
    n = rng.randint(1, 12)
    style = rng.choice(["float", "float", "dyadic", "zeros", "ties", "dominant", "unnormalised", "uniform", "ints"])
    if style == "float":
        w = [rng.random() for _ in range(n)]
        s = sum(w)
        w = [x / s for x in w]
    elif style == "dyadic":
        cuts = sorted(rng.randint(0, 64) for _ in range(n - 1))
        w = [(b - a) / 64.0 for a, b in zip([0] + cuts, cuts + [64])]
    elif style == "zeros":
        w = [rng.random() if rng.random() < 0.5 else 0.0 for _ in range(n)]
        if sum(w) == 0:
            w[rng.randrange(n)] = 1.0
        s = sum(w)
        w = [x / s for x in w]
    elif style == "ties":
        k = rng.randint(1, 3)
        vals = [rng.randint(1, 4) for _ in range(k)]
        w = [rng.choice(vals) for _ in range(n)]
        s = sum(w)
        w = [x / s for x in w]
    elif style == "dominant":
        w = [rng.random() * 0.01 for _ in range(n)]
        w[rng.randrange(n)] = 1.0
        s = sum(w)
        w = [x / s for x in w]
    elif style == "unnormalised":
        w = [rng.random() * rng.choice([0.1, 3.7, 10]) for _ in range(n)]
    elif style == "ints":
        w = [float(rng.randint(0, 9)) for _ in range(n)]
        if sum(w) == 0:
            w[0] = 1.0
    else:
        w = [1.0 / n] * n
    return [fq(x) for x in w]


def gen_draw(rng):
    n = rng.randint(1, 9)
    proba = []
    for _ in range(n):
        r = rng.random()
        proba.append(0.0 if r < 0.1 else 1.0 if r < 0.3 else 0.5 if r < 0.4 else rng.randint(1, 63) / 64.0 if r < 0.6 else rng.random())
    alias = [rng.randrange(n) for _ in range(n)]
    draws = []
    for c in range(n):
        for d in (2.0 ** -20, 0.5, 1 - 2.0 ** -20):
            u1 = (c + d) / n
            p = proba[c]
            for u2 in (0.0, math.nextafter(p, 0.0), p, math.nextafter(p, 2.0), math.nextafter(0.5, 0.0), 0.5,
                       1 - 2.0 ** -53, rng.random()):
                if 0 <= u2 < 1 and 0 <= u1 < 1:
                    draws.append([fq(u1), fq(u2)])
    if len(draws) > 120:
        draws = rng.sample(draws, 120)
    return {"kind": "draw", "data": [[fq(p) for p in proba], alias, draws]}


def rand_probs(rng, n, ideal=True):
    """n positive fractions summing to 1"""
    r = rng.random()
    if r < 0.3:
        ks = [1] * n
    elif r < 0.6:
        ks = [rng.randint(1, 9) for _ in range(n)]
    else:
        ks = [rng.randint(1, 1000) for _ in range(n)]
    s = sum(ks)
    return [Fraction(k, s) for k in ks]


def key(x):
    return repr(x)


def gen_det_table(rng, max_rank=2, types=(S.INT, S.BOOL), tstates=(0, 1)):
    """Random acyclic TTCFG-like table with threaded T states: every non-terminal
    (type, S, T) that the traversal can reach gets rules."""
    table = {}
    ends = {}
    pid = [100]

    def make(nt):
        k = key(nt)
        if k in ends:
            return ends[k]
        ends[k] = endset = set()
        rank = nt[1]
        rules = []
        for _ in range(rng.randint(1, 3)):
            arity = 0 if rank == 0 else rng.choice([0, 1, 2, 2, 3])
            args = [[rng.choice(types), rng.randrange(rank)] for _ in range(arity)]
            t2 = rng.choice(tstates)
            sym = [0, pid[0], S.ARROW(*[a[0] for a in args], nt[0])]
            pid[0] += 1
            rules.append([sym, args, t2])
            states = {t2}
            for a in args:
                nxt = set()
                for y in sorted(states):
                    nxt |= make([a[0], a[1], y])
                states = nxt
            endset |= states
        table[k] = [nt, rules]
        return endset

    start = [rng.choice(types), rng.randint(0, max_rank), rng.choice(tstates)]
    make(start)
    tbl = list(table.values())
    rng.shuffle(tbl)
    weights = []
    for nt, rules in tbl:
        ps = rand_probs(rng, len(rules))
        weights.append([nt, [[r[0], qw(p)] for r, p in zip(rules, ps)]])
    return tbl, weights, start


def det_walk(rng, table, weights, start, limit=400):
    """A complete, valid list of choices (independent walk of the wire table)."""
    rules = {key(nt): {key(r[0]): r for r in rs} for nt, rs in table}
    wts = {key(nt): ws for nt, ws in weights}
    script = []

    def derive(info, r):
        l = r[1] + info
        if not l:
            return [], None
        return l[1:], [l[0][0], l[0][1], r[2]]

    def rec(x, info):
        if len(script) > limit:
            raise OverflowError()
        ws = wts[key(x)]
        i = rng.randrange(len(ws))
        script.append(i)
        r = rules[key(x)][key(ws[i][0])]
        info, here = derive(info, r)
        for _ in r[1]:
            info, here = rec(here, info)
        return info, here

    rec(start, [])
    return script


def det_count(table, start, cap=10 ** 6):
    """Number of programs of the wire table (per end state), by the structural recursion."""
    rules = {key(nt): rs for nt, rs in table}
    memo = {}

    def at(x):
        k = key(x)
        if k in memo:
            return memo[k]
        out = {}
        for sym, args, y in rules.get(k, []):
            cur = {key(y): (y, 1)}
            for t, sa in args:
                nxt = {}
                for _, (yy, c) in cur.items():
                    for k2, (y2, c2) in at([t, sa, yy]).items():
                        old = nxt.get(k2, (y2, 0))[1]
                        nxt[k2] = (y2, min(cap, old + c * c2))
                cur = nxt
            for k2, (y2, c) in cur.items():
                out[k2] = (y2, min(cap, out.get(k2, (y2, 0))[1] + c))
        memo[k] = out
        return out

    return sum(c for _, c in at(start).values())


def u_count(rules, start_tags, cap=10 ** 6):
    rl = {key(nt): rs for nt, rs in rules}
    memo = {}

    def at(x):
        k = key(x)
        if k not in memo:
            tot = 0
            for _, alts in rl.get(k, []):
                for alt in alts:
                    c = 1
                    for a in alt:
                        c = min(cap, c * at(a))
                    tot = min(cap, tot + c)
            memo[k] = tot
        return memo[k]

    return sum(at(x) for x, _ in start_tags)


def det_scripts(rng, table, weights, start, nscripts):
    scripts = []
    for _ in range(nscripts):
        k = rng.randint(1, 4)
        cs = []
        try:
            for _ in range(k):
                cs += det_walk(rng, table, weights, start)
        except (OverflowError, KeyError):
            continue
        r = rng.random()
        if r < 0.12 and cs:
            cs = cs[:rng.randrange(len(cs))]                    # exhausted
        elif r < 0.24 and cs:
            cs[rng.randrange(len(cs))] += rng.randint(1, 4)      # another rule or out of range
        elif r < 0.3:
            cs = [rng.randint(0, 3) for _ in range(rng.randint(0, 12))]
        scripts.append([k, cs])
    return scripts


def rationalise(weights):
    out = []
    for nt, ws in weights:
        fr = [Fr(q).limit_denominator(4096) for _, q in ws]
        s = sum(fr)
        out.append([nt, [[sy, qw(f / s)] for (sy, _), f in zip(ws, fr)]])
    return out


def gen_u_table(rng, max_rank=2):
    """Random unambiguous table: symbols are private to a non-terminal, so the
    head symbol determines the non-terminal and alternatives never overlap."""
    types = (S.INT, S.BOOL)
    nts = []
    for rank in range(max_rank + 1):
        for j in range(rng.randint(1, 2)):
            nts.append([rng.choice(types), [rank, j]])
    pid = 100
    rules, tags = [], []
    for nt in nts:
        rank = nt[1][0]
        lower = [x for x in nts if x[1][0] < rank]
        rs = []
        for _ in range(rng.randint(1, 3)):
            arity = 0 if not lower else rng.choice([0, 1, 2, 2])
            if arity == 0:
                alts = [[]]
                ty = nt[0]
            else:
                argt = [rng.choice(types) for _ in range(arity)]
                alts = []
                for _ in range(rng.randint(1, 3)):
                    alt = [rng.choice(lower) for _ in range(arity)]
                    if alt not in alts:
                        alts.append(alt)
                ty = S.ARROW(*argt, nt[0])
            rs.append([[0, pid, ty], alts])
            pid += 1
        rules.append([nt, rs])
        nalt = sum(len(a) for _, a in rs)
        ps = rand_probs(rng, nalt)
        it = iter(ps)
        tags.append([nt, [[sy, [qw(next(it)) for _ in alts]] for sy, alts in rs]])
    top = [x for x in nts if x[1][0] == max_rank] + [x for x in nts if x[1][0] == max_rank - 1]
    k = rng.choice([1, 2, 2, 3])
    starts = top[:k]
    sp = rand_probs(rng, len(starts))
    if len(starts) > 1 and len(set(sp)) == 1:
        sp = [Fraction(i + 1, len(sp) * (len(sp) + 1) // 2) for i in range(len(sp))]
    start_tags = [[x, qw(p)] for x, p in zip(starts, sp)]
    order = list(range(len(rules)))
    rng.shuffle(order)
    return [rules[i] for i in order], [tags[i] for i in order], start_tags


def u_walk(rng, rules, tags, start_tags, limit=400):
    rl = {key(nt): {key(s): alts for s, alts in rs} for nt, rs in rules}
    tg = {key(nt): ps for nt, ps in tags}
    script = []

    def rec(x):
        if len(script) > limit:
            raise OverflowError()
        ps = tg[key(x)]
        i = rng.randrange(len(ps))
        script.append(i)
        alts = rl[key(x)][key(ps[i][0])]
        if len(alts[0]) == 0:
            return
        j = rng.randrange(len(alts))
        script.append(j)
        for a in alts[j]:
            rec(a)

    i = rng.randrange(len(start_tags))
    script.append(i)
    rec(start_tags[i][0])
    return script


def u_scripts(rng, rules, tags, start_tags, nscripts):
    scripts = []
    for _ in range(nscripts):
        k = rng.randint(1, 4)
        cs = []
        try:
            for _ in range(k):
                cs += u_walk(rng, rules, tags, start_tags)
        except OverflowError:
            continue
        r = rng.random()
        if r < 0.1 and cs:
            cs = cs[:rng.randrange(len(cs))]
        elif r < 0.2 and cs:
            cs[rng.randrange(len(cs))] += rng.randint(1, 3)
        scripts.append([k, cs])
    return scripts


def collision_grammar():
    """S0 -> h(S1, S7); S1 -> P(S2) | P(S3); S7 -> c | d: with the pinned seeds the
    alternative sampler of (S1, P) and the symbol sampler of S7 share a stream."""
    I = S.INT

    def nt(i):
        return [I, [i, 0]]
    leaf = lambda n: [0, n, I]
    rules = [[nt(0), [[[0, 200, S.ARROW(I, I, I)], [[nt(1), nt(7)]]]]],
             [nt(1), [[[0, 201, S.ARROW(I, I)], [[nt(2)], [nt(3)]]]]],
             [nt(2), [[leaf(202), [[]]]]], [nt(3), [[leaf(203), [[]]]]],
             [nt(4), [[leaf(204), [[]]]]], [nt(5), [[leaf(205), [[]]]]], [nt(6), [[leaf(206), [[]]]]],
             [nt(7), [[leaf(207), [[]]], [leaf(208), [[]]]]]]
    tags = [[nt(0), [[[0, 200, S.ARROW(I, I, I)], [[1, 1]]]]],
            [nt(1), [[[0, 201, S.ARROW(I, I)], [[1, 2], [1, 2]]]]],
            [nt(2), [[leaf(202), [[1, 1]]]]], [nt(3), [[leaf(203), [[1, 1]]]]],
            [nt(4), [[leaf(204), [[1, 1]]]]], [nt(5), [[leaf(205), [[1, 1]]]]], [nt(6), [[leaf(206), [[1, 1]]]]],
            [nt(7), [[leaf(207), [[1, 2]]], [leaf(208), [[1, 2]]]]]]
    return rules, tags, [[nt(0), [1, 1]]]


def perms_of(k):
    return [list(p) for p in itertools.permutations(range(k))]


def gen(rng, tier):
    from lib import core
    q = tier == "quick"
    cases = []
    # (i) tables
    for _ in range(160 if q else 2500):
        cases.append({"kind": "table", "data": gen_weights(rng)})
    cases.append({"kind": "table", "data": [fq(0.7), fq(0.2), fq(0.1)]})
    cases.append({"kind": "table", "data": [fq(7.0), fq(2.0), fq(1.0)]})
    # (ii) draws
    for _ in range(60 if q else 800):
        cases.append(gen_draw(rng))
    # (iii) grammars: prepared by the implementation's own constructors ...
    specs = []
    for _ in range(14 if q else 120):
        d = dsls.gen_dsl(rng, rng.choice(["F1", "F2", "F2", "F3", "F6"]))
        params = [d["prims"], d["forbidden"], d["request"], rng.randint(2, 3), 1, 2, d["const_types"]]
        specs.append({"kind": "prepare", "data": [params, rng.randint(0, 1), rng.randint(1, 10 ** 6)]})
    outs = core.run_impl(IMPL_MODULE, specs, 0, 60)
    prepared = []
    for sp, o in zip(specs, outs):
        if isinstance(o, dict) and "table" in o and 0 < o["programs"] <= 3000 and len(o["table"]) <= 60:
            prepared.append((sp["data"], o["table"], rationalise(o["weights"]), o["start"], o["programs"]))
    dets = [(None, ) + gen_det_table(rng, rng.randint(1, 2)) + (None, ) for _ in range(16 if q else 200)]
    dets += prepared
    small = []
    for src, table, weights, start, nprog in dets:
        scripts = det_scripts(rng, table, weights, start, 10 if q else 25)
        if scripts:
            cases.append({"kind": "det", "seed": rng.choice([0, 1, 7, 123456]),
                          "data": [40, table, weights, start, scripts]})
            cases.append({"kind": "det_perm", "seed": rng.choice([0, 1, 7]),
                          "data": [40, table, weights, start, []]})
        if det_count(table, start) <= 150:
            small.append((src, table, weights, start))
    # ... and unambiguous tables
    utabs = [gen_u_table(rng, rng.randint(1, 2)) for _ in range(14 if q else 150)]
    for rules, tags, stags in utabs:
        for st in ([stags, stags[::-1]] if len(stags) > 1 else [stags]):
            scripts = u_scripts(rng, rules, tags, st, 8 if q else 20)
            if scripts:
                cases.append({"kind": "u", "seed": rng.choice([0, 3, 99]),
                              "data": [40, rules, tags, st, perms_of(len(st)), scripts]})
    # (iv) statistical legs
    vectors = [[fq(0.7), fq(0.2), fq(0.1)], [fq(7.0), fq(2.0), fq(1.0)]]
    vectors += [gen_weights(rng) for _ in range(4 if q else 30)]
    for i, w in enumerate(vectors):
        for name in ("native", "fallback"):
            cases.append({"kind": "stat", "data": [w, name, 1000 + i, NDRAWS]})
    rng.shuffle(small)
    for i, (src, table, weights, start) in enumerate(small[:(3 if q else 20)]):
        for name in ("native", "fallback"):
            cases.append({"kind": "gstat", "data": [src, table, weights, start, name, 500 + i, NDRAWS // 2]})
    rules, tags, stags = collision_grammar()
    cases.append({"kind": "ugstat", "data": [rules, tags, stags, "native", 12345, NDRAWS // 2]})
    usmall = [u for u in utabs if u_count(u[0], u[2]) <= 150]
    for rules, tags, stags in usmall[:(2 if q else 12)]:
        cases.append({"kind": "ugstat", "data": [rules, tags, stags, "native", 77, NDRAWS // 2]})
        if len(stags) > 1:
            cases.append({"kind": "ugstat", "data": [rules, tags, stags[::-1], "native", 78, NDRAWS // 2]})
    # (v) seeds
    for i in range(4 if q else 30):
        for name in ("native", "fallback"):
            cases.append({"kind": "seed", "data": [0, gen_weights(rng), name, rng.randint(1, 10 ** 6), 200]})
    for src, table, weights, start, _ in dets[:(3 if q else 20)]:
        for name in ("native", "fallback"):
            cases.append({"kind": "seed", "data": [1, [table, weights, start], name, rng.randint(1, 10 ** 6), 60]})
    for rules, tags, stags in utabs[:(2 if q else 12)]:
        for name in ("native", "fallback"):
            cases.append({"kind": "seed", "data": [2, [rules, tags, stags], name, rng.randint(1, 10 ** 6), 60]})
    # value samplers
    for _ in range(40 if q else 400):
        r = rng.random()
        if r < 0.4:
            m = rng.randint(1, 8)
            probs = [] if rng.random() < 0.3 else [qw(p) for p in rand_probs(rng, m)]
            if len(probs) >= 2 and rng.random() < 0.35:
                # zero entries: a weight vector with a zero is still the given vector (never "nothing given")
                ps = rand_probs(rng, m - 1)
                z = rng.randrange(m)
                probs = [qw(p) for p in ps[:z]] + [[0, 1]] + [qw(p) for p in ps[z:]]
            idx = [rng.randrange(m + 1) for _ in range(rng.randint(1, 10))]
            cases.append({"kind": "values", "data": [0, m, probs, idx, rng.randint(0, 1)]})
        elif r < 0.8:
            k = rng.randint(1, 4)
            probs = [qw(p) for p in rand_probs(rng, k)]
            pairs = [[rng.randint(0, 4), p] for p in probs] if rng.random() < 0.5 else []
            depth = rng.randint(0, 3)
            lens = [rng.randrange(k) for _ in range(rng.randint(0, 30))]
            elems = [rng.randint(-5, 50) for _ in range(rng.randint(0, 60))]
            cases.append({"kind": "values", "data": [1, probs, pairs, depth, lens, elems]})
        else:
            pool = [S.INT, S.BOOL, S.LIST(S.INT), S.LIST(S.LIST(S.INT)), [0, 10], S.ARROW(S.INT, S.INT)]
            keys = [rng.choice(pool) for _ in range(rng.randint(0, 4))]
            cases.append({"kind": "values", "data": [2, keys, rng.randint(0, 1), [rng.choice(pool) for _ in range(6)]]})
    return cases


# ---------------------------------------------------------------------------
# model side
# ---------------------------------------------------------------------------
def to_model(case):
    k, d = case["kind"], case["data"]
    if k == "table":
        return (1, d)
    if k == "draw":
        return (2, d)
    if k == "det_perm":
        return (1, [[1, 1]])
    if k == "det":
        # the well-formedness flag enumerates the language: only evaluated for small ones
        wfuel = 12 if det_count(d[1], d[3]) <= 400 else 0
        return (3, [d[0], wfuel] + d[1:])
    if k == "u":
        return (4, d)
    if k == "stat":
        return (1, d[0])
    if k == "gstat":
        return (5, [12, d[1], d[2], d[3]])
    if k == "ugstat":
        return (7, [12, d[0], d[1], d[2], perms_of(len(d[2]))])
    if k == "seed":
        return (1, [[1, 1]])
    if k == "values":
        return (6, d[:4] if d[0] == 0 else d)
    raise ValueError(k)


def model_obs(case, raw):
    return raw


# ---------------------------------------------------------------------------
# comparison
# ---------------------------------------------------------------------------
def ok_impl(io):
    return not (isinstance(io, dict) and ("crash" in io or "hang" in io))


def clamp(p):
    return min(max(p, Fraction(0)), Fraction(1))


def table_dist(proba, alias, pinned=False):
    n = len(proba)
    d = [Fraction(0)] * n
    for c in range(n):
        p = Fraction(1, 2) if pinned else clamp(Fr(proba[c]))
        d[c] += p / n
        a = alias[c]
        if not 0 <= a < n:
            return None
        d[a] += (1 - p) / n
    return d


def close(a, b, tol=TOL):
    return a is not None and len(a) == len(b) and all(abs(x - y) <= tol for x, y in zip(a, b))


def table_checks(case, io, mo):
    """(input untouched, distribution correct, distribution = pinned construction's)"""
    w = case["data"]
    n = len(w)
    if not ok_impl(io) or len(io.get("proba", [])) != n or len(io.get("alias", [])) != n or not mo[0]:
        return False, False, False
    d = table_dist(io["proba"], io["alias"])
    rep = [Fr(x) for x in mo[0][1]]
    pin = [Fr(x) for x in mo[1][2]] if mo[1] else None
    return io["after"] == w, close(d, rep), pin is not None and close(d, pin)


def res_equal(impl_runs, model_runs):
    if len(impl_runs) != len(model_runs):
        return False
    for a, b in zip(impl_runs, model_runs):
        if len(a) != len(b):
            return False
        for x, y in zip(a, b):
            if x[0] != y[0]:
                return False
            if x[0] == 0:
                if x[1] != y[1]:
                    return False
            else:
                want = {2: ("ScriptExhausted",), 3: ("IndexError",)}.get(y[1])
                if want is not None and x[1] not in want:
                    return False
    return True


def weights_close(built, expected):
    if len(built) != len(expected):
        return False
    for (bw, _), ew in zip(built, expected):
        if len(bw) != len(ew):
            return False
        for x, y in zip(bw, ew):
            fx, fy = Fr(x), Fr(y)
            if abs(fx - fy) > TOL * max(1, abs(fy)):
                return False
    return True


def seeds_ok(built, seed):
    seeds = [s for _, s in built]
    if not seed:
        return all(s is None for s in seeds)
    return all(s is not None for s in seeds) and len(set(seeds)) == len(seeds)


def u_expected_weights(mo):
    out = []
    for symw, alts in mo[0]:
        out.append(symw)
        out += alts
    out.append(mo[1])
    return out


def u_pinned_seeds(case):
    seed = case.get("seed", 0)
    tags = case["data"][2]
    out = []
    for i, (_, ps) in enumerate(tags):
        out.append(seed + i if seed else None)
        out += [seed + 7 * i if seed else None for _ in ps]
    out.append(seed + len(tags) if seed else None)
    return out


def dist_counts(io_counts, entries):
    """entries: [(prog wire, Fraction)]; returns (counts aligned with entries, number outside the support)"""
    idx = {}
    probs = []
    for p, q in entries:
        k = repr(p)
        if k in idx:
            probs[idx[k]] += q
        else:
            idx[k] = len(probs)
            probs.append(q)
    counts = [0] * len(probs)
    outside = 0
    for p, c in io_counts:
        k = repr(p)
        if k in idx:
            counts[idx[k]] += c
        else:
            outside += c
    return counts, probs, outside


def chi_ok(counts, probs):
    p, impossible = chi2_pvalue(counts, probs)
    return (not impossible) and p >= ALPHA


def aspects(case, io, mo):
    """dict aspect -> bool (True = implementation agrees with the model)"""
    k, d = case["kind"], case["data"]
    if not ok_impl(io):
        return {"ran": False}
    if k == "table":
        untouched, good, _ = table_checks(case, io, mo)
        return {"untouched": untouched, "dist": good}
    if k == "draw":
        return {"draws": io == mo[0]}
    if k == "det_perm":
        return {"aligned": io.get("aligned") is True}
    if k == "det":
        exp = [[q for _, q in ws] for _, ws in d[2]]
        return {"runs": res_equal(io["runs"], mo[2]), "weights": weights_close(io["built"], exp),
                "seeds": seeds_ok(io["built"], case.get("seed", 0))}
    if k == "u":
        return {"runs": res_equal(io["runs"], mo[2][0]), "weights": weights_close(io["built"], u_expected_weights(mo)),
                "seeds": seeds_ok(io["built"], case.get("seed", 0))}
    if k == "stat":
        if not mo[0] or len(io) != len(d[0]) or sum(io) != d[3]:
            return {"freq": False}
        return {"freq": chi_ok(io, [Fr(x) for x in mo[0][1]])}
    if k == "gstat":
        counts, probs, outside = dist_counts(io, [(e[1], Fr(e[2])) for e in mo[2]])
        return {"members": outside == 0, "freq": outside == 0 and sum(counts) == d[6] and chi_ok(counts, probs)}
    if k == "ugstat":
        counts, probs, outside = dist_counts(io["counts"], [(e[1], Fr(e[2])) for e in mo[0]])
        return {"members": outside == 0, "freq": outside == 0 and sum(counts) == d[5] and chi_ok(counts, probs)}
    if k == "seed":
        return {"equal": io.get("equal") is True and io.get("len") == d[4]}
    if k == "values":
        if d[0] == 0:
            return {"weights": close([Fr(x) for x in io["weights"]], [Fr(x) for x in mo[0]]), "values": io["values"] == mo[1]}
        if d[0] == 1:
            return {"lengths": io["lengths"] == mo[0], "weights": close([Fr(x) for x in io["weights"]], [Fr(x) for x in mo[1]]),
                    "result": io["result"] == mo[2]}
        return {"pick": io == mo}
    return {"kind": False}


def agree(case, impl_obs, model_obs):
    try:
        return all(aspects(case, impl_obs, model_obs).values())
    except (KeyError, TypeError, IndexError, ValueError, ZeroDivisionError):
        return False


def classify(case, io, mo):
    """Names a recorded defect only when every failing aspect is explained by
    the pinned model (exactly for the scripted legs, by the same chi-square test
    against the pinned model's distribution for the statistical ones)."""
    try:
        k, d = case["kind"], case["data"]
        if not ok_impl(io):
            return None
        bad = [a for a, v in aspects(case, io, mo).items() if not v]
        if k == "table":
            _, _, pinned = table_checks(case, io, mo)
            return "c09_fallback_raw_weights" if pinned else None
        if k == "draw":
            return "c09_fallback_fair_coin" if io == mo[1] else None
        if k == "u":
            name = None
            if "runs" in bad:
                order = io.get("int2start")
                perms = d[4]
                if order in perms and order != perms[0] and res_equal(io["runs"], mo[2][perms.index(order)]):
                    name = "c09_u_start_order"
                else:
                    return None
            if "seeds" in bad:
                if [s for _, s in io["built"]] == u_pinned_seeds(case):
                    name = name or "c09_u_shared_seeds"
                else:
                    return None
            return name if set(bad) <= {"runs", "seeds"} else None
        if k == "stat":
            if d[1] != "fallback" or not mo[0] or not mo[1] or len(io) != len(d[0]) or sum(io) != d[3]:
                return None
            if chi_ok(io, [Fr(x) for x in mo[0][2]]):
                return "c09_fallback_fair_coin"          # repaired table, fair coin
            if chi_ok(io, [Fr(x) for x in mo[1][2]]):
                return "c09_fallback_raw_weights"        # raw table, correct coin
            if chi_ok(io, [Fr(x) for x in mo[1][3]]):
                return "c09_fallback_raw_weights"        # raw table and fair coin
            return None
        if k == "gstat":
            if d[4] != "fallback":
                return None
            counts, probs, outside = dist_counts(io, [(e[0], Fr(e[1])) for e in mo[3]])
            if outside == 0 and sum(counts) == d[6] and chi_ok(counts, probs):
                return "c09_fallback_fair_coin"
            return None
        if k == "seed":
            # a deep copy rebuilds the set of start symbols: under the pinned index -> start map
            # (list(set)) the copy can decode the same stream of indices to other start symbols
            orders = io.get("orders")
            if d[0] == 2 and orders and orders[0] != orders[1] and io.get("same_after_reseeding") is True \
                    and io.get("len") == d[4]:
                return "c09_u_start_order"
            return None
        if k == "ugstat":
            order = io.get("int2start")
            perms = perms_of(len(d[2]))
            if "members" in bad or order not in perms:
                return None
            counts, probs, _ = dist_counts(io["counts"], [(e[1], Fr(e[2])) for e in mo[perms.index(order)]])
            if order != perms[0] and chi_ok(counts, probs):
                return "c09_u_start_order"
            seeds = io.get("seeds")
            tags = d[1]
            pinned = []
            for i, (_, ps) in enumerate(tags):
                pinned.append(d[4] + i)
                pinned += [d[4] + 7 * i for _ in ps]
            pinned.append(d[4] + len(tags))
            if seeds == pinned and len(set(seeds)) < len(seeds):
                return "c09_u_shared_seeds"
            return None
        return None
    except (KeyError, TypeError, IndexError, ValueError, ZeroDivisionError):
        return None


def nontrivial(case, mo):
    k = case["kind"]
    try:
        if k == "det_perm":
            return any(len(ws) > 1 for _, ws in case["data"][2])
        if k == "table":
            return bool(mo[0]) and any(Fr(p) < 1 for p in mo[0][0][0])
        if k == "draw":
            t_alias = case["data"][1]
            return len(set(mo[0])) > 1
        if k == "det":
            return mo[0] == 1 and mo[1] == 1 and any(r and r[0][0] == 0 and r[0][1][0] == 1 for r in mo[2])
        if k == "u":
            return mo[3] == 1 and any(r and r[0][0] == 0 and r[0][1][0] == 1 for r in mo[2][0])
        if k == "stat":
            return bool(mo[0]) and len(case["data"][0]) > 1
        if k == "gstat":
            return mo[0] == 1 and mo[1] == 1 and len(mo[2]) > 1
        if k == "ugstat":
            return len(mo[0]) > 1
        return True
    except (IndexError, TypeError):
        return False


def describe(case, mo):
    k, d = case["kind"], case["data"]
    if k == "det_perm":
        return {"kind": k, "non_terminals": len(d[1]), "what": "probability tables written in reverse rule order"}
    if k in ("table", "stat"):
        w = d if k == "table" else d[0]
        return {"kind": k, "weights": [float(Fr(x)) for x in w][:12],
                "model_distribution": [float(Fr(x)) for x in mo[0][1]] if mo and mo[0] else None,
                "backend": d[1] if k == "stat" else "fallback"}
    if k == "draw":
        return {"kind": k, "proba": [float(Fr(x)) for x in d[0]], "alias": d[1], "draws": len(d[2]), "model": mo[0][:12]}
    if k in ("det", "u"):
        runs = mo[2] if k == "det" else mo[2][0]
        shown = [[P.show_prog(r[1]) if r[0] == 0 else "error %d" % r[1] for r in run] for run in runs[:3]]
        return {"kind": k, "non_terminals": len(d[1]), "scripts": [s for _, s in d[-1][:3]], "model_programs": shown,
                "seed": case.get("seed", 0)}
    if k == "gstat":
        return {"kind": k, "backend": d[4], "programs": len(mo[2]), "draws": d[6]}
    if k == "ugstat":
        return {"kind": k, "backend": d[3], "programs": len(mo[0]), "draws": d[5]}
    return {"kind": k, "data": str(d)[:200]}


def shrink(case):
    k, d = case["kind"], case["data"]
    if k == "table" and len(d) > 1:
        for i in range(len(d)):
            yield {"kind": k, "data": d[:i] + d[i + 1:]}
    elif k == "draw" and len(d[2]) > 1:
        h = len(d[2]) // 2
        yield {"kind": k, "data": [d[0], d[1], d[2][:h]]}
        yield {"kind": k, "data": [d[0], d[1], d[2][h:]]}
        if len(d[2]) <= 8:
            for i in range(len(d[2])):
                yield {"kind": k, "data": [d[0], d[1], [d[2][i]]]}
    elif k in ("det", "u"):
        scripts = d[-1]
        if len(scripts) > 1:
            for i in range(len(scripts)):
                yield dict(case, data=d[:-1] + [[scripts[i]]])
        elif scripts and scripts[0][0] > 1:
            yield dict(case, data=d[:-1] + [[[scripts[0][0] - 1, scripts[0][1]]]])
        if case.get("seed"):
            yield dict(case, seed=0)


def theorem_for(case):
    k = case["kind"]
    if k in ("table", "stat"):
        return ("C09_alias_exact (draw_dist (build w) i == w_i / sum w); the statistical leg is a chi-square TEST of "
                "the implementation's frequencies against these exact probabilities")
    if k == "draw":
        return "C09_draw_measure (sample_1 as a function of (u1,u2); its preimages have area draw_dist)"
    if k in ("det", "gstat"):
        return "C09_members_only, C09_program_distribution, C09_deterministic (sample_program as a function of the choices)"
    if k in ("u", "ugstat"):
        return "correspondence with the executable model usample_program / ustart_dist (no theorem for unambiguous grammars)"
    if k == "seed":
        return "C09_deterministic (the sampled sequence is a function of the choice stream, hence of the seed)"
    return "value samplers: lexicon_weights / list_sample / union_pick (index -> value maps)"
