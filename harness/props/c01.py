"""C01: a depth-bounded grammar denotes exactly the well-typed programs of its DSL."""
import json
from lib import dsls as D
from lib import progs as P
from lib import semantics as S

ID = "C01"
IMPL_MODULE = "props.c01_impl"
HASHSEEDS = {"quick": [0, 1], "thorough": [0, 1, 2, 3, 4, 5]}
CASE_TIMEOUT = 60
RULE = ("random abstract DSLs of families F1-F6 (1-3 base types, arities 0-3, higher-order arguments, function-typed "
        "variables, uninhabited argument types, list types), random forbidden tables (zero-arity children included), type "
        "requests with 0-3 arguments, max_depth 1-4, min_variable_depth 0-2, n_gram 1-3, random constant-type sets; per "
        "grammar a candidate set of applicative terms from an independent brute-force enumerator that ignores forbidden "
        "patterns / variable depth / the depth bound by one, plus near-miss mutants (partial and over-applications, bare "
        "heads, swapped heads).  Observables: membership of every candidate in CFG.depth_constraint and in "
        "UCFG.depth_constraint, programs(), the (type, depth, symbol) set of grammar.rules, type_request, and for every "
        "member the derive_all position list (as (type, depth) pairs, end marker) and reduce_derivations with a collecting "
        "operator.  Non-trivial = candidate set contains both members and non-members and the language has >= 3 programs.  "
        "Second kind inf/<family>: the same DSL families (one third stratified so that the unbounded language is finite) "
        "compiled with CFG.depth_constraint(dsl, treq, -1, n_gram=, constant_types=) or CFG.infinite; candidates are typed "
        "terms up to depth 4 plus a sample up to depth 6, terms of other types and mutants; observables: membership, "
        "programs() (-1 iff the model's cleaned grammar has a cycle, else the count; skipped when the model's height "
        "certificate exceeds 5), the (type, 0, symbol) rule set, type_request, derive_all / reduce_derivations of every member.")
ASSUMPTIONS = ["types are ground, without sums: Python type equality coincides with structural equality there",
               "DSL primitives have pairwise distinct (name, type); programs have no empty application Function(P, [])",
               "n_gram < 2 cannot carry the parent: compared against the model with n_gram = 2 (known finding c01_ngram1_forbidden)"]


def base_ids(t, acc):
    if t[0] == 0:
        acc.add(t[1])
    elif t[0] == 1:
        base_ids(t[1], acc)
        base_ids(t[2], acc)
    else:
        acc.add(("g", t[1]))
        for x in t[2:]:
            base_ids(x, acc)
    return acc


def stratify(rng, dsl):
    """Drops the primitives that make the type graph cyclic (an argument type
    mentions a base of rank >= the rank of the returned base), so that the
    language without depth bound is finite."""
    order = list(D.BASES)
    rng.shuffle(order)
    rank = {b[1]: i for i, b in enumerate(order)}

    def rk(t):
        ids = base_ids(t, set())
        if any(isinstance(i, tuple) for i in ids):
            return None
        return max(rank[i] for i in ids)

    keep = []
    for n, t in dsl["prims"]:
        args, ret = D.arrow_parts(t)
        r = rk(ret)
        ra = [rk(a) for a in args]
        if r is None or any(x is None or x >= r for x in ra):
            continue
        keep.append([n, t])
    names = {n for n, _ in keep}
    rargs, rret = D.arrow_parts(dsl["request"])
    rargs = [a for a in rargs if a[0] == 0]
    tops = [t for _, t in keep if t[0] == 1]
    if tops and rng.random() < 0.8:
        rret = D.arrow_parts(rng.choice(tops))[1]
    forb = [[k, [x for x in v if x in names]] for k, v in dsl["forbidden"] if k[0] in names]
    return {"family": dsl["family"], "prims": keep, "forbidden": [f for f in forb if f[1]],
            "request": S.ARROW(*rargs, rret), "const_types": dsl["const_types"]}


def uniq_progs(cands):
    seen = set()
    uniq = []
    for c in cands:
        k = json.dumps(c)
        if k not in seen:
            seen.add(k)
            uniq.append(c)
    return uniq


def gen_inf(rng, tier, n):
    cases = []
    for i in range(n):
        dsl = D.gen_dsl(rng)
        if i % 3 == 2:
            dsl = stratify(rng, dsl)
        elif i % 11 == 5:
            # request a type without inhabitant when there is one (empty language)
            dsl = D.gen_dsl(rng, "F5")
            rargs, _ = D.arrow_parts(dsl["request"])
            used = []
            for _, t in dsl["prims"]:
                a, r = D.arrow_parts(t)
                used += [x for x in a + [r] if x[0] == 0 and x not in used]
            for dead in used:
                # is [dead] without inhabitant once it is neither a variable nor a constant type?
                alive = [t for t in dsl["const_types"] + rargs if t != dead]
                grew = True
                while grew:
                    grew = False
                    for _, t in dsl["prims"]:
                        a, r = D.arrow_parts(t)
                        if r not in alive and all(x in alive for x in a):
                            alive.append(r)
                            grew = True
                if dead not in alive:
                    dsl["request"] = S.ARROW(*[a for a in rargs if a != dead], dead)
                    dsl["const_types"] = [t for t in dsl["const_types"] if t != dead]
                    break
        n_gram = rng.choice([1, 2, 2, 2, 3])
        _, ret = D.arrow_parts(dsl["request"])
        cap = 80 if tier == "quick" else 150
        cands = D.terms(dsl, ret, 4, rng, cap)
        cands += D.terms(dsl, ret, 6, rng, 30)            # deeper than any bound used by the bounded cases
        for b in D.BASES[:2]:
            if b != ret:
                cands += D.terms(dsl, b, 2, rng, 6)
        cands += D.mutants(rng, cands, dsl, 25)
        how = rng.choice([-1, -1, -2])                    # through depth_constraint(-1) or CFG.infinite
        params = [dsl["prims"], dsl["forbidden"], dsl["request"], how, 0, n_gram, dsl["const_types"]]
        cases.append({"kind": "inf/" + dsl["family"], "data": [params, uniq_progs(cands)]})
    return cases


def is_inf(case):
    return case["kind"].startswith("inf/")


def gen(rng, tier):
    n = 70 if tier == "quick" else 1200
    cases = gen_inf(random_child(rng), tier, 45 if tier == "quick" else 800)
    n_deep = 14 if tier == "quick" else 200
    for i in range(n + n_deep):
        dsl = D.gen_dsl(rng)
        max_depth = rng.choice([1, 2, 2, 3, 3, 3, 4])
        min_var = rng.choice([0, 1, 1, 1, 2])
        n_gram = rng.choice([1, 2, 2, 2, 3])
        if i >= n:
            # long contexts: forbidden patterns must be looked up with the direct parent at every nesting level
            for _ in range(30):
                if dsl["forbidden"]:
                    break
                dsl = D.gen_dsl(rng)
            max_depth, n_gram, min_var = 4, 3, rng.choice([0, 1])
        _, ret = D.arrow_parts(dsl["request"])
        cap = 120 if tier == "quick" else 200
        cands = D.terms(dsl, ret, max_depth + 1, rng, cap)
        # also terms of other types (ill-typed at the root)
        for b in D.BASES[:2]:
            if b != ret:
                cands += D.terms(dsl, b, min(max_depth, 2), rng, 6)
        cands += D.mutants(rng, cands, dsl, 25)
        seen = set()
        uniq = []
        for c in cands:
            k = json.dumps(c)
            if k not in seen:
                seen.add(k)
                uniq.append(c)
        params = [dsl["prims"], dsl["forbidden"], dsl["request"], max_depth, min_var, n_gram, dsl["const_types"]]
        cases.append({"kind": dsl["family"], "data": [params, uniq]})
    return cases


def random_child(rng):
    import random
    return random.Random(rng.getrandbits(64))


def effective(case):
    """The case sent to the model: n_gram < 2 is given the context the property needs."""
    params, progs = case["data"]
    p = list(params)
    p[5] = max(2, p[5])
    if is_inf(case):
        p[3] = 0          # the unbounded model does not read max_depth / min_var
        p[4] = 0
    return [p, progs]


def to_model(case):
    return (2 if is_inf(case) else 1, effective(case))


SKIP = "not-computed"


def model_obs(case, raw):
    if is_inf(case):
        if len(raw) != 6:
            return {"model_error": raw}
        empty, bits, count, triples, derivs, pinned = raw
        # [] = the cleaned grammar has a cycle (the code answers -1); [n]; [-2] = finite, not computed
        c = -1 if count == [] else (SKIP if count == [-2] else count[0])
        return {"in": bits, "count": c, "rules": sorted(set(json.dumps(t) for t in triples)),
                "treq": case["data"][0][2], "derivs": derivs, "empty": empty,
                "count_pinned": pinned[0] if pinned else -1}
    bits, count, triples, derivs = raw
    return {"in": bits, "in_u": bits, "count": count, "count_u": count,
            "rules": sorted(set(json.dumps(t) for t in triples)), "treq": case["data"][0][2], "derivs": derivs}


def agree(case, io, mo):
    if not isinstance(io, dict) or "in" not in io or "model_error" in mo:
        return False
    io = dict(io)
    io["rules"] = sorted(set(json.dumps(t) for t in io["rules"]))
    mo = dict(mo)
    mo.pop("empty", None)
    mo.pop("count_pinned", None)
    if mo["count"] == SKIP:
        mo.pop("count")
        io.pop("count", None)
    return io == mo


def nontrivial(case, mo):
    if "model_error" in mo:
        return False
    if is_inf(case):
        return 0 < sum(mo["in"]) < len(mo["in"])
    return 0 < sum(mo["in"]) < len(mo["in"]) and mo["count"] >= 3


def describe(case, mo):
    params, progs = case["data"]
    return {"family": case["kind"],
            "dsl": {S.prim_name(n): show_ty(t) for n, t in params[0]},
            "forbidden": [[S.prim_name(k[0]), k[1], [S.prim_name(x) for x in v]] for k, v in params[1]],
            "request": show_ty(params[2]),
            "max_depth": {-1: "depth_constraint(-1)", -2: "CFG.infinite"}.get(params[3], params[3]),
            "min_variable_depth": params[4],
            "n_gram": params[5], "constant_types": [show_ty(t) for t in params[6]],
            "candidates": [[P.show_prog(p), b] for p, b in list(zip(progs, mo["in"]))[:12]],
            "programs()": mo["count"]}


def show_ty(t):
    if t[0] == 0:
        return S.TYPE_NAMES.get(t[1], "t%d" % t[1])
    if t[0] == 1:
        return "(%s -> %s)" % (show_ty(t[1]), show_ty(t[2]))
    if t[0] == 2:
        return " ".join(show_ty(x) for x in t[2:]) + " " + S.TYPE_NAMES.get(t[1], "t%d" % t[1])
    return str(t)


def shrink(case):
    params, progs = case["data"]
    k = case["kind"]
    if len(progs) > 1:
        h = len(progs) // 2
        yield {"kind": k, "data": [params, progs[:h]]}
        yield {"kind": k, "data": [params, progs[h:]]}
        if len(progs) <= 8:
            for i in range(len(progs)):
                yield {"kind": k, "data": [params, progs[:i] + progs[i + 1:]]}
    used = set()
    for p in progs:
        for q in P.subprogs(p):
            s = q[1]
            if s[0] == 0:
                used.add(s[1])
    # drop primitives not used by the candidates, then any primitive
    prims = params[0]
    for i in range(len(prims)):
        if prims[i][0] not in used or len(progs) <= 3:
            np_ = prims[:i] + prims[i + 1:]
            forb = [[kk, [x for x in v if x != prims[i][0]]] for kk, v in params[1] if kk[0] != prims[i][0]]
            keep = [p for p in progs if all(q[1][0] != 0 or q[1][1] != prims[i][0] for q in P.subprogs(p))]
            if keep:
                yield {"kind": k, "data": [[np_, forb] + params[2:], keep]}
    for i in range(len(params[1])):
        yield {"kind": k, "data": [[params[0], params[1][:i] + params[1][i + 1:]] + params[2:], progs]}
    if params[3] > 1 and not is_inf(case):
        yield {"kind": k, "data": [params[:3] + [params[3] - 1] + params[4:], progs]}
    if params[6]:
        yield {"kind": k, "data": [params[:6] + [[]], progs]}


def classify(case, io, mo):
    params, progs = case["data"]
    if "model_error" in mo:
        return None
    if mo["count"] == 0 and isinstance(io, dict) and str(io.get("crash", "")).startswith("KeyError"):
        return "c01_empty_language_raises"
    if (is_inf(case) and isinstance(io, dict) and "in" in io and isinstance(mo["count"], int) and mo["count"] >= 0
            and io.get("count") == -1 and mo["count_pinned"] == -1):
        # finite language reported as recursive: everything else must agree
        mo2 = dict(mo)
        mo2["count"] = -1
        if agree(case, io, mo2):
            return "c01_inf_programs_reports_recursive"
    if params[5] < 2 and params[1] and isinstance(io, dict) and "in" in io:
        # the recorded defect explains the disagreement iff the implementation
        # behaves exactly like the model without any forbidden pattern
        from lib import core
        pinned = [[params[0], []] + (params[2:5] if not is_inf(case) else [params[2], 0, 0]) + [2] + params[6:], progs]
        raw = core.run_model(ID, [(2 if is_inf(case) else 1, pinned)])[0]
        if agree(case, io, model_obs(case, raw)):
            return "c01_ngram1_forbidden"
    return None


def theorem_for(case):
    if is_inf(case):
        return ("C01_recursive_language (contains_inf P p = wt_inf P (returns (request P)) None p), C01_recursive_clean, "
                "C01_recursive_count, C01_recursive_rules_useful, C01_derive_all, C01_reduce_derivations")
    return "C01_language (contains P p = wt P (returns (request P)) None 0 p), C01_count, C01_count_members, C01_rules_useful, C01_derive_all, C01_reduce_derivations"
