"""C01: a depth-bounded grammar denotes exactly the well-typed programs of its DSL."""
import json
from lib import dsls as D
from lib import progs as P
from lib import semantics as S

ID = "C01"
IMPL_MODULE = "props.c01_impl"
HASHSEEDS = {"quick": [0, 1], "thorough": [0, 1, 2, 3, 4, 5]}
CASE_TIMEOUT = 60
RULE = ("random abstract DSLs of families F1-F6 (1-3 base types, arities 0-3, higher-order arguments, function-typed "
        "variables, uninhabited argument types, list types), random forbidden tables (zero-arity children included), type "
        "requests with 0-3 arguments, max_depth 1-4, min_variable_depth 0-2, n_gram 1-3, random constant-type sets; per "
        "grammar a candidate set of applicative terms from an independent brute-force enumerator that ignores forbidden "
        "patterns / variable depth / the depth bound by one, plus near-miss mutants (partial and over-applications, bare "
        "heads, swapped heads).  Observables: membership of every candidate in CFG.depth_constraint and in "
        "UCFG.depth_constraint, programs(), the (type, depth, symbol) set of grammar.rules, type_request.  Non-trivial = "
        "candidate set contains both members and non-members and the language has >= 3 programs.")
ASSUMPTIONS = ["types are ground, without sums: Python type equality coincides with structural equality there",
               "DSL primitives have pairwise distinct (name, type); programs have no empty application Function(P, [])",
               "n_gram < 2 cannot carry the parent: compared against the model with n_gram = 2 (known finding c01_ngram1_forbidden)"]


def gen(rng, tier):
    n = 70 if tier == "quick" else 1200
    cases = []
    for _ in range(n):
        dsl = D.gen_dsl(rng)
        max_depth = rng.choice([1, 2, 2, 3, 3, 3, 4])
        min_var = rng.choice([0, 1, 1, 1, 2])
        n_gram = rng.choice([1, 2, 2, 2, 3])
        _, ret = D.arrow_parts(dsl["request"])
        cap = 120 if tier == "quick" else 200
        cands = D.terms(dsl, ret, max_depth + 1, rng, cap)
        # also terms of other types (ill-typed at the root)
        for b in D.BASES[:2]:
            if b != ret:
                cands += D.terms(dsl, b, min(max_depth, 2), rng, 6)
        cands += D.mutants(rng, cands, dsl, 25)
        seen = set()
        uniq = []
        for c in cands:
            k = json.dumps(c)
            if k not in seen:
                seen.add(k)
                uniq.append(c)
        params = [dsl["prims"], dsl["forbidden"], dsl["request"], max_depth, min_var, n_gram, dsl["const_types"]]
        cases.append({"kind": dsl["family"], "data": [params, uniq]})
    return cases


def effective(case):
    """The case sent to the model: n_gram < 2 is given the context the property needs."""
    params, progs = case["data"]
    p = list(params)
    p[5] = max(2, p[5])
    return [p, progs]


def to_model(case):
    return (1, effective(case))


def model_obs(case, raw):
    bits, count, triples = raw
    return {"in": bits, "in_u": bits, "count": count, "count_u": count,
            "rules": sorted(set(json.dumps(t) for t in triples)), "treq": case["data"][0][2]}


def agree(case, io, mo):
    if not isinstance(io, dict) or "in" not in io:
        return False
    io = dict(io)
    io["rules"] = sorted(set(json.dumps(t) for t in io["rules"]))
    return io == mo


def nontrivial(case, mo):
    return 0 < sum(mo["in"]) < len(mo["in"]) and mo["count"] >= 3


def describe(case, mo):
    params, progs = case["data"]
    return {"family": case["kind"],
            "dsl": {S.prim_name(n): show_ty(t) for n, t in params[0]},
            "forbidden": [[S.prim_name(k[0]), k[1], [S.prim_name(x) for x in v]] for k, v in params[1]],
            "request": show_ty(params[2]), "max_depth": params[3], "min_variable_depth": params[4],
            "n_gram": params[5], "constant_types": [show_ty(t) for t in params[6]],
            "candidates": [[P.show_prog(p), b] for p, b in list(zip(progs, mo["in"]))[:12]],
            "programs()": mo["count"]}


def show_ty(t):
    if t[0] == 0:
        return S.TYPE_NAMES.get(t[1], "t%d" % t[1])
    if t[0] == 1:
        return "(%s -> %s)" % (show_ty(t[1]), show_ty(t[2]))
    if t[0] == 2:
        return " ".join(show_ty(x) for x in t[2:]) + " " + S.TYPE_NAMES.get(t[1], "t%d" % t[1])
    return str(t)


def shrink(case):
    params, progs = case["data"]
    k = case["kind"]
    if len(progs) > 1:
        h = len(progs) // 2
        yield {"kind": k, "data": [params, progs[:h]]}
        yield {"kind": k, "data": [params, progs[h:]]}
        if len(progs) <= 8:
            for i in range(len(progs)):
                yield {"kind": k, "data": [params, progs[:i] + progs[i + 1:]]}
    used = set()
    for p in progs:
        for q in P.subprogs(p):
            s = q[1]
            if s[0] == 0:
                used.add(s[1])
    # drop primitives not used by the candidates, then any primitive
    prims = params[0]
    for i in range(len(prims)):
        if prims[i][0] not in used or len(progs) <= 3:
            np_ = prims[:i] + prims[i + 1:]
            forb = [[kk, [x for x in v if x != prims[i][0]]] for kk, v in params[1] if kk[0] != prims[i][0]]
            keep = [p for p in progs if all(q[1][0] != 0 or q[1][1] != prims[i][0] for q in P.subprogs(p))]
            if keep:
                yield {"kind": k, "data": [[np_, forb] + params[2:], keep]}
    for i in range(len(params[1])):
        yield {"kind": k, "data": [[params[0], params[1][:i] + params[1][i + 1:]] + params[2:], progs]}
    if params[3] > 1:
        yield {"kind": k, "data": [params[:3] + [params[3] - 1] + params[4:], progs]}
    if params[6]:
        yield {"kind": k, "data": [params[:6] + [[]], progs]}


def classify(case, io, mo):
    params, progs = case["data"]
    if mo["count"] == 0 and isinstance(io, dict) and str(io.get("crash", "")).startswith("KeyError"):
        return "c01_empty_language_raises"
    if params[5] < 2 and params[1] and isinstance(io, dict) and "in" in io:
        # the recorded defect explains the disagreement iff the implementation
        # behaves exactly like the model without any forbidden pattern
        from lib import core
        pinned = [[params[0], []] + params[2:5] + [2] + params[6:], progs]
        raw = core.run_model(ID, [(1, pinned)])[0]
        if agree(case, io, model_obs(case, raw)):
            return "c01_ngram1_forbidden"
    return None


def theorem_for(case):
    return "C01_language (contains P p = wt P (returns (request P)) None 0 p), C01_count, C01_count_members, C01_rules_useful"
