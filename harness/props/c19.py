"""C19: prediction layers turn any tensor into a normalised, consistent grammar.

Discrete part (layout of the layer, encoder, derivations, membership): compared
exactly with the extracted Coq model (NN/Encode.v).  Numeric part: the closed
forms proved over the reals in NN/PredictProofs.v (C19_closed_form,
C19_normalised, C19_variable_mass, C19_logprob...) are evaluated here in
60-digit decimal arithmetic from the model's discrete answer and compared with
the implementation's float32/float64 results within a stated bound."""
import json
import math
import os
import struct
from decimal import Decimal, getcontext

from lib import dsls as D
from lib import progs as P
from lib import semantics as S

getcontext().prec = 60

ID = "C19"
IMPL_MODULE = "props.c19_impl"
HASHSEEDS = {"quick": [0, 1], "thorough": [0, 1, 2, 3]}
CASE_TIMEOUT = 60
EPS = Decimal(1) / Decimal(10 ** 7)
UNDERFLOW_GAP = 746        # exp(-745.14) is the last float64 exp() that does not round to 0
TINY = 1e-280

RULE = ("layers (DetGrammarPredictorLayer on CFG.depth_constraint, UGrammarPredictorLayer on UCFG.depth_constraint) over "
        "1-3 grammars of one random abstract DSL (families F1-F6 of lib/dsls.py: 1-3 base types, arities 0-3, higher-order "
        "arguments, function-typed variables, list types, forbidden patterns) with distinct type requests sharing "
        "abstractions, max_depth 2-3 (4 in the thorough tier), min_variable_depth 0-2, n_gram 1-3, random constant types; "
        "abstraction in {primitive_presence, cfg_bigram_without_depth, ttcfg_bigram, ucfg_bigram, identity}; variable "
        "probability in {0.05, 0.2, 0.9}; total_variable_order on/off; per layer one case per tensor: standard normal, "
        "normal x5, all-equal, +-50, +-500, uniform [-100,100], one dominant entry (+50, +500), dominant entry on a rule that "
        "is NOT derivable at some non-terminal of its slice (+50, +500 over a normal background; +500 over a -500 "
        "background); start entries of U layers: normal, +-50, +-500, +-800.  Observables: layout (keys, primitives per key, contiguous slices, sizes, forward size), "
        "non-terminals with their abstraction and rules, type request, every converted weight against the closed form, "
        "sum, positivity, variable+constant mass, the multiset of variable/constant weights at 4e-8 absolute (epsilon "
        "trick), start probabilities, membership, encode(p), exp(log_probability(p)) against probability(p) and against "
        "the product of closed forms, for up to 25 candidate programs per grammar.  Non-trivial = at least two "
        "abstraction keys or a non-terminal with variables, and at least one candidate program in the grammar.")
ASSUMPTIONS = [
    "the theorems are over exact reals; float32 (torch) / float64 (numpy) rounding is measured by this check, not proved: "
    "relative tolerance per weight 1e-4 + 3 float32 ulps of the largest |log-softmax| value of the slice",
    "a weight whose exact value is below 1e-280 is only required to be >= 0 and <= 1e-280 (not representable as a positive float64 product)",
    "U layers are exercised on UCFG.depth_constraint grammars (one alternative per rule, one start symbol); the real-number "
    "model covers several alternatives (one logit entry per alternative) but the correspondence does not drive them",
    "grammars of one layer have pairwise distinct type requests (the layer indexes grammars by type request); a UCFG reports "
    "the request rebuilt from the variables that occur in it (unused arguments dropped): U layers are addressed with that "
    "reported request and configurations where two of them coincide are not generated",
    "tensor entries are float32 values of magnitude <= 500 (start entries <= 800)",
    "n_gram < 2 is only used without forbidden patterns (known finding c01_ngram1_forbidden of C01)",
    "types are ground, without sums; DSL primitives have pairwise distinct names",
]


# ----------------------------------------------------------------------------
# helpers
# ----------------------------------------------------------------------------
def f32(x):
    return struct.unpack("f", struct.pack("f", x))[0]


def jkey(x):
    return json.dumps(x)


def parse_model(raw):
    slices, out_size, start_keys, u_size, gs = raw
    mo = {"slices": [[s[0], s[1], s[2], s[3]] for s in slices], "out_size": out_size,
          "start_keys": start_keys, "u_size": u_size, "grammars": []}
    for g in gs:
        start, skey, sidx, nts, progs = g
        G = {"start": start, "start_key": skey, "start_index": sidx,
             "nts": [{"nt": n[0], "key": n[1], "rules": n[2]} for n in nts], "progs": []}
        for p in progs:
            if not p:
                G["progs"].append(None)
            elif p == [-3]:
                G["progs"].append({"error": "model: member without derivation"})
            else:
                G["progs"].append({"marks": sorted(set(p[0])), "deriv": p[1]})
        mo["grammars"].append(G)
    return mo


def tensor_tables(case):
    pv = {jkey([k, p]): v for k, p, v in case["tensor"]["pairs"]}
    sv = {jkey(k): v for k, v in case["tensor"]["starts"]}
    return pv, sv


def closed_forms(case, mo):
    """Adds to the parsed model answer the closed forms of C19_closed_form etc.,
    evaluated in decimal arithmetic with the tensor of the case."""
    pv, sv = tensor_tables(case)
    v = Decimal(repr(case["v"]))
    tvo = bool(case["tvo"])
    isu = bool(case["u"])
    eps = EPS if tvo else Decimal(0)
    slice_vals = {}
    for key, st, ln, prims in mo["slices"]:
        slice_vals[jkey(key)] = [Decimal(pv.get(jkey([key, p]), 0.0)) for p in prims]
    lse = {}
    for k, vals in slice_vals.items():
        if vals:
            m = max(vals)
            lse[k] = m + sum((x - m).exp() for x in vals).ln()
    for G in mo["grammars"]:
        for N in G["nts"]:
            kk = jkey(N["key"])
            xs = []       # logits of the derivable primitive rules, None for variables / constants
            nv = nc = 0
            for sym, idx in N["rules"]:
                if sym[0] == 0:
                    xs.append(Decimal(pv.get(jkey([N["key"], sym]), 0.0)))
                else:
                    xs.append(None)
                    if sym[0] == 1:
                        nv += 1
                    else:
                        nc += 1
            prim = [x for x in xs if x is not None]
            has_vc = nv + nc > 0
            if prim:
                pmass = (1 - v) if has_vc else Decimal(1)
                vmass = v if has_vc else Decimal(0)
                m = max(prim)
                es = [(x - m).exp() for x in prim]
                X = sum(es)
                gap = lse[kk] - m
                mag = max(abs(x - lse[kk]) for x in slice_vals[kk])
            else:
                pmass, vmass = Decimal(0), Decimal(1)
                gap = Decimal(0)
                mag = Decimal(0)
            p0 = vmass / (nv + nc) if has_vc else Decimal(0)
            delta = eps * (Decimal(nv * (nv - 1)) / 2 + nv * nc) if has_vc else Decimal(0)
            norm = (1 - delta) if isu else Decimal(1)
            ws = []
            pi = 0
            for x in xs:
                if x is not None:
                    ws.append(pmass * es[pi] / X / norm)
                    pi += 1
                else:
                    ws.append(None)
            vc = [(p0 - k * eps) / norm for k in range(nv)] + [(p0 - nv * eps) / norm] * nc
            N["w"] = [float(w) if w is not None else None for w in ws]
            N["vc"] = sorted(float(w) for w in vc)              # multiset of variable/constant weights
            N["nv"], N["nc"], N["nprim"] = nv, nc, len(prim)
            N["sum"] = float((1 - delta) / norm)
            N["mass_vc"] = float((vmass - delta) / norm)
            N["delta"] = float(delta)
            N["gap"] = float(gap)
            N["tol"] = 1e-4 + 3 * 2.0 ** -23 * float(mag)
            N["_wdec"] = ws
            N["_vcmin"] = (p0 - nv * eps) / norm if has_vc else None
            N["_p0"] = p0 / norm
            N["_norm"] = norm
        # programs: product of the weights along the derivation
        for pr in G["progs"]:
            if not pr or "deriv" not in pr:
                continue
            pconv = Decimal(1)
            punn = Decimal(1)
            tol = 0.0
            ok = True
            visited = []
            for ni, ri in pr["deriv"]:
                if ni < 0 or ri < 0:
                    ok = False
                    break
                N = G["nts"][ni]
                visited.append(ni)
                w = N["_wdec"][ri]
                if w is None:
                    # a variable or a constant: any of them lies within nv*eps of p0; use p0 and widen the tolerance
                    w = N["_p0"]
                    tol += float((N["nv"] + 1) * EPS / w) if w > 0 else 0.0
                pconv *= w
                punn *= w * N["_norm"]
                tol += N["tol"]
            pr["visited"] = visited
            if ok:
                pr["prob"] = float(pconv)
                pr["exp_logp"] = float(punn)
                lnp = abs(float(punn.ln())) if punn > 0 else 0.0
                pr["tol"] = tol + len(visited) * 2.0 ** -22 * lnp + 1e-6
        # one start symbol per grammar (CFG, UCFG.from_CFG): its probability is exp(z) / exp(z) = 1
        G["start_probs"] = [1.0]
    for G in mo["grammars"]:
        for N in G["nts"]:
            for k in ("_wdec", "_vcmin", "_p0", "_norm"):
                N.pop(k, None)
    return mo


# ----------------------------------------------------------------------------
# generation
# ----------------------------------------------------------------------------
def base_types(dsl):
    seen = []

    def go(t):
        if t[0] == 0:
            if t not in seen:
                seen.append(t)
        elif t[0] == 1:
            go(t[1])
            go(t[2])
        elif t[0] == 2:
            for x in t[2:]:
                go(x)
    for _, t in dsl["prims"]:
        go(t)
    return seen


def gen_request(rng, dsl):
    bases = base_types(dsl)
    inhabited = [t for _, t in dsl["prims"] if t[0] != 1]
    if not inhabited:
        inhabited = bases
    args = []
    for _ in range(rng.randint(0, 3)):
        r = rng.random()
        if r < 0.2:
            args.append(S.ARROW(rng.choice(bases), rng.choice(bases)))
        else:
            args.append(rng.choice(bases))
    return S.ARROW(*args, rng.choice(inhabited))


def gen_config(rng, tier):
    dsl = D.gen_dsl(rng)
    ng = rng.choice([1, 2, 2, 2, 3])
    forb = dsl["forbidden"] if ng >= 2 else []
    nreq = rng.choice([1, 2, 2, 3])
    reqs = [dsl["request"]]
    for _ in range(12):
        if len(reqs) >= nreq:
            break
        r = gen_request(rng, dsl)
        if r not in reqs:
            reqs.append(r)
    depths = [2, 3, 3] if tier == "quick" else [2, 3, 3, 3, 4]
    gparams = []
    progs = []
    for r in reqs:
        md = rng.choice(depths)
        mv = rng.choice([0, 1, 1, 1, 2])
        ct = [b for b in base_types(dsl) if rng.random() < 0.3]
        gparams.append([dsl["prims"], forb, r, md, mv, ng, ct])
        d2 = dict(dsl)
        d2["request"] = r
        d2["const_types"] = ct
        _, ret = D.arrow_parts(r)
        cands = D.terms(d2, ret, md, rng, 25)
        seen = set()
        uniq = []
        for c in cands:
            k = json.dumps(c)
            if k not in seen:
                seen.add(k)
                uniq.append(c)
        progs.append(uniq[:25])
    isu = rng.random() < 0.4
    absid = rng.choice([0, 1, 1, 1, 2])
    if absid == 0:
        absfun = "primitive_presence"
    elif absid == 2:
        absfun = "identity"
    elif isu:
        absfun = "ucfg_bigram"
    else:
        absfun = rng.choice(["cfg_bigram_without_depth", "ttcfg_bigram"])
    return {"kind": ("u-" if isu else "det-") + absfun, "data": [gparams, absid, progs], "u": 1 if isu else 0,
            "absfun": absfun, "v": rng.choice([0.05, 0.2, 0.9]), "tvo": rng.choice([0, 1, 1])}


TENSOR_KINDS = ["normal", "normal5", "equal", "pm50", "pm500", "uniform100", "dominant50", "dominant500",
                "nonderivable50", "nonderivable500", "nonderivable_pm500", "nonderivable_pm500"]


def non_derivable_choices(mo):
    """(key, primitive) pairs that are not derivable at some non-terminal (with at
    least one derivable primitive) having that key."""
    by_key = {jkey(s[0]): s[3] for s in mo["slices"]}
    out = []
    for G in mo["grammars"]:
        for N in G["nts"]:
            der = [jkey(sym) for sym, idx in N["rules"] if sym[0] == 0]
            if not der:
                continue
            for p in by_key[jkey(N["key"])]:
                if jkey(p) not in der:
                    out.append([N["key"], p])
    return out


def gen_tensor(rng, kind, mo):
    pairs = [[s[0], p] for s in mo["slices"] for p in s[3]]
    n = len(pairs)
    vals = [0.0] * n
    if kind == "normal":
        vals = [rng.gauss(0, 1) for _ in range(n)]
    elif kind == "normal5":
        vals = [5 * rng.gauss(0, 1) for _ in range(n)]
    elif kind == "equal":
        c = rng.choice([0.0, 3.5, -20.0, 88.0])
        vals = [c] * n
    elif kind == "pm50":
        vals = [rng.choice([-50.0, 50.0]) for _ in range(n)]
    elif kind == "pm500":
        vals = [rng.choice([-500.0, 500.0]) for _ in range(n)]
    elif kind == "uniform100":
        vals = [rng.uniform(-100, 100) for _ in range(n)]
    elif kind in ("dominant50", "dominant500"):
        vals = [rng.gauss(0, 1) for _ in range(n)]
        if n:
            vals[rng.randrange(n)] = 50.0 if kind == "dominant50" else 500.0
    else:
        nd = non_derivable_choices(mo)
        if kind == "nonderivable_pm500":
            vals = [-500.0] * n
            big = 500.0
        else:
            vals = [rng.gauss(0, 1) for _ in range(n)]
            big = 50.0 if kind == "nonderivable50" else 500.0
        if nd:
            tgt = jkey(rng.choice(nd))
            for i, pr in enumerate(pairs):
                if jkey(pr) == tgt:
                    vals[i] = big
        elif n:
            vals[rng.randrange(n)] = big
    starts = [[k, f32(rng.choice([rng.gauss(0, 1), rng.gauss(0, 1), 50.0, -50.0, 500.0, -500.0, 800.0, -800.0]))]
              for k in mo["start_keys"]]
    return {"pairs": [[pr[0], pr[1], f32(v)] for pr, v in zip(pairs, vals)], "starts": starts}


def guessed_request(G, request):
    """UGrammar._guess_type_request_: the request as rebuilt from the variables
    that occur in the grammar (arguments that are not used are dropped)."""
    _, ret = D.arrow_parts(request)
    vs = []
    for N in G["nts"]:
        for sym, _ in N["rules"]:
            if sym[0] == 1 and [sym[1], sym[2]] not in vs:
                vs.append([sym[1], sym[2]])
    t = ret
    n = len(vs)
    for i in range(n):
        j = n - i - 1
        for k, ty in vs:
            if k == j:
                t = [1, ty, t]
    return t


def in_domain(mo):
    """Every grammar of the layer is non-empty (CFG.depth_constraint raises on an
    empty language: finding c01_empty_language_raises of C01, not a C19 matter)."""
    return all(G["nts"] and all(N["rules"] for N in G["nts"]) for G in mo["grammars"])


def usable(case, mo):
    if case["u"]:
        # the U layer indexes its grammars by the guessed request: keep them distinct
        gs = [jkey(guessed_request(G, g[2])) for G, g in zip(mo["grammars"], case["data"][0])]
        if len(set(gs)) != len(gs):
            return False
    if not in_domain(mo):
        return False
    total = sum(len(G["nts"]) for G in mo["grammars"])
    return 0 < total <= 160 and mo["out_size"] <= 400


def gen(rng, tier):
    from lib import core
    if not os.path.isfile(os.path.join(core.VERIF, "build", ID, "driver")):
        return []
    nconf, kinds = (14, TENSOR_KINDS) if tier == "quick" else (110, TENSOR_KINDS * 2)
    cases = []
    tries = 0
    while len(cases) < nconf * len(kinds) and tries < nconf * 6:
        batch = [gen_config(rng, tier) for _ in range(nconf)]
        tries += nconf
        raws = core.run_model(ID, [(1, c["data"]) for c in batch])
        for c, raw in zip(batch, raws):
            if raw == [-1] or raw == [-2]:
                continue
            mo = parse_model(raw)
            if not usable(c, mo):
                continue
            for kind in kinds:
                cc = dict(c)
                cc["tkind"] = kind
                cc["tensor"] = gen_tensor(rng, kind, mo)
                cases.append(cc)
            if len(cases) >= nconf * len(kinds):
                break
    return cases


# ----------------------------------------------------------------------------
# protocol
# ----------------------------------------------------------------------------
def to_model(case):
    return (1, case["data"])


def model_obs(case, raw):
    return closed_forms(case, parse_model(raw))


def finite(x):
    return isinstance(x, (int, float)) and not math.isnan(x) and not math.isinf(x)


def close(a, b, tol):
    """a (implementation) against the exact value b."""
    if not finite(a):
        return False
    if b < TINY:
        return 0.0 <= a <= TINY
    return abs(a - b) <= tol * b


def compare(case, io, mo):
    """List of (kind, grammar index, item index, text).  Empty = agreement."""
    issues = []
    isu = bool(case["u"])
    if not in_domain(mo):
        return []          # outside the domain of the property (only reachable by shrinking)

    def bad(kind, gi, ii, text):
        issues.append((kind, gi, ii, text))

    if not isinstance(io, dict) or "layout" not in io:
        return [("crash", -1, -1, json.dumps(io)[:300])]
    # ---- layout ----
    exp_size = mo["u_size"] if isu else mo["out_size"]
    if io["out_size"] != exp_size or io["forward_size"] != exp_size:
        bad("layout", -1, -1, "output size %s / forward %s, expected %s" % (io["out_size"], io["forward_size"], exp_size))
    mkeys = {jkey(s[0]): sorted(jkey(p) for p in s[3]) for s in mo["slices"]}
    ikeys = {}
    for k, st, ln, d in io["layout"]:
        if jkey(k) in ikeys:
            bad("layout", -1, -1, "key listed twice " + jkey(k))
        ikeys[jkey(k)] = sorted(jkey(p) for p, _ in d)
        if ln != len(d) or sorted(i for _, i in d) != list(range(ln)):
            bad("layout", -1, -1, "slice of %s: length %s, local indices %s" % (jkey(k), ln, sorted(i for _, i in d)))
    if mkeys != ikeys:
        bad("layout", -1, -1, "abstraction keys / primitives per key differ")
    cur = 0
    for k, st, ln, d in sorted(io["layout"], key=lambda s: (s[1], s[2])):
        if st != cur:
            bad("layout", -1, -1, "slices are not contiguous at %s" % st)
        cur = st + ln
    if cur != mo["out_size"]:
        bad("layout", -1, -1, "slices cover %s entries, expected %s" % (cur, mo["out_size"]))
    if isu:
        if sorted(jkey(k) for k in io.get("start_abs", [])) != sorted(jkey(k) for k in mo["start_keys"]):
            bad("layout", -1, -1, "start abstractions differ")
    if any(i[0] == "layout" for i in issues):
        return issues
    index_of = {}
    for k, st, ln, d in io["layout"]:
        for p, i in d:
            index_of[st + i] = jkey([k, p])
    model_index = {}
    for k, st, ln, prims in mo["slices"]:
        for j, p in enumerate(prims):
            model_index[st + j] = jkey([k, p])
    # ---- grammars ----
    if len(io["grammars"]) != len(mo["grammars"]):
        return issues + [("crash", -1, -1, "number of grammars")]
    for gi, (go, G) in enumerate(zip(io["grammars"], mo["grammars"])):
        req = case["data"][0][gi][2]
        if isu:
            req = guessed_request(G, req)      # UGrammar rebuilds the request from the variables that occur
        if go.get("treq") != req:
            bad("layout", gi, -1, "type_request %s" % jkey(go.get("treq")))
        if "crash" in go or "nts" not in go:
            bad("crash", gi, -1, go.get("crash", "no answer"))
            continue
        inl = {jkey(n[0]): n for n in go["nts"]}
        if sorted(inl) != sorted(jkey(N["nt"]) for N in G["nts"]) or len(inl) != len(go["nts"]):
            bad("nts", gi, -1, "non-terminals differ")
            continue
        for ni, N in enumerate(G["nts"]):
            n = inl[jkey(N["nt"])]
            if n[1] != N["key"]:
                bad("nts", gi, ni, "abstraction of %s: %s" % (jkey(N["nt"]), jkey(n[1])))
                continue
            irules = {jkey(r[0]): r for r in n[2]}
            if sorted(irules) != sorted(jkey(r[0]) for r in N["rules"]) or len(irules) != len(n[2]):
                bad("nts", gi, ni, "rules of %s differ" % jkey(N["nt"]))
                continue
            if any(len(r[1]) != 1 for r in n[2]):
                bad("nts", gi, ni, "several alternatives")
                continue
            # numeric part
            ws = [irules[jkey(sym)][1][0] for sym, _ in N["rules"]]
            tol = N["tol"]
            msgs = []
            if not all(finite(w) for w in ws):
                msgs.append("non-finite weight")
            else:
                for (sym, _), w, c in zip(N["rules"], ws, N["w"]):
                    if c is None:
                        continue
                    if not close(w, c, tol):
                        msgs.append("weight of %s: %r, exact %r" % (jkey(sym), w, c))
                    if c >= TINY and not w > 0:
                        msgs.append("weight of %s not positive" % jkey(sym))
                vcw = sorted(w for (sym, _), w in zip(N["rules"], ws) if sym[0] != 0)
                for w, c in zip(vcw, N["vc"]):
                    if not w > 0:
                        msgs.append("variable/constant weight not positive")
                    if abs(w - c) > (4e-8 if not isu else 4e-8 + tol * c):
                        msgs.append("variable/constant weights %r, exact %r" % (vcw, N["vc"]))
                        break
                if abs(sum(ws) - N["sum"]) > tol:
                    msgs.append("sum %r, exact %r" % (sum(ws), N["sum"]))
                if N["nprim"] > 0 and N["nv"] + N["nc"] > 0 and abs(sum(vcw) - N["mass_vc"]) > tol:
                    msgs.append("variable+constant mass %r, exact %r" % (sum(vcw), N["mass_vc"]))
            if msgs:
                bad("weight", gi, ni, "%s: %s" % (jkey(N["nt"]), "; ".join(msgs[:3])))
        # start symbols
        st = go.get("starts", [])
        if [jkey(s[0]) for s in st] != [jkey(G["start"])] or not finite(st[0][1]) or abs(st[0][1] - 1.0) > 1e-6 \
                or not st[0][1] > 0:
            bad("starts", gi, -1, "start probabilities %s" % jkey(st)[:200])
        # programs
        if len(go["progs"]) != len(G["progs"]):
            bad("member", gi, -1, "number of program answers")
            continue
        for pi, (po, pm) in enumerate(zip(go["progs"], G["progs"])):
            if pm is None:
                if po[0] != 0:
                    bad("member", gi, pi, "program accepted, not in the grammar")
                continue
            if "error" in pm:
                bad("member", gi, pi, pm["error"])
                continue
            if po[0] == 0:
                bad("member", gi, pi, "program rejected, in the grammar")
                continue
            if po[0] == 2:
                bad("encode", gi, pi, "raised " + po[1])
                continue
            _, marks, enc_ok, lp, pr = po
            if not enc_ok:
                bad("encode", gi, pi, "encoding is not a 0/1 vector of the output size")
            imarks = sorted(index_of.get(i, "start-entry %d" % i) for i in marks)
            mmarks = sorted(model_index[i] for i in pm["marks"])
            if imarks != mmarks:
                bad("encode", gi, pi, "marked pairs %s, expected %s" % (imarks, mmarks))
            if "prob" not in pm:
                continue
            tol = pm["tol"]
            msgs = []
            if not finite(lp) or not finite(pr):
                msgs.append("non-finite log-probability %r / probability %r" % (lp, pr))
            else:
                e = math.exp(lp) if lp < 700 else float("inf")
                if not (abs(e - pr) <= tol * max(e, pr) or (e <= TINY and pr <= TINY)):
                    msgs.append("exp(log_probability) %r, probability %r" % (e, pr))
                if not close(pr, pm["prob"], tol):
                    msgs.append("probability %r, exact %r" % (pr, pm["prob"]))
                if not close(e, pm["exp_logp"], tol):
                    msgs.append("exp(log_probability) %r, exact %r" % (e, pm["exp_logp"]))
            if msgs:
                bad("logprob", gi, pi, "; ".join(msgs[:2]))
    return issues


def agree(case, io, mo):
    return not compare(case, io, mo)


def nontrivial(case, mo):
    keys = len(mo["slices"]) >= 2
    withvar = any(N["nv"] + N["nc"] > 0 for G in mo["grammars"] for N in G["nts"])
    member = any(p is not None for G in mo["grammars"] for p in G["progs"])
    return (keys or withvar) and member


def show_ty(t):
    if t[0] == 0:
        return S.TYPE_NAMES.get(t[1], "t%d" % t[1])
    if t[0] == 1:
        return "(%s -> %s)" % (show_ty(t[1]), show_ty(t[2]))
    if t[0] == 2:
        return " ".join(show_ty(x) for x in t[2:]) + " " + S.TYPE_NAMES.get(t[1], "t%d" % t[1])
    return str(t)


def show_sym(s):
    if s[0] == 0:
        return S.prim_name(s[1])
    if s[0] == 1:
        return "var%d" % s[1]
    return "<const>"


def show_key(k):
    if not k:
        return "None"
    if isinstance(k[1], int):
        return "(%s,%d)" % (show_sym(k[0]), k[1])
    return "nt" + jkey(k)


def describe(case, mo):
    gparams = case["data"][0]
    vals = [x[2] for x in case["tensor"]["pairs"]]
    d = {"layer": case["kind"], "variable_probability": case["v"], "total_variable_order": case["tvo"],
         "dsl": {S.prim_name(n): show_ty(t) for n, t in gparams[0][0]},
         "forbidden": [[S.prim_name(k[0]), k[1], [S.prim_name(x) for x in v]] for k, v in gparams[0][1]],
         "grammars": [{"request": show_ty(g[2]), "max_depth": g[3], "min_variable_depth": g[4], "n_gram": g[5],
                       "constant_types": [show_ty(t) for t in g[6]]} for g in gparams],
         "tensor_kind": case.get("tkind"), "tensor_min_max": [min(vals), max(vals)] if vals else [],
         "tensor": [[show_key(k), show_sym(p), v] for k, p, v in case["tensor"]["pairs"]][:40],
         "output_size": mo["u_size"] if case["u"] else mo["out_size"], "keys": [show_key(s[0]) for s in mo["slices"]][:20],
         "non_terminals": [len(G["nts"]) for G in mo["grammars"]],
         "programs": [[P.show_prog(p) for p in pl[:5]] for pl in case["data"][2]]}
    worst = None
    for G in mo["grammars"]:
        for N in G["nts"]:
            if worst is None or N["gap"] > worst["gap"]:
                worst = N
    if worst is not None:
        d["largest_gap_non_terminal"] = {"nt": jkey(worst["nt"]), "gap": worst["gap"],
                                         "rules": [show_sym(r[0]) for r in worst["rules"]], "exact_weights": worst["w"],
                                         "exact_variable_constant_weights": worst["vc"]}
    return d


# Every shrinking round costs one batch of implementation subprocesses (torch
# import): the whole run gets one wall-clock budget for minimisation, further
# disagreements are reported as they are.
SHRINK_BUDGET_S = 150
_SHRINK_T0 = [None]


def shrink(case):
    import itertools
    import time
    now = time.time()
    if _SHRINK_T0[0] is None:
        _SHRINK_T0[0] = now
    if now - _SHRINK_T0[0] > SHRINK_BUDGET_S:
        return
    yield from itertools.islice(_shrink(case), 24)


def _shrink(case):
    gparams, absid, progs = case["data"]

    def mk(gp, pr, tensor=None):
        c = dict(case)
        c["data"] = [gp, absid, pr]
        if tensor is not None:
            c["tensor"] = tensor
        return c
    # fewer grammars
    if len(gparams) > 1:
        for i in range(len(gparams)):
            yield mk(gparams[:i] + gparams[i + 1:], progs[:i] + progs[i + 1:])
    # fewer programs
    for i, pl in enumerate(progs):
        if len(pl) > 1:
            h = len(pl) // 2
            yield mk(gparams, progs[:i] + [pl[:h]] + progs[i + 1:])
            yield mk(gparams, progs[:i] + [pl[h:]] + progs[i + 1:])
        elif len(pl) == 1 and sum(len(x) for x in progs) > 1:
            yield mk(gparams, progs[:i] + [[]] + progs[i + 1:])
    # smaller depth
    for i, g in enumerate(gparams):
        if g[3] > 1:
            g2 = g[:3] + [g[3] - 1] + g[4:]
            yield mk(gparams[:i] + [g2] + gparams[i + 1:], progs)
        if g[6]:
            g2 = g[:6] + [[]]
            yield mk(gparams[:i] + [g2] + gparams[i + 1:], progs)
    # drop primitives (from every grammar: they share the DSL)
    prims = gparams[0][0]
    if len(prims) > 1:
        for i in range(len(prims)):
            np_ = prims[:i] + prims[i + 1:]
            n = prims[i][0]
            gp = []
            for g in gparams:
                forb = [[kk, [x for x in vv if x != n]] for kk, vv in g[1] if kk[0] != n]
                gp.append([np_, forb] + g[2:])
            pr = [[p for p in pl if all(q[1][0] != 0 or q[1][1] != n for q in P.subprogs(p))] for pl in progs]
            yield mk(gp, pr)
    # simpler tensor: drop the zero entries (0.0 is the default), zero half of the entries, or all small entries
    pairs = case["tensor"]["pairs"]
    if any(x[2] == 0.0 for x in pairs):
        yield mk(gparams, progs, {"pairs": [x for x in pairs if x[2] != 0.0], "starts": case["tensor"]["starts"]})
    nz = [i for i, x in enumerate(pairs) if x[2] != 0.0]
    if len(nz) > 1:
        h = len(nz) // 2
        for part in (nz[:h], nz[h:]):
            t = {"pairs": [[k, p, v] for i, (k, p, v) in enumerate(pairs) if i not in part],
                 "starts": case["tensor"]["starts"]}
            yield mk(gparams, progs, t)
    if any(0 < abs(x[2]) < 10 for x in pairs) and any(abs(x[2]) >= 10 for x in pairs):
        t = {"pairs": [[k, p, v] for k, p, v in pairs if abs(v) >= 10], "starts": case["tensor"]["starts"]}
        yield mk(gparams, progs, t)


# ----------------------------------------------------------------------------
# known finding: float64 underflow of exp(log-softmax) when the mass of a slice
# sits on rules that are not derivable at a non-terminal
# ----------------------------------------------------------------------------
def pinned_ok(case, N, rules_impl):
    """The behaviour of the unrepaired code at a non-terminal whose derivable
    rules all underflow: total = 0."""
    isu = bool(case["u"])
    ws = {jkey(r[0]): r[1][0] for r in rules_impl}
    nv, nc = N["nv"], N["nc"]
    prim = [ws[jkey(sym)] for sym, _ in N["rules"] if sym[0] == 0]
    vcw = sorted(ws[jkey(sym)] for sym, _ in N["rules"] if sym[0] != 0)
    if nv + nc == 0:
        if isu:      # log(1 / 0.0) = inf, exp(inf) / inf = nan
            return all(not finite(w) for w in prim)
        return all(w == 0.0 for w in prim)          # left un-normalised: exp(-large) = 0
    eps = 1e-7 if case["tvo"] else 0.0
    p0 = 1.0 / (nv + nc)
    exp_vc = sorted([p0 - k * eps for k in range(nv)] + [p0 - nv * eps] * nc)
    z = sum(exp_vc) if isu else 1.0
    return all(w == 0.0 for w in prim) and len(vcw) == len(exp_vc) and \
        all(abs(w - c / z) <= 1e-6 for w, c in zip(vcw, exp_vc))


def start_overflow(case, io, mo, gi):
    """exp() of the raw start entry overflows (or underflows to 0) in float64 and
    the implementation reports a non-finite start probability."""
    _, sv = tensor_tables(case)
    z = sv.get(jkey(mo["grammars"][gi]["start_key"]), 0.0)
    st = io["grammars"][gi].get("starts", [])
    return abs(z) > 709.0 and len(st) == 1 and not finite(st[0][1])


def classify(case, io, mo):
    """Name of the recorded defect that explains EVERY disagreement of the case, or None."""
    issues = compare(case, io, mo)
    if not issues:
        return None
    explained_nts = {}
    for gi, G in enumerate(mo["grammars"]):
        explained_nts[gi] = {ni for ni, N in enumerate(G["nts"]) if N["nprim"] > 0 and N["gap"] > UNDERFLOW_GAP}
    names = set()
    for kind, gi, ii, text in issues:
        if kind == "starts":
            if not (case["u"] and start_overflow(case, io, mo, gi)):
                return None
            names.add("c19_start_exp_overflow")
        elif kind == "weight":
            if ii not in explained_nts.get(gi, ()):
                return None
            N = mo["grammars"][gi]["nts"][ii]
            inl = {jkey(n[0]): n for n in io["grammars"][gi]["nts"]}
            if not pinned_ok(case, N, inl[jkey(N["nt"])][2]):
                return None
            names.add("c19_underflow_nonderivable_max")
        elif kind == "logprob":
            pm = mo["grammars"][gi]["progs"][ii]
            if not any(ni in explained_nts.get(gi, ()) for ni in pm.get("visited", [])):
                return None
            names.add("c19_underflow_nonderivable_max")
        else:
            return None
    return sorted(names)[-1]


def theorem_for(case):
    return ("discrete observables: C19_layout, C19_encode, C19_encode_vector, C19_start_entries (Run/C19.v runs the model "
            "these are about); numeric observables: C19_closed_form, C19_positive, C19_normalised, C19_variable_mass, "
            "C19_normalised_u, C19_start_normalised, C19_logprob, C19_logprob_u evaluated in 60-digit arithmetic "
            "(the float32 gap is measured, not proved)")
