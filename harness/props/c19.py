"""C19: prediction layers turn any tensor into a normalised, consistent grammar.

Discrete part (layout of the layer, encoder, derivations, membership): compared
exactly with the extracted Coq model (NN/Encode.v; NN/EncodeU.v for U layers on
unambiguous rule tables with several alternatives and start symbols).  Numeric part: the closed
forms proved over the reals in NN/PredictProofs.v (C19_closed_form,
C19_normalised, C19_variable_mass, C19_logprob...) are evaluated here in
60-digit decimal arithmetic from the model's discrete answer and compared with
the implementation's float32/float64 results within a stated bound."""
import json
import math
import os
import struct
from decimal import Decimal, getcontext

from lib import dsls as D
from lib import progs as P
from lib import semantics as S

getcontext().prec = 60

ID = "C19"
IMPL_MODULE = "props.c19_impl"
MODEL_AFTER_IMPL = True     # "udfta" cases: the model is run on the rule tables the implementation built
HASHSEEDS = {"quick": [0, 1], "thorough": [0, 1, 2, 3]}
CASE_TIMEOUT = 60
EPS = Decimal(1) / Decimal(10 ** 7)
UNDERFLOW_GAP = 746        # exp(-745.14) is the last float64 exp() that does not round to 0
TINY = 1e-280

RULE = ("(A) layers (DetGrammarPredictorLayer on CFG.depth_constraint, UGrammarPredictorLayer on UCFG.depth_constraint) over "
        "1-3 grammars of one random abstract DSL (families F1-F6 of lib/dsls.py: 1-3 base types, arities 0-3, higher-order "
        "arguments, function-typed variables, list types, forbidden patterns; one configuration in five has NO arity-0 primitive, so "
        "that the deepest non-terminals derive variables only) with distinct type requests sharing "
        "abstractions, max_depth 2-3 (4 in the thorough tier), min_variable_depth 0-2, n_gram 1-3, random constant types; "
        "abstraction in {primitive_presence, cfg_bigram_without_depth, ttcfg_bigram, ucfg_bigram, identity}.  "
        "(B) UGrammarPredictorLayer on unambiguous grammars with SEVERAL ALTERNATIVES per (non-terminal, primitive) and "
        "1-3 START SYMBOLS: (B1) hand-built UCFG(starts, rules, clean=True/False), 1-2 grammars per layer, whose tables are "
        "random trimmed acyclic deterministic bottom-up tree automata (1-2 types, 1-3 function letters of arity 1-3, 0-2 "
        "variables, sometimes a function-typed variable applied to 1-2 arguments (several alternatives of a VARIABLE), "
        "optional constant slot, 2-3 levels, typically 2-10 alternatives of one primitive at a non-terminal) written "
        "as rule tables with states int, (int, int), or (NGram(2), int) expanded top-down like from_DFTA_with_ngrams; "
        "abstraction in {primitive_presence, identity} and ucfg_bigram on the NGram states; (B2) UCFG.from_DFTA and "
        "UCFG.from_DFTA_with_ngrams(., 2) of add_dfta_constraints(CFG.depth_constraint(dsl, request, depth 2-3), [constraint]) "
        "for first-order random DSLs (F1, F2, F5) and a constraint '(f c _ ..)' as in C04, 1-2 type requests per layer: the "
        "model runs on the rule tables serialised by the implementation runner; corpus: the grammar S -> + | C0 V1 | V0 C1.  "
        "All: variable probability in {0.05, 0.2, 0.9}; total_variable_order on/off; per layer one case per tensor: "
        "standard normal, "
        "normal x5, all-equal, +-50, +-500, uniform [-100,100], one dominant entry (+50, +500), dominant entry on a rule that "
        "is NOT derivable at some non-terminal of its slice (+50, +500 over a normal background; +500 over a -500 "
        "background); start entries of U layers: normal, +-50, +-500, +-800.  Observables: layout (keys, primitives per key "
        "- one entry per primitive whatever the number of its alternatives -, contiguous slices, sizes, forward size), "
        "non-terminals with their abstraction and rules, type request, every converted weight of every (symbol, alternative) "
        "against the closed form (normaliser = one term per (primitive, alternative)), "
        "sum, positivity, variable+constant mass, the multiset of variable/constant weights at 4e-8 absolute (epsilon "
        "trick), start probabilities (softmax of the start entries over the grammar's start symbols), membership, encode(p), "
        "exp(log_probability(p)) against probability(p) and against "
        "the start probability times the product of closed forms along the derivation the model computes, and in (B) also "
        "log_probability(p, start) / probability(p, start) for the deriving start symbol, for up to 25 candidate programs "
        "per grammar.  Non-trivial = (A) at least two "
        "abstraction keys or a non-terminal with variables, (B) a symbol with >= 2 alternatives at some non-terminal or "
        ">= 2 start symbols; and at least one candidate program in the grammar.")
ASSUMPTIONS = [
    "the theorems are over exact reals; float32 (torch) / float64 (numpy) rounding is measured by this check, not proved: "
    "relative tolerance per weight 1e-4 + 3 float32 ulps of the largest |log-softmax| value of the slice",
    "a weight whose exact value is below 1e-280 is only required to be >= 0 and <= 1e-280 (not representable as a positive float64 product)",
    "U layers are driven on UCFG.depth_constraint grammars (one alternative per rule, one start symbol) and on unambiguous "
    "grammars with several alternatives per rule and several start symbols (hand-built UCFG tables; UCFG.from_DFTA / "
    "from_DFTA_with_ngrams of sharpened automata, whose tables are taken from the implementation: sharpening and the "
    "DFTA -> UCFG conversion themselves are the subject of C05 / C06, not of this check)",
    "grammars are unambiguous: a candidate program for which the model finds more than one derivation over all start "
    "symbols is skipped (hand-built tables are unambiguous by construction: deterministic bottom-up automata); all start "
    "symbols of a grammar have the same type",
    "variables and constants share the variable mass uniformly over their (symbol, alternative) entries: nv / nc of the "
    "real-number model count the tagged derivations of variables / constants (a function-typed variable can have several); "
    "the pinned tree divides by the number of symbols instead - known finding c19_variable_alternatives_mass, proposed fix C19b-2",
    "log_probability(p) is specified with the start symbol's log-probability included (as ProbUGrammar.probability "
    "includes its probability): the pinned tree leaves it out - known finding c19_logprob_ignores_start, proposed fix "
    "C19b-1; log_probability(p, start) / probability(p, start) are compared independently of that",
    "grammars of one layer have pairwise distinct type requests (the layer indexes grammars by type request); a UCFG reports "
    "the request rebuilt from the variables that occur in it (unused arguments dropped): U layers are addressed with that "
    "reported request and configurations where two of them coincide are not generated",
    "function-typed arguments with the same index have the same type in all the grammars of one layer (Variable equality "
    "ignores the type: the implementation merges their (variable, argument number) contexts into one abstraction key, a "
    "coarser abstraction than the one modelled; such configurations are not generated)",
    "tensor entries are float32 values of magnitude <= 500 (start entries <= 800)",
    "n_gram < 2 is only used without forbidden patterns (known finding c01_ngram1_forbidden of C01)",
    "types are ground, without sums; DSL primitives have pairwise distinct names",
]


# ----------------------------------------------------------------------------
# helpers
# ----------------------------------------------------------------------------
def f32(x):
    return struct.unpack("f", struct.pack("f", x))[0]


def jkey(x):
    return json.dumps(x)


def parse_model(raw):
    slices, out_size, start_keys, u_size, gs = raw
    mo = {"slices": [[s[0], s[1], s[2], s[3]] for s in slices], "out_size": out_size,
          "start_keys": start_keys, "u_size": u_size, "grammars": []}
    for g in gs:
        start, skey, sidx, nts, progs = g
        G = {"starts": [{"nt": start, "key": skey, "index": sidx}],
             "nts": [{"nt": n[0], "key": n[1], "rules": n[2]} for n in nts], "progs": []}
        for p in progs:
            if not p:
                G["progs"].append(None)
            elif p == [-3]:
                G["progs"].append({"error": "model: member without derivation"})
            else:
                G["progs"].append({"marks": sorted(set(p[0])), "deriv": p[1], "start": 0})
        mo["grammars"].append(G)
    return mo


def parse_model_multi(raw):
    """Answer of entry 2 (U layer on unambiguous rule tables): the rules of a
    non-terminal are its (symbol, alternative) entries [symbol, index, alternative]."""
    slices, out_size, start_keys, u_size, gs = raw
    mo = {"slices": [[s[0], s[1], s[2], s[3]] for s in slices], "out_size": out_size,
          "start_keys": start_keys, "u_size": u_size, "grammars": [], "multi": 1}
    for g in gs:
        starts, nts, progs = g
        G = {"starts": [{"nt": s_[0], "key": s_[1], "index": s_[2]} for s_ in starts],
             "nts": [{"nt": n[0], "key": n[1], "rules": n[2]} for n in nts], "progs": []}
        for p in progs:
            if not p:
                G["progs"].append(None)
            elif p[3] == -3:
                G["progs"].append({"error": "model: member without derivation"})
            elif p[0] != 1:
                G["progs"].append({"ambiguous": p[0]})      # outside the domain: the grammar is not unambiguous
            else:
                G["progs"].append({"marks": sorted(set(p[2])), "deriv": p[3], "start": p[1]})
        mo["grammars"].append(G)
    return mo


def is_multi(case):
    return bool(case.get("gk"))


def case_tensor(case, io=None):
    """The tensor of the case; for a recipe (the layout is only known to the
    implementation runner) the values the runner drew from the recipe's seed."""
    t = case["tensor"]
    if "recipe" in t:
        if isinstance(io, dict) and isinstance(io.get("tensor"), dict):
            return io["tensor"]
        return {"pairs": [], "starts": []}
    return t


def tensor_tables(case, tensor=None):
    tensor = tensor if tensor is not None else case_tensor(case)
    pv = {jkey([k, p]): v for k, p, v in tensor["pairs"]}
    sv = {jkey(k): v for k, v in tensor["starts"]}
    return pv, sv


def closed_forms(case, mo, tensor=None):
    """Adds to the parsed model answer the closed forms of C19_closed_form,
    C19_closed_form_alts, C19_start_softmax, C19_logprob_multi etc., evaluated
    in decimal arithmetic with the tensor of the case."""
    pv, sv = tensor_tables(case, tensor)
    mo["tensor"] = tensor if tensor is not None else case_tensor(case)
    v = Decimal(repr(case["v"]))
    tvo = bool(case["tvo"])
    isu = bool(case["u"])
    eps = EPS if tvo else Decimal(0)
    slice_vals = {}
    for key, st, ln, prims in mo["slices"]:
        slice_vals[jkey(key)] = [Decimal(pv.get(jkey([key, p]), 0.0)) for p in prims]
    lse = {}
    for k, vals in slice_vals.items():
        if vals:
            m = max(vals)
            lse[k] = m + sum((x - m).exp() for x in vals).ln()
    for G in mo["grammars"]:
        for N in G["nts"]:
            kk = jkey(N["key"])
            xs = []       # logits of the derivable primitive rules, None for variables / constants
            nv = nc = 0
            for r in N["rules"]:         # one entry per rule (entry 1) or per (rule, alternative) (entry 2)
                sym = r[0]
                if sym[0] == 0:
                    xs.append(Decimal(pv.get(jkey([N["key"], sym]), 0.0)))
                else:
                    xs.append(None)
                    if sym[0] == 1:
                        nv += 1
                    else:
                        nc += 1
            prim = [x for x in xs if x is not None]
            has_vc = nv + nc > 0
            if prim:
                pmass = (1 - v) if has_vc else Decimal(1)
                vmass = v if has_vc else Decimal(0)
                m = max(prim)
                es = [(x - m).exp() for x in prim]
                X = sum(es)
                gap = lse[kk] - m
                mag = max(abs(x - lse[kk]) for x in slice_vals[kk])
            else:
                pmass, vmass = Decimal(0), Decimal(1)
                gap = Decimal(0)
                mag = Decimal(0)
            p0 = vmass / (nv + nc) if has_vc else Decimal(0)
            delta = eps * (Decimal(nv * (nv - 1)) / 2 + nv * nc) if has_vc else Decimal(0)
            norm = (1 - delta) if isu else Decimal(1)
            ws = []
            pi = 0
            for x in xs:
                if x is not None:
                    ws.append(pmass * es[pi] / X / norm)
                    pi += 1
                else:
                    ws.append(None)
            vc = [(p0 - k * eps) / norm for k in range(nv)] + [(p0 - nv * eps) / norm] * nc
            N["w"] = [float(w) if w is not None else None for w in ws]
            N["vc"] = sorted(float(w) for w in vc)              # multiset of variable/constant weights
            N["nv"], N["nc"], N["nprim"] = nv, nc, len(prim)
            N["sum"] = float((1 - delta) / norm)
            N["mass_vc"] = float((vmass - delta) / norm)
            N["delta"] = float(delta)
            N["gap"] = float(gap)
            N["tol"] = 1e-4 + 3 * 2.0 ** -23 * float(mag)
            N["_wdec"] = ws
            N["_vcmin"] = (p0 - nv * eps) / norm if has_vc else None
            N["_p0"] = p0 / norm
            N["_norm"] = norm
            # The pinned tree divides the variable mass by the number of variable / constant SYMBOLS but tags every
            # (symbol, alternative) entry (known finding c19_variable_alternatives_mass): its weights, for the classifier
            nsym = len({jkey(r[0]) for r in N["rules"] if r[0][0] != 0})
            N["affected"] = 1 if (isu and nsym < nv + nc) else 0
            if N["affected"]:
                q0 = vmass / nsym
                vcu = [q0 - k * eps for k in range(nv)] + [q0 - nv * eps] * nc
                T = (pmass if prim else Decimal(0)) + sum(vcu)
                N["w_pin"] = [float(w * norm / T) if w is not None else None for w in ws]
                N["vc_pin"] = sorted(float(w / T) for w in vcu)
                N["_wpin"] = [w * norm / T if w is not None else None for w in ws]
                N["_q0"] = q0
                N["_T"] = T
        # start symbols: softmax of the start entries selected for the grammar (C19_start_softmax)
        zs = [Decimal(sv.get(jkey(s_["key"]), 0.0)) for s_ in G["starts"]]
        zm = max(zs)
        es0 = [(z - zm).exp() for z in zs]
        Zs = sum(es0)
        sprobs = [e / Zs for e in es0]
        G["start_probs"] = [float(x) for x in sprobs]
        smag = max(abs(z - zm - Zs.ln()) for z in zs)
        G["start_tol"] = 1e-4 + 3 * 2.0 ** -23 * float(smag)
        # programs: start probability times the product of the weights along the derivation
        for pr in G["progs"]:
            if not pr or "deriv" not in pr:
                continue
            pconv = Decimal(1)
            punn = Decimal(1)
            qconv = Decimal(1)      # the same products with the pinned weights of the affected non-terminals
            qunn = Decimal(1)
            tol = 0.0
            ok = True
            visited = []
            for ni, ri in pr["deriv"]:
                if ni < 0 or ri < 0:
                    ok = False
                    break
                N = G["nts"][ni]
                visited.append(ni)
                w = N["_wdec"][ri]
                if w is None:
                    # a variable or a constant: any of them lies within nv*eps of p0; use p0 and widen the tolerance
                    w = N["_p0"]
                    tol += float((N["nv"] + 1) * EPS / w) if w > 0 else 0.0
                pconv *= w
                punn *= w * N["_norm"]
                tol += N["tol"]
                if N.get("affected"):
                    wq = N["_wpin"][ri]
                    qconv *= wq if wq is not None else N["_q0"] / N["_T"]
                    qunn *= wq * N["_T"] if wq is not None else N["_q0"]
                else:
                    qconv *= w
                    qunn *= w * N["_norm"]
            pr["visited"] = visited
            if ok:
                sp = sprobs[pr["start"]]
                if any(G["nts"][ni].get("affected") for ni in visited):
                    pr["pinned"] = {"prob": float(sp * qconv), "exp_logp": float(sp * qunn), "prob_at": float(qconv),
                                    "exp_logp_at": float(qunn)}
                pr["prob"] = float(sp * pconv)                # probability(p)
                pr["exp_logp"] = float(sp * punn)             # exp(log_probability(p)), start tag included
                pr["prob_at"] = float(pconv)                  # probability(p, start)
                pr["exp_logp_at"] = float(punn)               # exp(log_probability(p, start))
                lnp = abs(float(punn.ln())) if punn > 0 else 0.0
                pr["tol_at"] = tol + len(visited) * 2.0 ** -22 * lnp + 1e-6
                lns = abs(float(sp.ln())) if sp > 0 else 0.0
                pr["tol"] = pr["tol_at"] + ((G["start_tol"] + 2.0 ** -22 * (lnp + lns)) if len(zs) > 1 else 0.0)
    for G in mo["grammars"]:
        for N in G["nts"]:
            for k in ("_wdec", "_vcmin", "_p0", "_norm", "_wpin", "_q0", "_T"):
                N.pop(k, None)
    return mo


# ----------------------------------------------------------------------------
# generation
# ----------------------------------------------------------------------------
def base_types(dsl):
    seen = []

    def go(t):
        if t[0] == 0:
            if t not in seen:
                seen.append(t)
        elif t[0] == 1:
            go(t[1])
            go(t[2])
        elif t[0] == 2:
            for x in t[2:]:
                go(x)
    for _, t in dsl["prims"]:
        go(t)
    return seen


def gen_request(rng, dsl):
    bases = base_types(dsl)
    inhabited = [t for _, t in dsl["prims"] if t[0] != 1]
    if not inhabited:
        inhabited = bases
    args = []
    for _ in range(rng.randint(0, 3)):
        r = rng.random()
        if r < 0.2:
            args.append(S.ARROW(rng.choice(bases), rng.choice(bases)))
        else:
            args.append(rng.choice(bases))
    return S.ARROW(*args, rng.choice(inhabited))


def gen_config(rng, tier, no_constants=False):
    dsl = D.gen_dsl(rng)
    ng = rng.choice([1, 2, 2, 2, 3])
    forb = dsl["forbidden"] if ng >= 2 else []
    nreq = rng.choice([1, 2, 2, 3])
    reqs = [dsl["request"]]
    if no_constants:
        # a DSL without arity-0 primitives: the deepest non-terminals derive variables only while they
        # share their abstraction with non-terminals that derive primitives
        dsl = D.gen_dsl(rng, rng.choice(["F1", "F2", "F2"]))
        funs = [p for p in dsl["prims"] if p[1][0] == 1]
        bases = base_types(dict(dsl, prims=funs))
        if funs and bases:
            dsl = dict(dsl, prims=funs, forbidden=[])
            forb = []
            reqs = [S.ARROW(*(bases + [rng.choice(bases)]), rng.choice(bases))]
            nreq = 1
    for _ in range(12):
        if len(reqs) >= nreq:
            break
        r = gen_request(rng, dsl)
        if r not in reqs:
            reqs.append(r)
    depths = [2, 3, 3] if tier == "quick" else [2, 3, 3, 3, 4]
    gparams = []
    progs = []
    for r in reqs:
        md = rng.choice(depths)
        mv = rng.choice([0, 1, 1, 1, 2])
        ct = [b for b in base_types(dsl) if rng.random() < 0.3]
        if no_constants:
            mv, ct, md = rng.choice([0, 1]), [], max(md, 3)
        gparams.append([dsl["prims"], forb, r, md, mv, ng, ct])
        d2 = dict(dsl)
        d2["request"] = r
        d2["const_types"] = ct
        _, ret = D.arrow_parts(r)
        cands = D.terms(d2, ret, md, rng, 25)
        seen = set()
        uniq = []
        for c in cands:
            k = json.dumps(c)
            if k not in seen:
                seen.add(k)
                uniq.append(c)
        progs.append(uniq[:25])
    isu = rng.random() < 0.4
    absid = rng.choice([0, 1, 1, 1, 2])
    if absid == 0:
        absfun = "primitive_presence"
    elif absid == 2:
        absfun = "identity"
    elif isu:
        absfun = "ucfg_bigram"
    else:
        absfun = rng.choice(["cfg_bigram_without_depth", "ttcfg_bigram"])
    return {"kind": ("u-" if isu else "det-") + absfun, "data": [gparams, absid, progs], "u": 1 if isu else 0,
            "absfun": absfun, "v": rng.choice([0.05, 0.2, 0.9]), "tvo": rng.choice([0, 1, 1])}


TENSOR_KINDS = ["normal", "normal5", "equal", "pm50", "pm500", "uniform100", "dominant50", "dominant500",
                "nonderivable50", "nonderivable500", "nonderivable_pm500", "nonderivable_pm500"]


def non_derivable_choices(mo):
    """(key, primitive) pairs that are not derivable at some non-terminal (with at
    least one derivable primitive) having that key."""
    by_key = {jkey(s[0]): s[3] for s in mo["slices"]}
    out = []
    for G in mo["grammars"]:
        for N in G["nts"]:
            der = [jkey(r[0]) for r in N["rules"] if r[0][0] == 0]
            if not der:
                continue
            for p in by_key[jkey(N["key"])]:
                if jkey(p) not in der:
                    out.append([N["key"], p])
    return out


def gen_tensor(rng, kind, mo):
    pairs = [[s[0], p] for s in mo["slices"] for p in s[3]]
    return gen_tensor_lists(rng, kind, pairs, non_derivable_choices(mo), mo["start_keys"])


def gen_tensor_lists(rng, kind, pairs, nd, start_keys):
    """pairs: the (key, primitive) pairs of the layer; nd: the pairs that are not
    derivable at some non-terminal of their slice; start_keys: the start
    abstractions.  Also called by the implementation runner for "recipe" tensors."""
    n = len(pairs)
    vals = [0.0] * n
    if kind == "normal":
        vals = [rng.gauss(0, 1) for _ in range(n)]
    elif kind == "normal5":
        vals = [5 * rng.gauss(0, 1) for _ in range(n)]
    elif kind == "equal":
        c = rng.choice([0.0, 3.5, -20.0, 88.0])
        vals = [c] * n
    elif kind == "pm50":
        vals = [rng.choice([-50.0, 50.0]) for _ in range(n)]
    elif kind == "pm500":
        vals = [rng.choice([-500.0, 500.0]) for _ in range(n)]
    elif kind == "uniform100":
        vals = [rng.uniform(-100, 100) for _ in range(n)]
    elif kind in ("dominant50", "dominant500"):
        vals = [rng.gauss(0, 1) for _ in range(n)]
        if n:
            vals[rng.randrange(n)] = 50.0 if kind == "dominant50" else 500.0
    else:
        if kind == "nonderivable_pm500":
            vals = [-500.0] * n
            big = 500.0
        else:
            vals = [rng.gauss(0, 1) for _ in range(n)]
            big = 50.0 if kind == "nonderivable50" else 500.0
        if nd:
            tgt = jkey(rng.choice(nd))
            for i, pr in enumerate(pairs):
                if jkey(pr) == tgt:
                    vals[i] = big
        elif n:
            vals[rng.randrange(n)] = big
    starts = [[k, f32(rng.choice([rng.gauss(0, 1), rng.gauss(0, 1), 50.0, -50.0, 500.0, -500.0, 800.0, -800.0]))]
              for k in start_keys]
    return {"pairs": [[pr[0], pr[1], f32(v)] for pr, v in zip(pairs, vals)], "starts": starts}


def guessed_request(G, request):
    """UGrammar._guess_type_request_: the request as rebuilt from the variables
    that occur in the grammar (arguments that are not used are dropped)."""
    _, ret = D.arrow_parts(request)
    return guessed_request_from(G, ret)


def guessed_request_from(G, ret):
    vs = []
    for N in G["nts"]:
        for r in N["rules"]:
            sym = r[0]
            if sym[0] == 1 and [sym[1], sym[2]] not in vs:
                vs.append([sym[1], sym[2]])
    t = ret
    n = len(vs)
    for i in range(n):
        j = n - i - 1
        for k, ty in vs:
            if k == j:
                t = [1, ty, t]
    return t


def in_domain(mo):
    """Every grammar of the layer is non-empty (CFG.depth_constraint raises on an
    empty language: finding c01_empty_language_raises of C01, not a C19 matter)."""
    return all(G["nts"] and all(N["rules"] for N in G["nts"]) for G in mo["grammars"])


def variable_conflict(case):
    """Two grammars of the layer have a function-typed argument with the same
    index and different types.  Variable.__eq__ ignores the type, so the
    implementation merges their (variable, argument number) contexts into one
    abstraction key where the model keeps two: a coarser abstraction, which the
    property allows, but not the layout the model computes."""
    seen = {}
    for g in case["data"][0]:
        args, _ = D.arrow_parts(g[2])
        for i, t in enumerate(args):
            if t[0] == 1:
                if i in seen and seen[i] != t:
                    return True
                seen.setdefault(i, t)
    return False


def usable(case, mo):
    if variable_conflict(case):
        return False
    if case["u"]:
        # the U layer indexes its grammars by the guessed request: keep them distinct
        gs = [jkey(guessed_request(G, g[2])) for G, g in zip(mo["grammars"], case["data"][0])]
        if len(set(gs)) != len(gs):
            return False
    if not in_domain(mo):
        return False
    total = sum(len(G["nts"]) for G in mo["grammars"])
    return 0 < total <= 160 and mo["out_size"] <= 400


# ----------------------------------------------------------------------------
# unambiguous grammars with several alternatives per rule and several start
# symbols: (a) hand-built tables = random trimmed acyclic deterministic
# bottom-up tree automata turned into rule tables the way UCFG.from_DFTA /
# from_DFTA_with_ngrams do (one derivation per program by construction),
# (b) "udfta": UCFG.from_DFTA[_with_ngrams](add_dfta_constraints(cfg, [c]))
# ----------------------------------------------------------------------------
T0, T1 = S.INT, S.BOOL


def gen_automaton(rng, nvars):
    """Returns (states, leaf_of, trans, finals): states = list of types,
    leaf_of = {json(symbol): state}, trans = list of [symbol, [arg states], state]."""
    types = [T0] if rng.random() < 0.5 else [T0, T1]
    pid = [100]

    def prim(t):
        pid[0] += 1
        return [0, pid[0] - 1, t]

    leaves = [prim(T0) for _ in range(rng.randint(1, 3))]
    if len(types) > 1:
        leaves += [prim(T1) for _ in range(rng.randint(1, 2))]
    for i in range(nvars):
        leaves.append([1, i, rng.choice(types)])
    if rng.random() < 0.3:
        leaves.append([2, rng.choice(types)])
    funs = []
    for _ in range(rng.randint(1, 3)):
        ar = rng.choice([1, 2, 2, 2, 3])
        args = [rng.choice(types) for _ in range(ar)]
        funs.append(prim(S.ARROW(*args, T0 if rng.random() < 0.8 else rng.choice(types))))
    if rng.random() < 0.35:
        # a function-typed variable (higher-order request): applied like a function letter, tagged like a variable
        args = [rng.choice(types) for _ in range(rng.choice([1, 1, 2]))]
        funs.append([1, nvars, S.ARROW(*args, T0)])
    states = []                 # type of each state
    level = []
    leaf_of = {}
    for t in types:
        ls = [l for l in leaves if (l[2] if l[0] != 2 else l[1]) == t]
        if not ls:
            continue
        k = rng.randint(1, min(2, len(ls)))
        ids = []
        for _ in range(k):
            ids.append(len(states))
            states.append(t)
            level.append(0)
        for l in ls:
            leaf_of[jkey(l)] = rng.choice(ids)
    trans = []
    nlev = rng.choice([1, 2, 2])
    for lvl in range(1, nlev + 1):
        new = {}
        for f in funs:
            args, ret = D.arrow_parts(f[2])
            new.setdefault(jkey(ret), [])
        for rt in new:
            for _ in range(rng.randint(1, 2)):
                new[rt].append(len(states))
                states.append(json.loads(rt))
                level.append(lvl)
        for f in funs:
            args, ret = D.arrow_parts(f[2])
            tuples = [[]]
            for a in args:
                cands = [q for q in range(len(states)) if states[q] == a and level[q] < lvl]
                tuples = [t_ + [q] for t_ in tuples for q in cands]
                if len(tuples) > 40:
                    tuples = rng.sample(tuples, 40)
            tuples = [t_ for t_ in tuples if t_ and max(level[q] for q in t_) == lvl - 1]
            if len(tuples) > 8:
                tuples = rng.sample(tuples, 8)
            for t_ in tuples:
                if rng.random() < 0.8:
                    trans.append([f, t_, rng.choice(new[jkey(ret)])])
    tops = [q for q in range(len(states)) if states[q] == T0]
    tops.sort(key=lambda q: -level[q])
    nst = rng.choice([1, 2, 2, 3])
    finals = tops[:nst] if rng.random() < 0.7 else rng.sample(tops, min(nst, len(tops)))
    return states, leaf_of, trans, sorted(set(finals))


def trim_automaton(states, leaf_of, trans, finals):
    """Keeps the productive transitions reachable from the final states."""
    prod = set(leaf_of.values())
    changed = True
    while changed:
        changed = False
        for f, args, q in trans:
            if q not in prod and all(a in prod for a in args):
                prod.add(q)
                changed = True
    trans = [t for t in trans if all(a in prod for a in t[1])]
    reach = set(q for q in finals if q in prod)
    todo = list(reach)
    while todo:
        q = todo.pop()
        for f, args, q2 in trans:
            if q2 == q:
                for a in args:
                    if a not in reach:
                        reach.add(a)
                        todo.append(a)
    trans = [t for t in trans if t[2] in reach]
    leaf_of = {l: q for l, q in leaf_of.items() if q in reach}
    return leaf_of, trans, sorted(reach & set(finals))


def automaton_table(states, leaf_of, trans, finals, flavour):
    """The rule table (wire of Gram/U.v) of the automaton.  flavour "int": U = state
    number; "pair": U = (state, state % 2); "ngram": U = (NGram(2, context), state)
    with the non-terminals expanded top-down as UCFG.from_DFTA_with_ngrams does."""
    def rules_of(q):
        rs = {}
        order = []
        for l, q2 in leaf_of.items():
            if q2 == q:
                rs[l] = [[]]
                order.append(l)
        for f, args, q2 in trans:
            if q2 == q:
                k = jkey(f)
                if k not in rs:
                    rs[k] = []
                    order.append(k)
                if args not in rs[k]:
                    rs[k].append(args)
        return [[json.loads(k), rs[k]] for k in order]

    if flavour != "ngram":
        def nt(q):
            return [states[q], [0, q] if flavour == "int" else [3, [0, q], [0, q % 2]]]
        table = [[nt(q), [[sym, [[nt(a) for a in alt] for alt in alts]] for sym, alts in rules_of(q)]]
                 for q in sorted(set(leaf_of.values()) | {t[2] for t in trans})]
        return table, [nt(q) for q in finals]

    def nt(q, ctx):
        return [states[q], [3, [4, 2] + ([ctx] if ctx is not None else []), [0, q]]]
    table = []
    seen = set()
    todo = [(q, None) for q in finals]
    while todo:
        q, ctx = todo.pop(0)
        if jkey([q, ctx]) in seen:
            continue
        seen.add(jkey([q, ctx]))
        rs = []
        for sym, alts in rules_of(q):
            nalts = []
            for alt in alts:
                na = []
                for i, a in enumerate(alt):
                    c2 = [3, [5, sym], [0, i]]
                    na.append(nt(a, c2))
                    todo.append((a, c2))
                nalts.append(na)
            rs.append([sym, nalts])
        table.append([nt(q, ctx), rs])
    return table, [nt(q, None) for q in finals]


def automaton_run(leaf_of, trans, p):
    """The state the automaton reaches on the term (None = no run)."""
    if p[0] == 0:
        return leaf_of.get(jkey(p[1]))
    args = [automaton_run(leaf_of, trans, a) for a in p[2:]]
    if any(a is None for a in args):
        return None
    for f, targs, q in trans:
        if f == p[1] and targs == args:
            return q
    return None


def automaton_terms(rng, leaf_of, trans, finals, n):
    """n random terms accepted by the automaton, plus near misses."""
    def term(q, fuel):
        opts = [[0, json.loads(l)] for l, q2 in leaf_of.items() if q2 == q]
        apps = [t for t in trans if t[2] == q]
        if apps and (not opts or rng.random() < 0.75):
            f, args, _ = rng.choice(apps)
            return [1, f] + [term(a, fuel - 1) for a in args]
        return rng.choice(opts)
    members = []
    for _ in range(4 * n):
        t = term(rng.choice(finals), 4)
        if t not in members:
            members.append(t)
        if len(members) >= n:
            break
    leaves = [[0, json.loads(l)] for l in leaf_of]
    others = []
    for m in members[:max(3, n // 2)]:
        if m[0] == 1:
            q = list(m)
            i = rng.randrange(2, len(q))
            q[i] = rng.choice(leaves)                   # replace an argument by a random leaf
            others.append(q)
            if len(m) > 3:
                others.append(m[:2] + m[3:] + [m[2]])   # rotate the arguments
    out = members + [o for o in others if o not in members]
    return out


def gen_hand_config(rng, tier):
    flavour = rng.choice(["int", "pair", "ngram", "ngram"])
    grammars, progs, oracles = [], [], []
    for gi in range(rng.choice([1, 1, 2])):
        for _ in range(30):
            states, leaf_of, trans, finals = gen_automaton(rng, rng.choice([0, 1, 1, 2]))
            leaf_of, trans, finals = trim_automaton(states, leaf_of, trans, finals)
            if not finals or not trans:
                continue
            table, starts = automaton_table(states, leaf_of, trans, finals, flavour)
            multi = any(len(alts) > 1 for _, rs in table for _, alts in rs)
            if (multi or len(starts) > 1) and len(table) <= 40:
                break
        else:
            continue
        grammars.append([table, starts])
        progs.append(automaton_terms(rng, leaf_of, trans, finals, 10))
        oracles.append([[1 if automaton_run(leaf_of, trans, p) in finals else 0 for p in progs[-1]]])
    if not grammars:
        return None
    absfun = rng.choice(["primitive_presence", "identity", "ucfg_bigram", "ucfg_bigram"] if flavour == "ngram"
                        else ["primitive_presence", "identity", "identity"])
    absid = {"primitive_presence": 0, "ucfg_bigram": 1, "identity": 2}[absfun]
    return {"kind": "u-hand-%s-%s" % (flavour, absfun), "gk": "uhand", "data": [grammars, absid, progs], "u": 1,
            "absfun": absfun, "v": rng.choice([0.05, 0.2, 0.9]), "tvo": rng.choice([0, 1, 1]), "clean": rng.choice([0, 1, 1]),
            "oracle": [o[0] for o in oracles]}


def gen_dfta_config(rng, tier):
    """Grammar parameters for UCFG.from_DFTA / from_DFTA_with_ngrams of a sharpened
    depth-bounded CFG (constraint string as in harness/props/c04.py)."""
    dsl = D.gen_dsl(rng, rng.choice(["F1", "F2", "F2", "F5"]))
    funs = [p for p in dsl["prims"] if p[1][0] == 1]
    f = rng.choice(funs)
    args, _ = D.arrow_parts(f[1])
    leaves = [p for p in dsl["prims"] if p[1] == args[0]]
    if leaves:
        c = rng.choice(leaves)
        constraint = "(p%d p%d%s)" % (f[0], c[0], " _" * (len(args) - 1))
    else:
        constraint = "(p%d%s)" % (f[0], " _" * len(args))
    ngrams = rng.choice([0, 2, 2])
    reqs = [dsl["request"]]
    if rng.random() < 0.4:
        r = gen_request(rng, dsl)
        if r not in reqs:
            reqs.append(r)
    gps, progs = [], []
    for r in reqs:
        md = rng.choice([2, 3, 3])
        mv = rng.choice([0, 1, 1])
        gps.append([dsl["prims"], dsl["forbidden"], r, md, mv, 2, [], constraint, ngrams])
        d2 = dict(dsl)
        d2["request"] = r
        d2["const_types"] = []
        _, ret = D.arrow_parts(r)
        cands = D.terms(d2, ret, md, rng, 25)
        seen, uniq = set(), []
        for c_ in cands:
            k = json.dumps(c_)
            if k not in seen:
                seen.add(k)
                uniq.append(c_)
        progs.append(uniq[:25])
    absfun = rng.choice(["primitive_presence", "identity", "ucfg_bigram", "ucfg_bigram"] if ngrams
                        else ["primitive_presence", "identity", "identity"])
    absid = {"primitive_presence": 0, "ucfg_bigram": 1, "identity": 2}[absfun]
    return {"kind": "u-dfta%s-%s" % ("-ngram" if ngrams else "", absfun), "gk": "udfta", "data": [gps, absid, progs],
            "u": 1, "absfun": absfun, "v": rng.choice([0.05, 0.2, 0.9]), "tvo": rng.choice([0, 1, 1])}


def usable_multi(case, mo):
    if not in_domain(mo):
        return False
    gs = [jkey(guessed_request_from(G, G["starts"][0]["nt"][0])) for G in mo["grammars"]]
    if len(set(gs)) != len(gs):
        return False
    # the generator's own run of the automaton must agree with the model's membership, one derivation each
    for G, orc in zip(mo["grammars"], case.get("oracle", [])):
        got = [0 if p is None else 1 for p in G["progs"]]
        if got != orc or any(p is not None and "deriv" not in p for p in G["progs"]):
            raise RuntimeError("C19 generator: hand-built automaton and model disagree on membership / unambiguity")
    total = sum(len(G["nts"]) for G in mo["grammars"])
    return 0 < total <= 160 and mo["out_size"] <= 400


def gen(rng, tier):
    from lib import core
    if not os.path.isfile(os.path.join(core.VERIF, "build", ID, "driver")):
        return []
    nconf, kinds = (14, TENSOR_KINDS) if tier == "quick" else (110, TENSOR_KINDS * 2)
    cases = []
    tries = 0
    while len(cases) < nconf * len(kinds) and tries < nconf * 6:
        batch = [gen_config(rng, tier, no_constants=(i % 5 == 4)) for i in range(nconf)]
        tries += nconf
        raws = core.run_model(ID, [(1, c["data"]) for c in batch])
        for c, raw in zip(batch, raws):
            if raw == [-1] or raw == [-2]:
                continue
            mo = parse_model(raw)
            if not usable(c, mo):
                continue
            for kind in kinds:
                cc = dict(c)
                cc["tkind"] = kind
                cc["tensor"] = gen_tensor(rng, kind, mo)
                cases.append(cc)
            if len(cases) >= nconf * len(kinds):
                break
    # U layers on unambiguous grammars with several alternatives / start symbols
    nhand, ndfta = (8, 7) if tier == "quick" else (50, 40)
    hand = []
    for _ in range(nhand * 4):
        if len(hand) >= nhand:
            break
        c = gen_hand_config(rng, tier)
        if c is None:
            continue
        raw = core.run_model(ID, [(2, c["data"])])[0]
        if raw == [-1] or raw == [-2]:
            raise RuntimeError("C19 generator: the model rejected a hand-built table")
        mo = parse_model_multi(raw)
        if usable_multi(c, mo):
            hand.append((c, mo))
    for c, mo in hand:
        c.pop("oracle", None)
        for kind in kinds:
            cc = dict(c)
            cc["tkind"] = kind
            cc["tensor"] = gen_tensor(rng, kind, mo)
            cases.append(cc)
    for _ in range(ndfta):
        c = gen_dfta_config(rng, tier)
        for kind in kinds:
            cc = dict(c)
            cc["tkind"] = kind
            cc["tensor"] = {"recipe": [kind, rng.randrange(1, 10 ** 9)]}
            cases.append(cc)
    return cases


# ----------------------------------------------------------------------------
# protocol
# ----------------------------------------------------------------------------
def impl_tables(io):
    return io.get("tables") if isinstance(io, dict) else None


def to_model(case, io):
    """The model calls of a case (MODEL_AFTER_IMPL protocol).  "udfta" grammars are
    built by the implementation only: the model is run on the tables it serialised."""
    if not is_multi(case):
        return [(1, case["data"])]
    if case["gk"] == "uhand":
        return [(2, case["data"])]
    tables = impl_tables(io)
    if not tables or len(tables) != len(case["data"][2]):
        return []
    return [(2, [tables, case["data"][1], case["data"][2]])]


def model_obs(case, raws, io):
    if not raws:
        return None
    if not is_multi(case):
        return closed_forms(case, parse_model(raws[0]))
    return closed_forms(case, parse_model_multi(raws[0]), case_tensor(case, io))


def finite(x):
    return isinstance(x, (int, float)) and not math.isnan(x) and not math.isinf(x)


def close(a, b, tol):
    """a (implementation) against the exact value b."""
    if not finite(a):
        return False
    if b < TINY:
        return 0.0 <= a <= TINY
    return abs(a - b) <= tol * b


def table_set(table):
    return sorted(jkey([nt, sorted(jkey([sym, sorted(jkey(a) for a in alts)]) for sym, alts in rs)]) for nt, rs in table)


def compare(case, io, mo):
    """List of (kind, grammar index, item index, text).  Empty = agreement."""
    issues = []
    isu = bool(case["u"])
    multi = is_multi(case)
    if isinstance(io, dict) and "skipped" in io:
        return []          # no grammar was built (empty language, coinciding guessed requests): nothing to compare
    if mo is None:
        return [("crash", -1, -1, "no model answer: " + json.dumps(io)[:300])]
    if not in_domain(mo):
        return []          # outside the domain of the property (only reachable by shrinking)

    def bad(kind, gi, ii, text):
        issues.append((kind, gi, ii, text))

    if not isinstance(io, dict) or "layout" not in io:
        return [("crash", -1, -1, json.dumps(io)[:300])]
    # ---- hand-built tables: the grammar object holds exactly the table of the case ----
    if multi and case["gk"] == "uhand":
        for gi, (gw, tw) in enumerate(zip(case["data"][0], io.get("tables", []))):
            if table_set(gw[0]) != table_set(tw[0]) or sorted(map(jkey, gw[1])) != sorted(map(jkey, tw[1])):
                bad("table", gi, -1, "UCFG(starts, rules) does not hold the rules / start symbols it was given")
        if issues:
            return issues
    # ---- layout ----
    exp_size = mo["u_size"] if isu else mo["out_size"]
    if io["out_size"] != exp_size or io["forward_size"] != exp_size:
        bad("layout", -1, -1, "output size %s / forward %s, expected %s" % (io["out_size"], io["forward_size"], exp_size))
    mkeys = {jkey(s[0]): sorted(jkey(p) for p in s[3]) for s in mo["slices"]}
    ikeys = {}
    for k, st, ln, d in io["layout"]:
        if jkey(k) in ikeys:
            bad("layout", -1, -1, "key listed twice " + jkey(k))
        ikeys[jkey(k)] = sorted(jkey(p) for p, _ in d)
        if ln != len(d) or sorted(i for _, i in d) != list(range(ln)):
            bad("layout", -1, -1, "slice of %s: length %s, local indices %s" % (jkey(k), ln, sorted(i for _, i in d)))
    if mkeys != ikeys:
        bad("layout", -1, -1, "abstraction keys / primitives per key differ")
    cur = 0
    for k, st, ln, d in sorted(io["layout"], key=lambda s: (s[1], s[2])):
        if st != cur:
            bad("layout", -1, -1, "slices are not contiguous at %s" % st)
        cur = st + ln
    if cur != mo["out_size"]:
        bad("layout", -1, -1, "slices cover %s entries, expected %s" % (cur, mo["out_size"]))
    if isu:
        if sorted(jkey(k) for k in io.get("start_abs", [])) != sorted(jkey(k) for k in mo["start_keys"]):
            bad("layout", -1, -1, "start abstractions differ")
    if any(i[0] == "layout" for i in issues):
        return issues
    index_of = {}
    for k, st, ln, d in io["layout"]:
        for p, i in d:
            index_of[st + i] = jkey([k, p])
    model_index = {}
    for k, st, ln, prims in mo["slices"]:
        for j, p in enumerate(prims):
            model_index[st + j] = jkey([k, p])
    # ---- grammars ----
    if len(io["grammars"]) != len(mo["grammars"]):
        return issues + [("crash", -1, -1, "number of grammars")]
    for gi, (go, G) in enumerate(zip(io["grammars"], mo["grammars"])):
        if multi:
            tys = {jkey(s_["nt"][0]) for s_ in G["starts"]}
            if len(tys) != 1:
                continue       # start symbols of several types: the guessed request depends on a set order
            req = guessed_request_from(G, G["starts"][0]["nt"][0])
        else:
            req = case["data"][0][gi][2]
            if isu:
                req = guessed_request(G, req)      # UGrammar rebuilds the request from the variables that occur
        if go.get("treq") != req:
            bad("layout", gi, -1, "type_request %s" % jkey(go.get("treq")))
        if "crash" in go or "nts" not in go:
            bad("crash", gi, -1, go.get("crash", "no answer"))
            continue
        inl = {jkey(n[0]): n for n in go["nts"]}
        if sorted(inl) != sorted(jkey(N["nt"]) for N in G["nts"]) or len(inl) != len(go["nts"]):
            bad("nts", gi, -1, "non-terminals differ")
            continue
        for ni, N in enumerate(G["nts"]):
            n = inl[jkey(N["nt"])]
            if n[1] != N["key"]:
                bad("nts", gi, ni, "abstraction of %s: %s" % (jkey(N["nt"]), jkey(n[1])))
                continue
            # one entry per rule, or per (rule, alternative) for tables with alternatives
            if multi:
                ient = [[jkey([r[0], a[0]]), a[1]] for r in n[2] for a in r[1]]
                ment = [jkey([r[0], r[2]]) for r in N["rules"]]
            else:
                if any(len(r[1]) != 1 for r in n[2]):
                    bad("nts", gi, ni, "several alternatives")
                    continue
                ient = [[jkey(r[0]), r[1][0]] for r in n[2]]
                ment = [jkey(r[0]) for r in N["rules"]]
            irules = dict(ient)
            if sorted(irules) != sorted(ment) or len(irules) != len(ient) or len(set(ment)) != len(ment):
                bad("nts", gi, ni, "rules of %s differ" % jkey(N["nt"]))
                continue
            # numeric part
            ws = [irules[k] for k in ment]
            tol = N["tol"]
            msgs = []
            if not all(finite(w) for w in ws):
                msgs.append("non-finite weight")
            else:
                for r, w, c in zip(N["rules"], ws, N["w"]):
                    if c is None:
                        continue
                    if not close(w, c, tol):
                        msgs.append("weight of %s: %r, exact %r" % (jkey(r[0]), w, c))
                    if c >= TINY and not w > 0:
                        msgs.append("weight of %s not positive" % jkey(r[0]))
                vcw = sorted(w for r, w in zip(N["rules"], ws) if r[0][0] != 0)
                for w, c in zip(vcw, N["vc"]):
                    if not w > 0:
                        msgs.append("variable/constant weight not positive")
                    if abs(w - c) > (4e-8 if not isu else 4e-8 + tol * c):
                        msgs.append("variable/constant weights %r, exact %r" % (vcw, N["vc"]))
                        break
                if abs(sum(ws) - N["sum"]) > tol:
                    msgs.append("sum %r, exact %r" % (sum(ws), N["sum"]))
                if N["nprim"] > 0 and N["nv"] + N["nc"] > 0 and abs(sum(vcw) - N["mass_vc"]) > tol:
                    msgs.append("variable+constant mass %r, exact %r" % (sum(vcw), N["mass_vc"]))
            if msgs:
                pinned = False
                if N.get("affected") and all(finite(w) for w in ws):
                    # exactly the weights of the pinned tree (variable mass divided by the number of symbols)?
                    pinned = all(c is None or close(w, c, tol) for w, c in zip(ws, N["w_pin"])) and \
                        len(vcw) == len(N["vc_pin"]) and all(abs(w - c) <= 4e-8 + tol * c for w, c in zip(vcw, N["vc_pin"]))
                bad("weight_valt" if pinned else "weight", gi, ni, "%s: %s" % (jkey(N["nt"]), "; ".join(msgs[:3])))
        # start symbols: softmax of the start entries of the grammar's start symbols
        st = go.get("starts", [])
        ist = {jkey(s_[0]): s_[1] for s_ in st}
        if sorted(ist) != sorted(jkey(s_["nt"]) for s_ in G["starts"]) or len(ist) != len(st):
            bad("starts", gi, -1, "start symbols %s" % jkey(st)[:200])
        else:
            sw = [ist[jkey(s_["nt"])] for s_ in G["starts"]]
            if not all(finite(w) for w in sw):
                bad("starts", gi, -1, "start probabilities %s" % jkey(st)[:200])
            elif len(sw) == 1:
                if abs(sw[0] - 1.0) > 1e-6 or not sw[0] > 0:
                    bad("starts", gi, -1, "start probabilities %s" % jkey(st)[:200])
            else:
                msgs = []
                for w, c in zip(sw, G["start_probs"]):
                    if not close(w, c, G["start_tol"]):
                        msgs.append("start probability %r, exact %r" % (w, c))
                    if c >= TINY and not w > 0:
                        msgs.append("start probability not positive")
                if abs(sum(sw) - 1.0) > 1e-6:
                    msgs.append("start probabilities sum to %r" % sum(sw))
                if msgs:
                    bad("starts", gi, -1, "; ".join(msgs[:3]))
        # programs
        if len(go["progs"]) != len(G["progs"]):
            bad("member", gi, -1, "number of program answers")
            continue
        for pi, (po, pm) in enumerate(zip(go["progs"], G["progs"])):
            if pm is None:
                if po[0] != 0:
                    bad("member", gi, pi, "program accepted, not in the grammar")
                continue
            if "error" in pm:
                bad("member", gi, pi, pm["error"])
                continue
            if po[0] == 0:
                bad("member", gi, pi, "program rejected, in the grammar")
                continue
            if "ambiguous" in pm:
                continue       # several derivations: not an unambiguous grammar, outside the domain
            if po[0] == 2:
                bad("encode", gi, pi, "raised " + po[1])
                continue
            marks, enc_ok, lp, pr = po[1:5]
            if not enc_ok:
                bad("encode", gi, pi, "encoding is not a 0/1 vector of the output size")
            imarks = sorted(index_of.get(i, "start-entry %d" % i) for i in marks)
            mmarks = sorted(model_index[i] for i in pm["marks"])
            if imarks != mmarks:
                bad("encode", gi, pi, "marked pairs %s, expected %s" % (imarks, mmarks))
            if "prob" not in pm:
                continue
            def prog_msgs(exp, consistent):
                """differences between the implementation's answers for this program and the expected values"""
                out = []
                tol, tol_at = pm["tol"], pm["tol_at"]
                if not finite(lp) or not finite(pr):
                    return ["non-finite log-probability %r / probability %r" % (lp, pr)]
                e = math.exp(lp) if lp < 700 else float("inf")
                if not close(pr, exp["prob"], tol):
                    out.append("probability %r, exact %r" % (pr, exp["prob"]))
                if not close(e, exp["exp_logp"], tol):
                    out.append("exp(log_probability) %r, exact %r" % (e, exp["exp_logp"]))
                if consistent and not (abs(e - pr) <= tol * max(e, pr) or (e <= TINY and pr <= TINY)):
                    out.append("exp(log_probability) %r, probability %r" % (e, pr))
                if multi and len(po) >= 8:
                    s0, lp_at, pr_at = po[5:8]
                    if s0 != G["starts"][pm["start"]]["nt"]:
                        out.append("derived from start symbol %s, expected %s" % (jkey(s0), jkey(G["starts"][pm["start"]]["nt"])))
                    elif not finite(lp_at) or not finite(pr_at):
                        out.append("non-finite log_probability(p, start) %r / probability(p, start) %r" % (lp_at, pr_at))
                    else:
                        e_at = math.exp(lp_at) if lp_at < 700 else float("inf")
                        if not close(pr_at, exp["prob_at"], tol_at) or not close(e_at, exp["exp_logp_at"], tol_at):
                            out.append("with the start symbol given: exp(log_probability) %r, probability %r, exact %r and %r"
                                       % (e_at, pr_at, exp["exp_logp_at"], exp["prob_at"]))
                return out

            msgs = prog_msgs(pm, True)
            if msgs:
                kind = "logprob"
                no_start = lambda d: dict(d, exp_logp=d["exp_logp_at"])     # the pinned tree leaves the start tag out
                if len(G["starts"]) > 1 and not prog_msgs(no_start(pm), False):
                    kind = "logprob_start"
                elif "pinned" in pm and (not prog_msgs(pm["pinned"], False) or
                                         (len(G["starts"]) > 1 and not prog_msgs(no_start(pm["pinned"]), False))):
                    kind = "logprob_valt"
                bad(kind, gi, pi, "; ".join(msgs[:2]))
    return issues


def agree(case, io, mo):
    return not compare(case, io, mo)


def nontrivial(case, mo):
    if mo is None:
        return False
    keys = len(mo["slices"]) >= 2
    withvar = any(N["nv"] + N["nc"] > 0 for G in mo["grammars"] for N in G["nts"])
    member = any(p is not None and "deriv" in p for G in mo["grammars"] for p in G["progs"])
    if is_multi(case):
        # a symbol with several alternatives at some non-terminal, or several start symbols
        alts = any(len([r for r in N["rules"] if r[0] == r0[0]]) > 1 for G in mo["grammars"] for N in G["nts"]
                   for r0 in N["rules"])
        return (alts or any(len(G["starts"]) > 1 for G in mo["grammars"])) and member
    return (keys or withvar) and member


def show_ty(t):
    if t[0] == 0:
        return S.TYPE_NAMES.get(t[1], "t%d" % t[1])
    if t[0] == 1:
        return "(%s -> %s)" % (show_ty(t[1]), show_ty(t[2]))
    if t[0] == 2:
        return " ".join(show_ty(x) for x in t[2:]) + " " + S.TYPE_NAMES.get(t[1], "t%d" % t[1])
    return str(t)


def show_sym(s):
    if s[0] == 0:
        return S.prim_name(s[1])
    if s[0] == 1:
        return "var%d" % s[1]
    return "<const>"


def show_key(k):
    if not k:
        return "None"
    if len(k) > 1 and isinstance(k[1], int):
        return "(%s,%d)" % (show_sym(k[0]), k[1])
    return "nt" + jkey(k)


def show_state(w):
    """wire form of a grammar state (generic encoder of c04_impl.py) -> text"""
    if not isinstance(w, list) or not w:
        return str(w)
    if w[0] == 0:
        return str(w[1])
    if w[0] == 1:
        return "None"
    if w[0] == 2:
        return bytes(w[1:]).decode("utf8", "replace")
    if w[0] == 3:
        return "(" + ",".join(show_state(e) for e in w[1:]) + ")"
    if w[0] == 4:
        return "[" + ",".join(show_state(e) for e in w[2:]) + "]"
    if w[0] == 5:
        return show_sym(w[1])
    if w[0] == 6:
        return show_ty(w[1])
    return jkey(w)


def show_unt(x):
    return "%s:%s" % (show_ty(x[0]), show_state(x[1]))


def show_table(table, starts):
    out = {}
    for nt, rs in table:
        out[show_unt(nt) + (" [START]" if nt in starts else "")] = [
            "%s -> %s" % (show_sym(sym), " | ".join(" ".join(show_unt(a) for a in alt) or "." for alt in alts)) for sym, alts in rs]
    return out


def describe_multi(case, mo):
    d = {"layer": case["kind"], "variable_probability": case["v"], "total_variable_order": case["tvo"],
         "tensor_kind": case.get("tkind"), "abstraction": case["absfun"]}
    if case["gk"] == "uhand":
        d["clean"] = case.get("clean", 1)
        d["grammars"] = [show_table(t, st) for t, st in case["data"][0]]
    else:
        d["grammars"] = [{"dsl": {S.prim_name(n): show_ty(t) for n, t in g[0]}, "request": show_ty(g[2]), "max_depth": g[3],
                          "min_variable_depth": g[4], "constraint": g[7],
                          "builder": "UCFG.from_DFTA_with_ngrams(add_dfta_constraints(cfg, [constraint]), %d)" % g[8] if g[8]
                          else "UCFG.from_DFTA(add_dfta_constraints(cfg, [constraint]))"} for g in case["data"][0]]
    d["programs"] = [[P.show_prog(p) for p in pl[:6]] for pl in case["data"][2]]
    if mo is None:
        return d
    t = mo.get("tensor", {"pairs": [], "starts": []})
    d["tensor"] = [[show_state(k), show_sym(p), v] for k, p, v in t["pairs"]][:40]
    d["start_entries"] = [[show_state(k), v] for k, v in t["starts"]]
    d["output_size"] = mo["u_size"]
    d["non_terminals"] = [len(G["nts"]) for G in mo["grammars"]]
    d["start_symbols"] = [[[show_unt(s_["nt"]), pr] for s_, pr in zip(G["starts"], G.get("start_probs", []))] for G in mo["grammars"]]
    d["alternatives"] = [max([len(N["rules"]) - len({jkey(r[0]) for r in N["rules"]}) + 1 for N in G["nts"]] + [1])
                         for G in mo["grammars"]]
    return d


def describe(case, mo):
    if is_multi(case):
        return describe_multi(case, mo)
    gparams = case["data"][0]
    vals = [x[2] for x in case["tensor"]["pairs"]]
    d = {"layer": case["kind"], "variable_probability": case["v"], "total_variable_order": case["tvo"],
         "dsl": {S.prim_name(n): show_ty(t) for n, t in gparams[0][0]},
         "forbidden": [[S.prim_name(k[0]), k[1], [S.prim_name(x) for x in v]] for k, v in gparams[0][1]],
         "grammars": [{"request": show_ty(g[2]), "max_depth": g[3], "min_variable_depth": g[4], "n_gram": g[5],
                       "constant_types": [show_ty(t) for t in g[6]]} for g in gparams],
         "tensor_kind": case.get("tkind"), "tensor_min_max": [min(vals), max(vals)] if vals else [],
         "tensor": [[show_key(k), show_sym(p), v] for k, p, v in case["tensor"]["pairs"]][:40],
         "output_size": mo["u_size"] if case["u"] else mo["out_size"], "keys": [show_key(s[0]) for s in mo["slices"]][:20],
         "non_terminals": [len(G["nts"]) for G in mo["grammars"]],
         "programs": [[P.show_prog(p) for p in pl[:5]] for pl in case["data"][2]]}
    worst = None
    for G in mo["grammars"]:
        for N in G["nts"]:
            if worst is None or N["gap"] > worst["gap"]:
                worst = N
    if worst is not None:
        d["largest_gap_non_terminal"] = {"nt": jkey(worst["nt"]), "gap": worst["gap"],
                                         "rules": [show_sym(r[0]) for r in worst["rules"]], "exact_weights": worst["w"],
                                         "exact_variable_constant_weights": worst["vc"]}
    return d


# Every shrinking round costs one batch of implementation subprocesses (torch
# import): the whole run gets one wall-clock budget for minimisation, further
# disagreements are reported as they are.
SHRINK_BUDGET_S = 150
_SHRINK_T0 = [None]


def shrink(case):
    import itertools
    import time
    now = time.time()
    if _SHRINK_T0[0] is None:
        _SHRINK_T0[0] = now
    if now - _SHRINK_T0[0] > SHRINK_BUDGET_S:
        return
    yield from itertools.islice(_shrink(case), 24)


def _shrink_multi(case):
    gws, absid, progs = case["data"]

    def mk(gp, pr, **kw):
        c = dict(case)
        c["data"] = [gp, absid, pr]
        c.update(kw)
        return c
    if len(gws) > 1:
        for i in range(len(gws)):
            yield mk(gws[:i] + gws[i + 1:], progs[:i] + progs[i + 1:])
    for i, pl in enumerate(progs):
        if len(pl) > 1:
            h = len(pl) // 2
            yield mk(gws, progs[:i] + [pl[:h]] + progs[i + 1:])
            yield mk(gws, progs[:i] + [pl[h:]] + progs[i + 1:])
    if case["gk"] == "udfta":
        for i, g in enumerate(gws):
            if g[3] > 2:
                yield mk(gws[:i] + [g[:3] + [g[3] - 1] + g[4:]] + gws[i + 1:], progs)
        if case["tensor"].get("recipe", ["equal"])[0] != "equal":
            yield mk(gws, progs, tensor={"recipe": ["equal", case["tensor"]["recipe"][1]]})
        return
    # hand-built tables: fewer start symbols, fewer alternatives, fewer rules (the table is trimmed again)
    for i, (table, starts) in enumerate(gws):
        cands = []
        if len(starts) > 1:
            for j in range(len(starts)):
                cands.append((table, starts[:j] + starts[j + 1:]))
        for ni, (nt, rs) in enumerate(table):
            for ri, (sym, alts) in enumerate(rs):
                if len(alts) > 1:
                    for ai in range(len(alts)):
                        rs2 = rs[:ri] + [[sym, alts[:ai] + alts[ai + 1:]]] + rs[ri + 1:]
                        cands.append((table[:ni] + [[nt, rs2]] + table[ni + 1:], starts))
                elif len(rs) > 1:
                    cands.append((table[:ni] + [[nt, rs[:ri] + rs[ri + 1:]]] + table[ni + 1:], starts))
        for t2, st2 in cands:
            t3, st3 = trim_table(t2, st2)
            if t3 and st3:
                yield mk(gws[:i] + [[t3, st3]] + gws[i + 1:], progs)
    t = case["tensor"]
    if "pairs" in t:
        nz = [k for k, x in enumerate(t["pairs"]) if x[2] != 0.0]
        if len(nz) > 1:
            h = len(nz) // 2
            for part in (nz[:h], nz[h:]):
                yield mk(gws, progs, tensor={"pairs": [x for k, x in enumerate(t["pairs"]) if k not in part], "starts": t["starts"]})
        if any(x[1] != 0.0 for x in t["starts"]):
            yield mk(gws, progs, tensor={"pairs": t["pairs"], "starts": []})
    if case.get("clean", 1):
        yield mk(gws, progs, clean=0)


def trim_table(table, starts):
    """productive non-terminals reachable from the start symbols (rules over others are dropped)"""
    rules = {jkey(nt): rs for nt, rs in table}
    prod = set()
    changed = True
    while changed:
        changed = False
        for k, rs in rules.items():
            if k not in prod and any(all(jkey(a) in prod for a in alt) for _, alts in rs for alt in alts):
                prod.add(k)
                changed = True
    t2 = {}
    for nt, rs in table:
        if jkey(nt) not in prod:
            continue
        rs2 = [[sym, [alt for alt in alts if all(jkey(a) in prod for a in alt)]] for sym, alts in rs]
        t2[jkey(nt)] = [nt, [r for r in rs2 if r[1]]]
    st = [x for x in starts if jkey(x) in t2]
    reach = set(jkey(x) for x in st)
    todo = list(reach)
    while todo:
        k = todo.pop()
        for _, alts in t2[k][1]:
            for alt in alts:
                for a in alt:
                    if jkey(a) not in reach:
                        reach.add(jkey(a))
                        todo.append(jkey(a))
    return [t2[jkey(nt)] for nt, _ in table if jkey(nt) in t2 and jkey(nt) in reach], st


def _shrink(case):
    if is_multi(case):
        yield from _shrink_multi(case)
        return
    gparams, absid, progs = case["data"]

    def mk(gp, pr, tensor=None):
        c = dict(case)
        c["data"] = [gp, absid, pr]
        if tensor is not None:
            c["tensor"] = tensor
        return c
    # fewer grammars
    if len(gparams) > 1:
        for i in range(len(gparams)):
            yield mk(gparams[:i] + gparams[i + 1:], progs[:i] + progs[i + 1:])
    # fewer programs
    for i, pl in enumerate(progs):
        if len(pl) > 1:
            h = len(pl) // 2
            yield mk(gparams, progs[:i] + [pl[:h]] + progs[i + 1:])
            yield mk(gparams, progs[:i] + [pl[h:]] + progs[i + 1:])
        elif len(pl) == 1 and sum(len(x) for x in progs) > 1:
            yield mk(gparams, progs[:i] + [[]] + progs[i + 1:])
    # smaller depth
    for i, g in enumerate(gparams):
        if g[3] > 1:
            g2 = g[:3] + [g[3] - 1] + g[4:]
            yield mk(gparams[:i] + [g2] + gparams[i + 1:], progs)
        if g[6]:
            g2 = g[:6] + [[]]
            yield mk(gparams[:i] + [g2] + gparams[i + 1:], progs)
    # drop primitives (from every grammar: they share the DSL)
    prims = gparams[0][0]
    if len(prims) > 1:
        for i in range(len(prims)):
            np_ = prims[:i] + prims[i + 1:]
            n = prims[i][0]
            gp = []
            for g in gparams:
                forb = [[kk, [x for x in vv if x != n]] for kk, vv in g[1] if kk[0] != n]
                gp.append([np_, forb] + g[2:])
            pr = [[p for p in pl if all(q[1][0] != 0 or q[1][1] != n for q in P.subprogs(p))] for pl in progs]
            yield mk(gp, pr)
    # simpler tensor: drop the zero entries (0.0 is the default), zero half of the entries, or all small entries
    pairs = case["tensor"]["pairs"]
    if any(x[2] == 0.0 for x in pairs):
        yield mk(gparams, progs, {"pairs": [x for x in pairs if x[2] != 0.0], "starts": case["tensor"]["starts"]})
    nz = [i for i, x in enumerate(pairs) if x[2] != 0.0]
    if len(nz) > 1:
        h = len(nz) // 2
        for part in (nz[:h], nz[h:]):
            t = {"pairs": [[k, p, v] for i, (k, p, v) in enumerate(pairs) if i not in part],
                 "starts": case["tensor"]["starts"]}
            yield mk(gparams, progs, t)
    if any(0 < abs(x[2]) < 10 for x in pairs) and any(abs(x[2]) >= 10 for x in pairs):
        t = {"pairs": [[k, p, v] for k, p, v in pairs if abs(v) >= 10], "starts": case["tensor"]["starts"]}
        yield mk(gparams, progs, t)


# ----------------------------------------------------------------------------
# known finding: float64 underflow of exp(log-softmax) when the mass of a slice
# sits on rules that are not derivable at a non-terminal
# ----------------------------------------------------------------------------
def pinned_ok(case, N, rules_impl):
    """The behaviour of the unrepaired code at a non-terminal whose derivable
    rules all underflow: total = 0."""
    isu = bool(case["u"])
    if is_multi(case):
        return False
    ws = {jkey(r[0]): r[1][0] for r in rules_impl}
    nv, nc = N["nv"], N["nc"]
    prim = [ws[jkey(sym)] for sym, _ in N["rules"] if sym[0] == 0]
    vcw = sorted(ws[jkey(sym)] for sym, _ in N["rules"] if sym[0] != 0)
    if nv + nc == 0:
        if isu:      # log(1 / 0.0) = inf, exp(inf) / inf = nan
            return all(not finite(w) for w in prim)
        return all(w == 0.0 for w in prim)          # left un-normalised: exp(-large) = 0
    eps = 1e-7 if case["tvo"] else 0.0
    p0 = 1.0 / (nv + nc)
    exp_vc = sorted([p0 - k * eps for k in range(nv)] + [p0 - nv * eps] * nc)
    z = sum(exp_vc) if isu else 1.0
    return all(w == 0.0 for w in prim) and len(vcw) == len(exp_vc) and \
        all(abs(w - c / z) <= 1e-6 for w, c in zip(vcw, exp_vc))


def start_overflow(case, io, mo, gi):
    """exp() of the raw start entry overflows (or underflows to 0) in float64 and
    the implementation reports a non-finite start probability."""
    _, sv = tensor_tables(case, mo.get("tensor"))
    z = sv.get(jkey(mo["grammars"][gi]["starts"][0]["key"]), 0.0)
    st = io["grammars"][gi].get("starts", [])
    return abs(z) > 709.0 and len(st) == 1 and not finite(st[0][1])


def classify(case, io, mo):
    """Name of the recorded defect that explains EVERY disagreement of the case, or None."""
    issues = compare(case, io, mo)
    if not issues or mo is None:
        return None
    explained_nts = {}
    for gi, G in enumerate(mo["grammars"]):
        explained_nts[gi] = {ni for ni, N in enumerate(G["nts"]) if N["nprim"] > 0 and N["gap"] > UNDERFLOW_GAP}
    names = set()
    for kind, gi, ii, text in issues:
        if kind == "starts":
            if not (case["u"] and start_overflow(case, io, mo, gi)):
                return None
            names.add("c19_start_exp_overflow")
        elif kind == "weight":
            if ii not in explained_nts.get(gi, ()):
                return None
            N = mo["grammars"][gi]["nts"][ii]
            inl = {jkey(n[0]): n for n in io["grammars"][gi]["nts"]}
            if not pinned_ok(case, N, inl[jkey(N["nt"])][2]):
                return None
            names.add("c19_underflow_nonderivable_max")
        elif kind in ("weight_valt", "logprob_valt"):
            # compare() gives these kinds only at / through a non-terminal where a variable or constant has several
            # alternatives, when the implementation's numbers are exactly those of the pinned tree (variable mass divided
            # by the number of symbols, one tag per alternative)
            names.add("c19_variable_alternatives_mass")
        elif kind == "logprob_start":
            # compare() gives this kind only when the grammar has several start symbols, probability(p) and the
            # explicit-start observables agree with the closed forms and exp(log_probability(p)) equals the
            # closed form WITHOUT the start symbol's probability
            names.add("c19_logprob_ignores_start")
        elif kind == "logprob":
            pm = mo["grammars"][gi]["progs"][ii]
            if not any(ni in explained_nts.get(gi, ()) for ni in pm.get("visited", [])):
                return None
            names.add("c19_underflow_nonderivable_max")
        else:
            return None
    return sorted(names)[-1]


def theorem_for(case):
    if is_multi(case):
        return ("discrete observables: C19_u_layout, C19_u_encode, C19_u_encode_unique, C19_u_start_entries, C19_u_derivations "
                "(Run/C19.v entry 2 runs the model these are about, on the rule table of the grammar); numeric observables: "
                "C19_closed_form_alts (one term per (primitive, alternative) in the normaliser), C19_positive, C19_normalised, "
                "C19_variable_mass, C19_normalised_u, C19_start_softmax, C19_logprob_multi, C19_exp_logprob_multi evaluated in "
                "60-digit arithmetic (the float32 gap is measured, not proved)")
    return ("discrete observables: C19_layout, C19_encode, C19_encode_vector, C19_start_entries (Run/C19.v runs the model "
            "these are about); numeric observables: C19_closed_form, C19_positive, C19_normalised, C19_variable_mass, "
            "C19_normalised_u, C19_start_normalised, C19_logprob, C19_logprob_u evaluated in 60-digit arithmetic "
            "(the float32 gap is measured, not proved)")
