"""C05: sharpening keeps exactly the programs that satisfy the written constraints."""
import json
import random

from lib import dsls as D
from lib import progs as P
from lib import semantics as S

ID = "C05"
IMPL_MODULE = "props.c05_impl"
HASHSEEDS = {"quick": [0, 1], "thorough": [0, 1, 2, 3]}
CASE_TIMEOUT = 120
RULE = ("sharpen: small base grammars of families F1 (one base type: 1-3 constants, 0-2 unary, 1-2 binary primitives) and "
        "F3 (one base type with a higher-order primitive apply : (int -> int) -> int -> int, so partial applications such as (+ 1) "
        "are arguments and sit in arrow-typed non-terminals) and F2 (int and bool: lt/eq, not/and, ite - sometimes at both int and bool, two primitives with one name -, constants), CFG.depth_constraint with max_depth 2-4, "
        "min_variable_depth 0-1, optional forbidden table, request with 0-2 variables; 1-3 constraint strings and an "
        "optional sketch drawn from a grammar of the documented syntax (name sets a,b / ^a,b / _ / {a,b}, argument patterns "
        "nested <= 2 with pairwise different heads, counting rules #(..)<=n / #[..]>=n with n in 0..3 in both spellings, "
        ">(..) and >^(..), variables, unknown names, fewer or more argument patterns than the arity, top-level counting "
        "rules); candidates: EVERY relaxed well-typed term up to max_depth (ignoring forbidden patterns and the minimum "
        "variable depth, so the base language and its near misses) when there are at most 1500, otherwise a random sample "
        "of 1500, plus terms one level too deep, terms of another type and mutants.  Observables: "
        "add_dfta_constraints(cfg, constraints, sketch) raising or not; for every candidate the bottom-up run with "
        "DFTA.read, membership of the reached state in finals, DFTAFilter.accept; membership in the base grammar; the "
        "token trees of parse_specification.  Compared with the declarative semantics evaluated by the model "
        "(base and every-occurrence and sketch); the model's own automaton (same pipeline, C07 model for "
        "product/reduce/minimise) is used to classify.  parse: random symbol tables (2-6 primitives, variables with gaps) "
        "and strings of the same grammar plus malformed ones; observable: the token tree (name lists as sets) or the "
        "exception.  Non-trivial = the sharpened language is neither empty nor the base language.")
ASSUMPTIONS = ["ASCII constraint strings, single spaces between words",
               "primitive names are free of the syntax characters and do not start with 'var'; two primitives share a name only "
               "as type instances of one polymorphic primitive (ite at int and at bool), and a written name then denotes both",
               "nested patterns do not repeat the head of an enclosing pattern (the property's exception)",
               "the base grammar has at least one program (CFG.depth_constraint raises otherwise: C01 finding)",
               "name lists inside tokens are compared as sets"]

CAP = 1500


def cps(s):
    return [ord(c) for c in s]


def txt(c):
    return "".join(chr(x) for x in c)


# ----------------------------------------------------------------------------
# base grammars
# ----------------------------------------------------------------------------
def gen_base(rng, family):
    I, B = S.INT, S.BOOL
    prims = []
    if family == "F1":
        for n in rng.sample([5, 6, 7], rng.randint(1, 3)):
            prims.append([n, I])
        for n in rng.sample([4, 20], rng.randint(0, 2)):
            prims.append([n, S.ARROW(I, I)])
        for n in rng.sample([0, 1, 2], rng.randint(1, 2)):
            prims.append([n, S.ARROW(I, I, I)])
        request = S.ARROW(*([I] * rng.choice([0, 1, 1, 1, 2])), I)
    elif family == "F3":
        # higher-order: partial applications sit in arrow-typed non-terminals
        for n in rng.sample([5, 6], rng.randint(1, 2)):
            prims.append([n, I])
        prims.append([100, S.ARROW(S.ARROW(I, I), I, I)])            # apply
        prims.append([rng.choice([0, 1]), S.ARROW(I, I, I)])
        if rng.random() < 0.6:
            prims.append([4, S.ARROW(I, I)])
        request = S.ARROW(*([I] * rng.choice([0, 1, 1])), I)
    else:
        for n in rng.sample([5, 6], rng.randint(1, 2)):
            prims.append([n, I])
        if rng.random() < 0.5:
            prims.append([31, B])
        prims.append([rng.choice([8, 9]), S.ARROW(I, I, B)])
        if rng.random() < 0.5:
            prims.append([10, S.ARROW(B, B)])
        if rng.random() < 0.6:
            prims.append([12, S.ARROW(B, I, I, I)])
            if rng.random() < 0.5:
                # second type instance of the same name (a polymorphic primitive
                # instantiated at int and at bool): a written name denotes both
                prims.append([12, S.ARROW(B, B, B, B)])
        if rng.random() < 0.7:
            prims.append([rng.choice([0, 1]), S.ARROW(I, I, I)])
        if rng.random() < 0.3:
            prims.append([4, S.ARROW(I, I)])
        request = rng.choice([S.ARROW(I, I), S.ARROW(B, I, I), S.ARROW(I, I, B), S.ARROW(I, B), I])
    rng.shuffle(prims)
    forbidden = []
    funs = [p for p in prims if p[1][0] == 1]
    if funs and rng.random() < 0.35:
        f = rng.choice(funs)
        i = rng.randrange(len(D.arrow_parts(f[1])[0]))
        forbidden.append([[f[0], i], sorted(set(rng.choice(prims)[0] for _ in range(rng.randint(1, 2))))])
    return {"family": family, "prims": prims, "forbidden": forbidden, "request": request, "const_types": []}


def heads_of(dsl):
    rargs, _ = D.arrow_parts(dsl["request"])
    return [[0, n, pt] for n, pt in dsl["prims"]] + [[1, i, a] for i, a in enumerate(rargs)]


def count_terms(dsl, t, d, memo):
    key = (json.dumps(t), d)
    if key in memo:
        return memo[key]
    n = 0
    if d >= 1:
        for h in heads_of(dsl):
            if h[2] == t:
                n += 1
    if d >= 2:
        for h in heads_of(dsl):
            args = D.ends_with(h[2], t)
            if not args:
                continue
            k = 1
            for a in args:
                k *= count_terms(dsl, a, d - 1, memo)
            n += k
    memo[key] = n
    return n


def all_terms(dsl, t, d, memo):
    key = (json.dumps(t), d)
    if key in memo:
        return memo[key]
    out = []
    if d >= 1:
        for h in heads_of(dsl):
            if h[2] == t:
                out.append([0, h])
    if d >= 2:
        for h in heads_of(dsl):
            args = D.ends_with(h[2], t)
            if not args:
                continue
            combos = [[]]
            for a in args:
                sub = all_terms(dsl, a, d - 1, memo)
                combos = [c + [x] for c in combos for x in sub]
            for c in combos:
                out.append([1, h] + c)
    memo[key] = out
    return out


def random_term(rng, dsl, t, d, cmemo):
    leaves = [h for h in heads_of(dsl) if h[2] == t]
    funs = []
    if d >= 2:
        for h in heads_of(dsl):
            args = D.ends_with(h[2], t)
            if args and all(count_terms(dsl, a, d - 1, cmemo) > 0 for a in args):
                funs.append((h, args))
    if not leaves and not funs:
        return None
    if funs and (not leaves or rng.random() < 0.8):
        h, args = rng.choice(funs)
        return [1, h] + [random_term(rng, dsl, a, d - 1, cmemo) for a in args]
    return [0, rng.choice(leaves)]


def candidates(rng, dsl, max_depth, cap):
    _, ret = D.arrow_parts(dsl["request"])
    cmemo = {}
    n = count_terms(dsl, ret, max_depth, cmemo)
    if n <= cap:
        progs = list(all_terms(dsl, ret, max_depth, {}))
        complete = True
    else:
        progs, seen = [], set()
        # every small term, then random larger ones
        for p in all_terms(dsl, ret, 2, {}):
            seen.add(json.dumps(p))
            progs.append(p)
        tries = 0
        while len(progs) < cap and tries < 20 * cap:
            tries += 1
            p = random_term(rng, dsl, ret, max_depth, cmemo)
            k = json.dumps(p)
            if p is not None and k not in seen:
                seen.add(k)
                progs.append(p)
        complete = False
    extra = []
    for _ in range(40):
        p = random_term(rng, dsl, ret, max_depth + 1, cmemo)
        if p is not None and P.prog_depth(p) == max_depth + 1:
            extra.append(p)
    for b in (S.INT, S.BOOL):
        if b != ret:
            for _ in range(6):
                p = random_term(rng, dsl, b, min(max_depth, 2), cmemo)
                if p is not None:
                    extra.append(p)
    extra += D.mutants(rng, progs[:200], dsl, 12)
    seen = set(json.dumps(p) for p in progs)
    for p in extra:
        k = json.dumps(p)
        if k not in seen:
            seen.add(k)
            progs.append(p)
    return progs, complete


# ----------------------------------------------------------------------------
# constraint strings
# ----------------------------------------------------------------------------
class Voc:
    def __init__(self, names, funs, nvars):
        self.names = names                 # printed names of all primitives
        self.funs = funs                   # (name, arity)
        self.vars = ["var%d" % i for i in nvars]
        self.pool = names + self.vars


def nset(rng, voc, any_p=0.1, compl_p=0.2, pool=None):
    if rng.random() < any_p:
        return "_"
    pool = pool or voc.pool
    k = min(len(pool), rng.choice([1, 1, 1, 2, 2, 3]))
    el = rng.sample(pool, k)
    if rng.random() < 0.06:
        el.append("nosuch")
    s = ",".join(el)
    if rng.random() < compl_p:
        return "^" + s
    if rng.random() < 0.05:
        return "{" + s + "}"
    return s


def count_rule(rng, voc):
    ns = nset(rng, voc, any_p=0.08, compl_p=0.08)
    l, r = rng.choice(["()", "()", "()", "[]"])
    return "#%s%s%s%s%d" % (l, ns, r, rng.choice(["<=", ">="]), rng.randint(0, 3))


def subtree_rule(rng, voc):
    return ">%s(%s)" % ("^" if rng.random() < 0.5 else "", nset(rng, voc, any_p=0.03, compl_p=0.05))


def fun_pattern(rng, voc, level, enclosing):
    avail = [f for f in voc.funs if f[0] not in enclosing]
    if not avail:
        return nset(rng, voc)
    f = rng.choice(avail)
    heads = [f[0]]
    if rng.random() < 0.15:
        same = [g[0] for g in avail if g[1] == f[1] and g[0] != f[0]]
        if same:
            heads.append(rng.choice(same))
    r = rng.random()
    head = ",".join(heads)
    if r < 0.04 and level == 0:
        head = "nosuch"
    elif r < 0.08:
        head = "^" + ",".join(n for n in voc.pool if n not in heads)     # complement spelling of the same head set
    ar = f[1] + rng.choice([0, 0, 0, 0, 0, 0, -1, 1])
    args = [arg_pattern(rng, voc, level + 1, enclosing + heads) for _ in range(max(0, ar))]
    return "(" + " ".join([head] + args) + ")"


def arg_pattern(rng, voc, level, enclosing):
    r = rng.random()
    if r < 0.33:
        return "_"
    if r < 0.6:
        return nset(rng, voc, any_p=0.0, compl_p=0.45)
    if r < 0.74:
        return count_rule(rng, voc)
    if r < 0.84:
        return subtree_rule(rng, voc)
    if level <= 2:
        return fun_pattern(rng, voc, level, enclosing)
    return nset(rng, voc, any_p=0.0, compl_p=0.45)


def blowup(text, arity):
    """__count__ multiplies the number of transitions of arity k by (number of
    counter values)^k whatever is reachable, and the __tag__ that follows by up
    to 2^k: bound the product so that one case stays around a second on both
    sides (the model's reduce is quadratic in the number of transitions)."""
    import re
    f = 1
    for op, n in re.findall(r"#[^ ]*?(<=|>=)(\d+)", text):
        f *= ((int(n) + (2 if op == "<=" else 1)) * 2) ** arity
    f *= (4 ** arity) ** len(re.findall(r">\^?[(\[]", text))
    return f


BUDGET = 2500


def within_budget(rng, voc, make):
    k = max(a for _, a in voc.funs)
    for _ in range(30):
        s = make()
        if blowup(s, k) <= BUDGET:
            return s
    return fun_pattern(rng, voc, 3, [])        # no nesting, checked below


def gen_constraint(rng, voc):
    if rng.random() < 0.03:
        return within_budget(rng, voc, lambda: count_rule(rng, voc))     # unsupported as a local constraint
    return within_budget(rng, voc, lambda: fun_pattern(rng, voc, 0, []))


def gen_sketch(rng, voc):
    r = rng.random()
    if r < 0.7:
        return within_budget(rng, voc, lambda: fun_pattern(rng, voc, 0, []))
    if r < 0.85:
        return within_budget(rng, voc, lambda: count_rule(rng, voc))
    if r < 0.95:
        return subtree_rule(rng, voc)
    return nset(rng, voc, any_p=0.2, compl_p=0.1)


def voc_of(dsl):
    names = list(dict.fromkeys(S.prim_name(n) for n, _ in dsl["prims"]))
    funs = list(dict.fromkeys((S.prim_name(n), len(D.arrow_parts(t)[0])) for n, t in dsl["prims"] if t[0] == 1))
    rargs, _ = D.arrow_parts(dsl["request"])
    return Voc(names, funs, list(range(len(rargs))))


def gen_sharpen(rng, tier, n):
    cases = []
    while len(cases) < n:
        family = rng.choice(["F1", "F1", "F2", "F1", "F1", "F2", "F3"])
        dsl = gen_base(rng, family)
        max_depth = rng.choice([2, 3, 3, 3, 3, 4])
        _, ret = D.arrow_parts(dsl["request"])
        if count_terms(dsl, ret, max_depth, {}) == 0:
            continue
        if max_depth == 4 and len([p for p in dsl["prims"] if len(D.arrow_parts(p[1])[0]) >= 2]) > 1:
            max_depth = 3
        min_var = rng.choice([0, 1, 1])
        voc = voc_of(dsl)
        if not voc.funs:
            continue
        cons = [gen_constraint(rng, voc) for _ in range(rng.choice([0, 1, 1, 1, 2, 2, 3]))]
        sketch = [gen_sketch(rng, voc)] if rng.random() < 0.45 else []
        if not cons and not sketch:
            continue
        if any(blowup(c, max(a for _, a in voc.funs)) > BUDGET for c in cons + sketch):
            continue
        progs, complete = candidates(rng, dsl, max_depth, CAP if tier == "quick" else 2 * CAP)
        params = [dsl["prims"], dsl["forbidden"], dsl["request"], max_depth, min_var, 2, []]
        names = [[n_, cps(S.prim_name(n_))] for n_, _ in dsl["prims"]]
        cases.append({"kind": "sharpen/" + family, "complete": complete,
                      "data": [params, names, [cps(c) for c in cons], [cps(s) for s in sketch], progs]})
    return cases


# ----------------------------------------------------------------------------
# parser cases
# ----------------------------------------------------------------------------
def gen_parse(rng, n):
    cases = []
    I, B = S.INT, S.BOOL
    for _ in range(n):
        ids = rng.sample([0, 1, 2, 4, 5, 6, 7, 8, 10, 12, 20, 31, 100, 101, 102], rng.randint(2, 6))
        prims = []
        funs = []
        for i in ids:
            ar = rng.choice([0, 1, 2]) if i >= 100 else S.PRIMS[i][1]
            t = S.ARROW(*([I] * ar), I)
            prims.append([cps(S.prim_name(i)), [0, i, t]])
            if ar:
                funs.append((S.prim_name(i), ar))
        varnos = sorted(rng.sample([0, 1, 2, 3], rng.randint(0, 3)))
        vars_ = [[k, [1, k, rng.choice([I, B])]] for k in varnos]
        rng.shuffle(vars_)
        voc = Voc([txt(p[0]) for p in prims], funs or [(txt(prims[0][0]), 1)], varnos)
        r = rng.random()
        if r < 0.55:
            s = fun_pattern(rng, voc, 0, [])
        elif r < 0.7:
            s = count_rule(rng, voc)
        elif r < 0.8:
            s = subtree_rule(rng, voc)
        elif r < 0.9:
            s = nset(rng, voc)
        else:
            s = fun_pattern(rng, voc, 0, [])
            k = rng.randrange(len(s) + 1)
            s = s[:k] + rng.choice(["(", ")", " ", "#", "^", ",", "var", "var9", "<=", "_", "[", "]", "\n", "  "]) + s[k:]
        if rng.random() < 0.1:
            s = s.replace("var0", "var%d" % rng.randint(0, 4))
        cases.append({"kind": "parse", "data": [[prims, vars_], cps(s)]})
    return cases


def gen(rng, tier):
    n_sh, n_pa = (120, 600) if tier == "quick" else (900, 6000)
    child = random.Random(rng.getrandbits(64))
    return gen_parse(child, n_pa) + gen_sharpen(rng, tier, n_sh)


# ----------------------------------------------------------------------------
# model side
# ----------------------------------------------------------------------------
def to_model(case):
    if case["kind"] == "parse":
        return (1, case["data"])
    return (2, case["data"])


def canon_syms(l):
    return sorted(set(json.dumps(x) for x in l))


def canon_token(t):
    k = t[0]
    if k == 0:
        return [0]
    if k in (1, 4, 5):
        return [k, canon_syms(t[1])]
    if k in (2, 3):
        return [k, canon_syms(t[1]), t[2]]
    return [6, canon_syms(t[1]), [canon_token(a) for a in t[2]]]


def canon_opt(o):
    """[] | [token] from the model, {"exc":..} | [token] from the implementation"""
    if isinstance(o, dict) or o == []:
        return None
    return canon_token(o[0])


STATUS = {0: "ok", 1: "parse-exception", 2: "unsupported-topmost-token", 3: "model-error"}


def side(x):
    st, acc, has, toks, sk = x
    return {"status": st, "accepted": acc, "has_run": has,
            "tokens": sorted(json.dumps(canon_token(t)) for t in toks), "sketch": canon_opt(sk)}


def model_obs(case, raw):
    if case["kind"] == "parse":
        return {"pinned": canon_opt(raw[0]), "fixed": canon_opt(raw[1])}
    fixed, pinned, spec, base, relaxed, base_auto = raw
    mo = {"fixed": side(fixed), "pinned": side(pinned), "spec": spec, "base": base, "relaxed": relaxed,
          "base_auto": base_auto}
    f = mo["fixed"]
    if f["status"] == 3 or mo["pinned"]["status"] == 3 or base_auto == [-3]:
        raise RuntimeError("C05 model ran out of fuel (excluded by C05_sharpen)")
    if f["status"] == 0:
        # consequences of C05_sharpen / C05_cfg2dfta_sandwich, re-checked on the extracted code
        for a, s, b, r, ba in zip(f["accepted"], spec, base, relaxed, base_auto):
            if (b and a != s) or (a and not ba) or (ba and not r) or (b and not ba) or (s and not a):
                raise RuntimeError("C05 model: extracted automaton contradicts C05_sharpen")
    return mo


def impl_tokens(io):
    toks = []
    for t in io.get("tokens", []):
        c = canon_opt(t)
        toks.append(json.dumps(c) if c is not None else "exc")
    return sorted(toks)


def agree(case, io, mo):
    if not isinstance(io, dict) or "crash" in io or "hang" in io:
        return False
    if case["kind"] == "parse":
        return canon_opt(io.get("token", {})) == mo["fixed"]
    f = mo["fixed"]
    if io.get("base") != mo["base"]:
        return False
    if f["status"] != 0:
        return "exc" in io
    if "accepted" not in io:
        return False
    if io["accepted"] != mo["spec"]:
        return False
    # DFTAFilter.accept is "has a run"; an accepted program has one
    if io["filter"] != io["has_run"] or any(a and not h for a, h in zip(io["accepted"], io["has_run"])):
        return False
    return impl_tokens(io) == f["tokens"] and canon_opt(io["sketch"] or []) == f["sketch"]


def explains(io, s):
    """the implementation behaves exactly like the model automaton built by side s"""
    if s["status"] != 0:
        return "exc" in io
    return ("accepted" in io and io["accepted"] == s["accepted"] and io["has_run"] == s["has_run"]
            and io["filter"] == io["has_run"]
            and impl_tokens(io) == s["tokens"] and canon_opt(io["sketch"] or []) == s["sketch"])


def texts_of(case):
    _, _, cons, sketch, _ = case["data"]
    return [txt(c) for c in cons] + [txt(s) for s in sketch]


def classify(case, io, mo):
    if not isinstance(io, dict) or "crash" in io or "hang" in io:
        return None
    if case["kind"] == "parse":
        if canon_opt(io.get("token", {})) == mo["pinned"] and mo["pinned"] != mo["fixed"]:
            return parser_finding([mo["fixed"]], [mo["pinned"]])
        return None
    if io.get("base") != mo["base"]:
        return None
    f, p = mo["fixed"], mo["pinned"]
    if explains(io, f):
        # same automaton as the model of the pipeline: the only difference with
        # the specification is what __cfg2dfta__ forgets (C05_cfg2dfta_sandwich)
        if f["status"] == 0 and all((a == s) or (a and not b and r) for a, s, b, r in
                                    zip(io["accepted"], mo["spec"], mo["base"], mo["relaxed"])):
            return "c05_cfg2dfta_forgets_context"
        return None
    if explains(io, p) and (p["tokens"] != f["tokens"] or p["sketch"] != f["sketch"] or p["status"] != f["status"]):
        return parser_finding([json.loads(t) for t in f["tokens"]] + [f["sketch"]],
                              [json.loads(t) for t in p["tokens"]] + [p["sketch"]])
    return None


def drop_heads(t):
    """what the pinned parser makes of a token of the repaired one when the only
    difference is C05-2: a pattern whose arguments are all Anything is Anything"""
    if t is None or t[0] != 6:
        return t
    args = [drop_heads(a) for a in t[2]]
    if all(a == [0] for a in args):
        return [0]
    return [6, t[1], args]


def parser_finding(fixed_tokens, pinned_tokens):
    """fixed_tokens / pinned_tokens: canonical tokens (None = exception)"""
    if sorted(json.dumps(drop_heads(t)) for t in fixed_tokens) == sorted(json.dumps(t) for t in pinned_tokens):
        return "c05_parser_all_anything_arguments_drop_head"
    return "c05_parser_name_sets_in_count_and_subtree"


def nontrivial(case, mo):
    if case["kind"] == "parse":
        return mo["fixed"] is not None and mo["fixed"] != [0]
    if mo["fixed"]["status"] != 0:
        return False
    return any(mo["spec"]) and mo["spec"] != mo["base"]


def describe(case, mo):
    if case["kind"] == "parse":
        (prims, vars_), c = case["data"]
        return {"kind": "parse", "primitives": [txt(p[0]) for p in prims], "variables": sorted(v[0] for v in vars_),
                "text": txt(c), "token": mo["fixed"], "token_pinned": mo["pinned"]}
    params, names, cons, sketch, progs = case["data"]
    return {"kind": case["kind"],
            "dsl": {S.prim_name(n): show_ty(t) for n, t in params[0]},
            "forbidden": [[S.prim_name(k[0]), k[1], [S.prim_name(x) for x in v]] for k, v in params[1]],
            "request": show_ty(params[2]), "max_depth": params[3], "min_variable_depth": params[4],
            "constraints": [txt(c) for c in cons], "sketch": [txt(s) for s in sketch],
            "status": STATUS.get(mo["fixed"]["status"]),
            "candidates": len(progs), "in_base": sum(mo["base"]), "kept": sum(mo["spec"]),
            "first": [[P.show_prog(p), b, s] for p, b, s in list(zip(progs, mo["base"], mo["spec"]))[:6]]}


def show_ty(t):
    if t[0] == 0:
        return S.TYPE_NAMES.get(t[1], "t%d" % t[1])
    return "(%s -> %s)" % (show_ty(t[1]), show_ty(t[2]))


def shrink(case):
    if case["kind"] == "parse":
        tb, c = case["data"]
        for i in range(len(c)):
            yield {"kind": "parse", "data": [tb, c[:i] + c[i + 1:]]}
        prims, vars_ = tb
        for i in range(len(prims)):
            yield {"kind": "parse", "data": [[prims[:i] + prims[i + 1:], vars_], c]}
        for i in range(len(vars_)):
            yield {"kind": "parse", "data": [[prims, vars_[:i] + vars_[i + 1:]], c]}
        return
    params, names, cons, sketch, progs = case["data"]
    k = case["kind"]

    def mk(params=params, cons=cons, sketch=sketch, progs=progs):
        return {"kind": k, "complete": False, "data": [params, names, cons, sketch, progs]}
    if len(progs) > 1:
        h = len(progs) // 2
        yield mk(progs=progs[:h])
        yield mk(progs=progs[h:])
        if len(progs) <= 8:
            for i in range(len(progs)):
                yield mk(progs=progs[:i] + progs[i + 1:])
    for i in range(len(cons)):
        yield mk(cons=cons[:i] + cons[i + 1:])
    if sketch:
        yield mk(sketch=[])
    if params[1]:
        yield mk(params=[params[0], []] + params[2:])
    if params[3] > 2 and all(P.prog_depth(p) < params[3] for p in progs):
        yield mk(params=params[:3] + [params[3] - 1] + params[4:])
    if len(progs) <= 4:
        used = set()
        for p in progs:
            for q in P.subprogs(p):
                if q[1][0] == 0:
                    used.add(q[1][1])
        text = " ".join(txt(c) for c in cons + sketch)
        for i, (n, t) in enumerate(params[0]):
            if n not in used and S.prim_name(n) not in text:
                yield mk(params=[params[0][:i] + params[0][i + 1:], [f for f in params[1] if f[0][0] != n]] + params[2:])


def theorem_for(case):
    if case["kind"] == "parse":
        return ("correspondence with Auto/SpecParser.parse_specification; C05_parser_roundtrip (parse (show pattern) = its "
                "documented meaning), C05_parser_denotation, C05_parser_unknown_symbol")
    return ("C05_sharpen_text + C05_sharpen (uaccepts D (tree_of p) = contains P p && forallb sat_everywhere cs && sat_root sk) "
            "and, without its hypotheses min_var = 0 /\\ forbidden = [], C05_sharpen_sandwich (known finding "
            "c05_cfg2dfta_forgets_context)")
