"""Implementation side of C08: builds an unambiguous grammar with the real code,
gives it exact dyadic weights (every float operation of the splitter is then
exact), calls grammar_splitter.split under its own time limit and observes the
result from outside: exception class and where it was raised, where a run that
does not return is (balance loop or reconstruction), numpy warnings,
membership and probability() of every program of the original language in
every fragment, programs() of every fragment, the returned ratio.  The groups
of prefix nodes and the ratio computed by the balance loop are captured by
wrapping the module level function __split_into_nodes__ (no source change).
The implementation's own rule table and weights are serialised for the Coq
model (wire format of Run/C04.v entry 2)."""
import math
import random
import signal
import time
import traceback
import warnings
from fractions import Fraction

from synth.syntax.grammars.cfg import CFG
from synth.syntax.grammars.u_cfg import UCFG
from synth.syntax.grammars.tagged_u_grammar import ProbUGrammar
import synth.syntax.grammars.enumeration.grammar_splitter as GS
from lib import objs as O
from props.c01_impl import build_dsl
from props.c04_impl import u_nt, u_table, u_weights, u_language, qwire

CAP = 160           # largest language split
EXACT_BITS = 40     # node probabilities are multiples of 2^-EXACT_BITS at worst: sums exact in binary64
SPLIT_LIMIT = 3     # seconds; the code as found needs < 0.01 s on these grammars unless it cycles


def build_grammar(kind, gp):
    prims, forbidden, request, bound, min_var, n_gram, const_types, constraint = gp
    treq = O.ty(request)
    consts = {O.ty(t) for t in const_types}
    note = ""
    while True:
        dsl = build_dsl(prims, forbidden)
        g = CFG.depth_constraint(dsl, treq, bound, min_var, n_gram, False, consts)
        n = g.programs()
        if 0 <= n <= CAP or bound <= 1:
            break
        bound -= 1
    # small language: try deeper bounds as long as the language stays below the cap
    for extra in (1, 2):
        if n >= 20:
            break
        g2 = CFG.depth_constraint(dsl, treq, bound + 1, min_var, n_gram, False, consts)
        n2 = g2.programs()
        if not (n < n2 <= CAP):
            break
        g, n, bound = g2, n2, bound + 1
    if kind == "udfta":
        from synth.filter.constraints.dfta_constraints import add_dfta_constraints
        try:
            dfta = add_dfta_constraints(g, [constraint], progress=False)
            return UCFG.from_DFTA(dfta), bound, note
        except Exception as e:      # sharpening is the subject of C05
            note = "sharpening failed (%s), plain UCFG used" % type(e).__name__
    return UCFG.from_CFG(g, True), bound, note


def composition(rng, total, parts, flavour):
    """parts positive integers summing to total"""
    if parts > total:
        return None
    out = [1] * parts
    rest = total - parts
    if flavour == "even":
        # as equal as possible: many ties, as with uniform()
        for k in range(rest):
            out[k % parts] += 1
        return out
    if flavour == "skewed":
        # most of the mass on one alternative
        k = rng.randrange(parts)
        big = rest - rng.randint(0, min(rest, parts))
        out[k] += big
        rest -= big
    for _ in range(rest):
        out[rng.randrange(parts)] += 1
    return out


def dyadic_table(rng, keys, flavour, extra_bit):
    """exact weights k / 2^m summing to 1 over the keys"""
    n = len(keys)
    m = 0
    while (1 << m) < n:
        m += 1
    if flavour != "even" or (1 << m) == n:
        m += 1 if extra_bit else 0
    if m == 0:
        return {keys[0]: 1.0}, 0
    comp = composition(rng, 1 << m, n, flavour)
    return {k: c / float(1 << m) for k, c in zip(keys, comp)}, m


def weigh(g, wmode, wseed, max_len):
    """Weights k/2^m summing exactly to 1 at every non-terminal (every float operation of the
    splitter is then exact).  Returns (pgrammar, bits)."""
    rng = random.Random(wseed)
    flavour = {"dyadic-even": "even", "dyadic-skewed": "skewed"}.get(wmode, "random")
    # one more bit of resolution when the products stay small
    need = 0
    for S in g.rules:
        n = sum(len(der) for der in g.rules[S].values())
        need = max(need, (n - 1).bit_length())
    extra_bit = (need + 1) * (max_len + 1) <= EXACT_BITS and rng.random() < 0.6
    bits = 0
    tags = {}
    for S in g.rules:
        keys = [(P, tuple(alt)) for P, der in g.rules[S].items() for alt in der]
        tab, m = dyadic_table(rng, keys, flavour, extra_bit)
        bits = max(bits, m)
        tags[S] = {}
        for (P, alt), q in tab.items():
            tags[S].setdefault(P, {})[alt] = q
    stab, m = dyadic_table(rng, list(g.starts), flavour, extra_bit)
    bits = max(bits, m)
    return ProbUGrammar(g, tags, dict(stab)), bits


def node_wire(node):
    start = node.derivation_history[0] if node.derivation_history else node.for_next_derivation[1]
    return [u_nt(start), [[O.sym_wire(P), [u_nt(a) for a in v]] for P, v in zip(node.program, node.choices)],
            qwire(float(node.probability))]


def fwire(x):
    x = float(x)
    if math.isinf(x) or math.isnan(x):
        return {"float": repr(x)}
    return qwire(x)


class _SplitTimeout(BaseException):
    pass


def run_split(pg, splits, ratio, out):
    """split() under its own time limit; a run that does not return is an observable: where it was
    (balance loop or reconstruction) is read from the stack at the time of the alarm."""
    captured = []
    original = getattr(GS, "__split_into_nodes__", None)
    if original is not None:
        def wrapper(*a, **k):
            res = original(*a, **k)
            try:
                groups, r = res
                captured.append(([[node_wire(n) for n in grp] for grp in groups], fwire(r)))
            except Exception:
                captured.append((None, None))
            return res
        GS.__split_into_nodes__ = wrapper
    where = []

    def on_alarm(signum, frame):
        names = []
        while frame is not None:
            names.append(frame.f_code.co_name)
            frame = frame.f_back
        where.extend(names)
        raise _SplitTimeout()

    outer_left = signal.alarm(0)
    old_handler = signal.signal(signal.SIGALRM, on_alarm)
    t0 = time.time()
    try:
        with warnings.catch_warnings(record=True) as caught:
            warnings.simplefilter("always")
            signal.alarm(SPLIT_LIMIT)
            try:
                fragments, returned = GS.split(pg, splits, ratio)
            except _SplitTimeout:
                out["hang"] = "reconstruction" if "__pcfg_from__" in where else "loop"
                fragments = returned = None
            except Exception as e:
                chain = [f.name for f in traceback.extract_tb(e.__traceback__)]
                out["exc"] = {"type": type(e).__name__, "msg": str(e)[:200], "where": chain[-1] if chain else "",
                              "in_reconstruction": "__pcfg_from__" in chain}
                fragments = returned = None
            finally:
                signal.alarm(0)
        out["warnings"] = sorted({w.category.__name__ + ": " + str(w.message)[:80] for w in caught})
    finally:
        signal.signal(signal.SIGALRM, old_handler)
        if original is not None:
            GS.__split_into_nodes__ = original
        if outer_left:
            signal.alarm(max(1, outer_left - int(time.time() - t0)))
    out["seconds"] = round(time.time() - t0, 3)
    out["groups"] = captured[0][0] if captured else None
    out["loop_ratio"] = captured[0][1] if captured else None
    return fragments, returned


def impl(case):
    kind = case["kind"]
    gp, wmode, wseed, splits, ratio = case["data"]
    try:
        g, bound, note = build_grammar(kind, gp)
    except KeyError:
        return {"skipped": "grammar construction raised KeyError (empty language, recorded under C01)"}
    lang = u_language(g)
    if len(lang) > CAP or len(lang) < 2:
        return {"skipped": "language of %d programs" % len(lang)}
    splits = max(2, min(splits, len(lang), 8))
    max_len = max(prog_len(p) for p in lang)
    pg, bits = weigh(g, wmode, wseed, max_len)
    if bits * (max_len + 1) > EXACT_BITS:
        return {"skipped": "weights of %d bits and derivations of %d rules: float arithmetic would not be exact" % (bits, max_len)}
    out = {"bound": bound, "note": note, "splits": splits, "n_programs": len(lang), "exact": True, "bits": bits,
           "table": u_table(pg), "weights": u_weights(pg.tags),
           "start_weights": [[u_nt(S), qwire(q)] for S, q in pg.start_tags.items()],
           "programs": [O.prog_wire(p) for p in lang],
           "threshold": qwire(float(ratio)),
           "max_len": max_len}
    fragments, returned = run_split(pg, splits, ratio, out)
    if fragments is None:
        return out
    out["ratio"] = fwire(returned)
    out["n_fragments"] = len(fragments)
    member, prob, counts = [], [], []
    for f in fragments:
        row, prow = [], []
        for p in lang:
            try:
                b = p in f
            except Exception as e:
                b = {"exc": type(e).__name__}
            row.append(b if isinstance(b, dict) else int(b))
            if b is True:
                try:
                    prow.append(fwire(f.probability(p)))
                except Exception as e:
                    prow.append({"exc": type(e).__name__})
            else:
                prow.append(None)
        member.append(row)
        prob.append(prow)
        try:
            counts.append(int(f.programs()))
        except Exception as e:
            counts.append({"exc": type(e).__name__})
    out["member"] = member
    out["prob"] = prob
    out["counts"] = counts
    return out


def prog_len(p):
    from synth.syntax.program import Function
    if isinstance(p, Function):
        return 1 + sum(prog_len(a) for a in p.arguments)
    return 1
