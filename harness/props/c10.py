"""C10: a PBE solver returns the first enumerated program consistent with all
examples.  Generator side (no import of synth)."""
from lib import semantics as S
from lib import progs as P

ID = "C10"
IMPL_MODULE = "props.c10_impl"
HASHSEEDS = {"quick": [0, 1], "thorough": [0, 1, 2, 3]}
CASE_TIMEOUT = 30
RULE = ("tasks: ONE evaluator and ONE solver object (naive or cut-off) drive 1-4 tasks in a row; a task has 0-5 "
        "examples (naive: 1-5, see kind zero) over 1-4 input vectors shared by the tasks of the case, expected "
        "outputs taken from a target program (satisfiable) or random (unsatisfiable), None where the target fails; a "
        "stub enumerator replays 2-25 random well-typed programs (failing primitives, higher-order, duplicates, "
        "target hidden at a random rank or absent); the caller follows a random script of 1-9 "
        "next()/send(truthy|falsy) steps; random skip set, cache on or off.  Observed: per step the index of the "
        "yielded program / StopIteration / escaping exception class, and get_stats('programs') after each task.  "
        "non-trivial = some task yields a program of index >= 1 and some proposal is rejected and followed by "
        "another step.  zero: naive solver on a task without examples.")
ASSUMPTIONS = [
    "the wall clock never fires (timeout 1e9 s); the timeout branch is modelled but not exercised",
    "tasks are solved one after the other (two generators of one solver object are never interleaved); the first "
    "step of a generator is next()/send(None) as Python requires",
    "the enumerator is a finite replay of a program list; enumerator.probability is a constant (its statistic is "
    "not compared)",
    "the evaluator is the one of property C11 (cache state irrelevant by C11_history_independent; "
    "C10_cache_irrelevant); skip set and use_cache fixed for the life of the evaluator",
    "expected outputs have the type of the programs (result == output is Python equality, modelled by value_pyeq)",
    "RestartPBESolver is not modelled (only the _test_ it borrows from its sub-solver is)",
]

ALL_PRIMS = sorted(S.PRIMS)
VAR_TYPES = [[S.INT], [S.INT, S.INT], [S.LIST(S.INT)], [S.LIST(S.INT), S.INT], [S.INT, S.BOOL]]
OUT_TYPES = [S.INT, S.INT, S.INT, S.BOOL, S.LIST(S.INT), S.OPTINT]
TRUTHY = (1, 4, 7)
FINDING = "c10_naive_zero_examples"


# a small evaluator over wire programs, used ONLY to pick expected outputs that
# make tasks satisfiable (it is not an oracle: the model decides)
def ref_eval(w, inp):
    s = w[1]
    if s[0] == 0:
        f = S.prim_value(s[1])
    elif s[0] == 1:
        f = inp[s[1]]
    elif s[0] == 3:
        f = S.value_from_wire(s[2])
    else:
        f = None
    if w[0] == 0:
        return f
    args = [ref_eval(a, inp) for a in w[2:]]
    for a in args:
        f = f(a)
    return f


def target_output(rng, w, inp_wire, out_type):
    inp = [S.value_from_wire(v) for v in inp_wire]
    try:
        return S.value_to_wire(ref_eval(w, inp))
    except (ZeroDivisionError, IndexError, ValueError, TypeError):
        # the target fails here: expect None (what a skipped failure returns) or anything
        return [3] if rng.random() < 0.6 else P.gen_value(rng, out_type)


def wrap_same_type(rng, q, out_type, var_types):
    """A program of type out_type with q (of type out_type) as one argument, or None."""
    cands = []
    for n in ALL_PRIMS:
        args, r = P.arrow_parts(S.PRIMS[n][2])
        if r == out_type:
            for i, a in enumerate(args):
                if a == out_type:
                    cands.append((n, i, args))
    if not cands:
        return None
    n, i, args = rng.choice(cands)
    subs = [q if j == i else P.gen_prog(rng, a, rng.randint(1, 2), ALL_PRIMS, var_types) for j, a in enumerate(args)]
    if any(x is None for x in subs):
        return None
    return [1, [0, n, S.PRIMS[n][2]]] + subs


def gen_task(rng, var_types, inputs, out_type, pool, min_examples):
    n_ex = rng.choice([0, 1, 1, 2, 2, 3, 3, 4, 5])
    n_ex = max(n_ex, min_examples)
    target = rng.choice(pool)
    satisfiable = rng.random() < 0.7
    examples = []
    for _ in range(n_ex):
        inp = rng.choice(inputs)
        if satisfiable:
            out = target_output(rng, target, inp, out_type)
        else:
            out = P.gen_value(rng, out_type)
        examples.append([inp, out])
    n_progs = rng.randint(2, 25)
    progs = [rng.choice(pool) for _ in range(n_progs)]
    if satisfiable and rng.random() < 0.85:
        progs[rng.randrange(n_progs)] = target
        if rng.random() < 0.3:
            progs[rng.randrange(n_progs)] = target
    answers = [rng.choice([0, 0, 0, 3])]
    for _ in range(rng.randint(0, 8)):
        r = rng.random()
        if r < 0.25:
            answers.append(rng.choice([1, 1, 4, 7]))
        else:
            answers.append(rng.choice([0, 0, 0, 2, 2, 3, 5, 6]))
    return [examples, progs, answers]


def gen_case(rng, zero=False):
    var_types = rng.choice(VAR_TYPES)
    out_type = rng.choice(OUT_TYPES)
    inputs = []
    for _ in range(rng.randint(1, 4)):
        inp = [P.gen_value(rng, t) for t in var_types]
        if inp not in inputs:
            inputs.append(inp)
    pool = []
    for _ in range(rng.randint(6, 30)):
        p = P.gen_prog(rng, out_type, rng.choice([1, 2, 2, 3, 3, 4]), ALL_PRIMS, var_types)
        if p is not None:
            pool.append(p)
    if not pool:
        return None
    # larger programs having an earlier pool member as an argument (same result type): what an enumerator does,
    # and what makes the evaluator meet cached sub-programs (values and failures) left by earlier programs
    for _ in range(rng.randint(2, 10)):
        w = wrap_same_type(rng, rng.choice(pool), out_type, var_types)
        if w is not None:
            pool.append(w)
    kind = 0 if zero else rng.randint(0, 1)
    skip = sorted(rng.sample([0, 1, 2, 3], rng.choice([0, 1, 2, 2, 3, 4, 4, 4])))
    use_cache = 1 if rng.random() < 0.8 else 0
    if zero:
        tasks = []
        for _ in range(rng.randint(1, 2)):
            t = gen_task(rng, var_types, inputs, out_type, pool, 1)
            t[1] = t[1][:rng.randint(0, 4)]
            t[2] = t[2][:4]
            tasks.append(t)
        tasks[rng.randrange(len(tasks))][0] = []
        return {"kind": "zero", "data": [kind, use_cache, skip, S.ARROW(*var_types, out_type), tasks]}
    tasks = [gen_task(rng, var_types, inputs, out_type, pool, 1 if kind == 0 else 0) for _ in range(rng.randint(1, 4))]
    return {"kind": "tasks", "data": [kind, use_cache, skip, S.ARROW(*var_types, out_type), tasks]}


def gen(rng, tier):
    n_tasks, n_zero = (320, 4) if tier == "quick" else (5000, 40)
    cases = []
    for _ in range(n_zero):
        c = gen_case(rng, zero=True)
        if c is not None:
            cases.append(c)
    for _ in range(n_tasks):
        c = gen_case(rng)
        if c is not None:
            if rng.random() < 0.2:
                c["decoy"] = 1
            cases.append(c)
    return cases


def to_model(case):
    kind, use_cache, skip, request, tasks = case["data"]
    return (1, [kind, skip, tasks])


def model_obs(case, raw):
    return {"spec": raw[0], "pinned": raw[1]}


def agree(case, impl_obs, model_obs):
    return impl_obs == model_obs["spec"]


def nontrivial(case, mo):
    kind, use_cache, skip, request, tasks = case["data"]
    deep = False
    rejected = False
    for (examples, progs, answers), (events, total) in zip(tasks, mo["spec"]):
        for i, e in enumerate(events):
            if e[0] == 0 and e[1] >= 1:
                deep = True
            if e[0] == 0 and i + 1 < len(events) and answers[i + 1] not in TRUTHY:
                rejected = True
    return deep and rejected


ANSWER_NAMES = {0: "next()", 1: "send(True)", 2: "send(False)", 3: "send(None)", 4: "send(1)", 5: "send(0)",
                6: "send([])", 7: "send('no')"}


def show_event(e):
    if e[0] == 0:
        return "yield #%d" % e[1]
    if e[0] == 1:
        return "StopIteration"
    return "raises %s" % (S.EXC_BY_ID[e[1]].__name__ if len(e) == 2 and e[1] in S.EXC_BY_ID else e[1:])


def describe(case, mo):
    kind, use_cache, skip, request, tasks = case["data"]
    out = {"kind": case["kind"], "solver": ["naive", "cutoff"][kind], "use_cache": bool(use_cache),
           "skip": [S.EXC_BY_ID[i].__name__ for i in skip], "tasks": []}
    for (examples, progs, answers), (events, total) in list(zip(tasks, mo["spec"]))[:2]:
        out["tasks"].append({
            "examples": ["%r -> %r" % ([S.value_from_wire(v) for v in i], S.value_from_wire(o)) for i, o in examples],
            "programs": [P.show_prog(p) for p in progs[:10]], "n_programs": len(progs),
            "script": [ANSWER_NAMES[a] for a in answers],
            "expected_events": [show_event(e) for e in events], "expected_programs_stat": total})
    out["n_tasks"] = len(tasks)
    return out


def shrink(case):
    if case["kind"] == "zero":
        return
    kind, use_cache, skip, request, tasks = case["data"]

    def mk(ts):
        c = {"kind": "tasks", "data": [kind, use_cache, skip, request, ts]}
        if case.get("decoy"):
            c["decoy"] = 1
        return c

    if len(tasks) > 1:
        for i in range(len(tasks)):
            yield mk(tasks[:i] + tasks[i + 1:])
    for ti, (examples, progs, answers) in enumerate(tasks):
        def rep(t):
            return mk(tasks[:ti] + [t] + tasks[ti + 1:])
        n = len(progs)
        if n > 1:
            yield rep([examples, progs[:n // 2], answers])
            yield rep([examples, progs[n // 2:], answers])
            if n <= 8:
                for i in range(n):
                    yield rep([examples, progs[:i] + progs[i + 1:], answers])
        if len(answers) > 1:
            yield rep([examples, progs, answers[:-1]])
        if len(tasks) <= 2:
            for i in range(len(examples)):
                yield rep([examples[:i] + examples[i + 1:], progs, answers])
            if n <= 3:
                for i, p in enumerate(progs):
                    if p[0] == 1:
                        for a in p[2:]:
                            yield rep([examples, progs[:i] + [a] + progs[i + 1:], answers])


def classify(case, impl_obs, model_obs):
    """The naive solver divides by the number of examples: on a task without
    examples ZeroDivisionError escapes at the first program.  Recognised only
    when the implementation does exactly what the model of that code does."""
    kind, use_cache, skip, request, tasks = case["data"]
    if kind != 0 or not any(len(t[0]) == 0 and len(t[1]) > 0 for t in tasks):
        return None
    if impl_obs == model_obs["pinned"] and impl_obs != model_obs["spec"]:
        return FINDING
    return None


def theorem_for(case):
    return ("C10_tasks / C10_yields (run_tasks = spec_tasks: per task the events are those of the protocol over the "
            "programs passing every example, in order, cut after the first accepted one) with C10_stats for the "
            "statistic and C10_raise for an escaping exception")
