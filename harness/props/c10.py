"""C10: a PBE solver returns the first enumerated program consistent with all
examples.  Generator side (no import of synth).  Kinds: tasks / zero (naive and
cut-off solvers, model entry 1), restart / restart_real (RestartPBESolver
around them, model entry 2)."""
from lib import semantics as S
from lib import progs as P

ID = "C10"
IMPL_MODULE = "props.c10_impl"
HASHSEEDS = {"quick": [0, 1], "thorough": [0, 1, 2, 3]}
CASE_TIMEOUT = 30
RULE = ("tasks: ONE evaluator and ONE solver object (naive or cut-off) drive 1-4 tasks in a row; a task has 0-5 "
        "examples (naive: 1-5, see kind zero) over 1-4 input vectors shared by the tasks of the case, expected "
        "outputs taken from a target program (satisfiable) or random (unsatisfiable), None where the target fails; a "
        "stub enumerator replays 2-25 random well-typed programs (failing primitives, higher-order, duplicates, "
        "target hidden at a random rank or absent); the caller follows a random script of 1-9 "
        "next()/send(truthy|falsy) steps; random skip set, cache on or off.  Observed: per step the index of the "
        "yielded program / StopIteration / escaping exception class, and get_stats('programs') after each task.  "
        "non-trivial = some task yields a program of index >= 1 and some proposal is rejected and followed by "
        "another step.  zero: naive solver on a task without examples.  "
        "restart: ONE RestartPBESolver (naive or cut-off sub-solver, uniform_prior 0.05/0.5/0.001) drives 1-2 tasks; "
        "the enumerator is a script of 1-6 enumerations of 0-16 random constant-free programs of depth <= 4 "
        "(enumeration i+1 is produced by the enumerator returned by the i-th clone(); the target is hidden anywhere, "
        "often FIRST in a later enumeration; a clone() past the script gives an empty enumeration); every scripted "
        "enumerator carries a real ProbDetGrammar (uniform over CFG.depth_constraint of the 33-primitive DSL, "
        "min_variable_depth 0) so that _restart_ really re-weights it; restart_criterion is "
        "len(_data) - _last_size > k (k 0..4), _programs % m == 0 (m 1..6) or len(_data) >= m (m 0..5); 0-5 "
        "examples; script of 1-12 next()/send() steps, mostly rejections.  Observed per task: the events (yield = "
        "rank of the program among the drawn ones / StopIteration / exception class), get_stats('programs'), "
        "get_stats('restarts'), the programs drawn from the successive generators, the programs handed to the "
        "sub-solver's _test_, the number of drawn programs at each clone(), solver._data (program rank, score), "
        "and that every grammar given to clone() has the rules of the initial one with normalised probabilities.  "
        "non-trivial = a restart happened and a program drawn after it is yielded.  "
        "restart_real: same solver and observables with the real heap search enumerator "
        "(enumerate_prob_grammar on a uniform depth 2-3 grammar over 4-7 integer primitives, its clone() is the real "
        "one) behind a logging wrapper that caps generator i at 3-60 programs and produces nothing after the 6th; one "
        "task, 1-4 examples, 1-10 steps; the enumerations actually produced are recorded and the extracted model "
        "replays them (run inside agree()).")
ASSUMPTIONS = [
    "the wall clock never fires (timeout 1e9 s); the timeout branch is modelled but not exercised",
    "tasks are solved one after the other (two generators of one solver object are never interleaved); the first "
    "step of a generator is next()/send(None) as Python requires",
    "the enumerator is a finite replay of a program list; enumerator.probability is a constant (its statistic is "
    "not compared)",
    "the evaluator is the one of property C11 (cache state irrelevant by C11_history_independent; "
    "C10_cache_irrelevant); skip set and use_cache fixed for the life of the evaluator",
    "expected outputs have the type of the programs (result == output is Python equality, modelled by value_pyeq)",
    "RestartPBESolver: the re-weighting done by _restart_ (reduce_derivations, uniform prior, normalise) is outside "
    "the model: only its effect on the solver object (_last_size) is modelled, and the grammar given to clone() is "
    "only checked to be normalised over the same rules; the enumerations of the cloned enumerators are inputs "
    "(scripted, or recorded from heap search); scripted programs belong to the enumerator's grammar and "
    "uniform_prior > 0 (otherwise _restart_ itself raises); the restart criterion is a function of the solver "
    "object only (three shapes exercised); one solver object per case and no reset_stats() between its tasks "
    "('programs' is then the count of the last closed task, 'restarts' accumulates: modelled as the code does)",
    "RestartPBESolver on an exhausted enumeration: the model follows proposed repair C10b-1 (the generator ends "
    "with StopIteration like the plain solvers); the unrepaired loop (RuntimeError) is kept as a pinned model and "
    "recognised as known finding c10_restart_exhausted_runtimeerror",
]

ALL_PRIMS = sorted(S.PRIMS)
VAR_TYPES = [[S.INT], [S.INT, S.INT], [S.LIST(S.INT)], [S.LIST(S.INT), S.INT], [S.INT, S.BOOL]]
OUT_TYPES = [S.INT, S.INT, S.INT, S.BOOL, S.LIST(S.INT), S.OPTINT]
TRUTHY = (1, 4, 7)
FINDING = "c10_naive_zero_examples"
FINDING_RESTART = "c10_restart_exhausted_runtimeerror"
E_RUNTIME = 100


# a small evaluator over wire programs, used ONLY to pick expected outputs that
# make tasks satisfiable (it is not an oracle: the model decides)
def ref_eval(w, inp):
    s = w[1]
    if s[0] == 0:
        f = S.prim_value(s[1])
    elif s[0] == 1:
        f = inp[s[1]]
    elif s[0] == 3:
        f = S.value_from_wire(s[2])
    else:
        f = None
    if w[0] == 0:
        return f
    args = [ref_eval(a, inp) for a in w[2:]]
    for a in args:
        f = f(a)
    return f


def target_output(rng, w, inp_wire, out_type):
    inp = [S.value_from_wire(v) for v in inp_wire]
    try:
        return S.value_to_wire(ref_eval(w, inp))
    except (ZeroDivisionError, IndexError, ValueError, TypeError):
        # the target fails here: expect None (what a skipped failure returns) or anything
        return [3] if rng.random() < 0.6 else P.gen_value(rng, out_type)


def wrap_same_type(rng, q, out_type, var_types):
    """A program of type out_type with q (of type out_type) as one argument, or None."""
    cands = []
    for n in ALL_PRIMS:
        args, r = P.arrow_parts(S.PRIMS[n][2])
        if r == out_type:
            for i, a in enumerate(args):
                if a == out_type:
                    cands.append((n, i, args))
    if not cands:
        return None
    n, i, args = rng.choice(cands)
    subs = [q if j == i else P.gen_prog(rng, a, rng.randint(1, 2), ALL_PRIMS, var_types) for j, a in enumerate(args)]
    if any(x is None for x in subs):
        return None
    return [1, [0, n, S.PRIMS[n][2]]] + subs


def gen_task(rng, var_types, inputs, out_type, pool, min_examples):
    n_ex = rng.choice([0, 1, 1, 2, 2, 3, 3, 4, 5])
    n_ex = max(n_ex, min_examples)
    target = rng.choice(pool)
    satisfiable = rng.random() < 0.7
    examples = []
    for _ in range(n_ex):
        inp = rng.choice(inputs)
        if satisfiable:
            out = target_output(rng, target, inp, out_type)
        else:
            out = P.gen_value(rng, out_type)
        examples.append([inp, out])
    n_progs = rng.randint(2, 25)
    progs = [rng.choice(pool) for _ in range(n_progs)]
    if satisfiable and rng.random() < 0.85:
        progs[rng.randrange(n_progs)] = target
        if rng.random() < 0.3:
            progs[rng.randrange(n_progs)] = target
    answers = [rng.choice([0, 0, 0, 3])]
    for _ in range(rng.randint(0, 8)):
        r = rng.random()
        if r < 0.25:
            answers.append(rng.choice([1, 1, 4, 7]))
        else:
            answers.append(rng.choice([0, 0, 0, 2, 2, 3, 5, 6]))
    return [examples, progs, answers]


def gen_case(rng, zero=False):
    var_types = rng.choice(VAR_TYPES)
    out_type = rng.choice(OUT_TYPES)
    inputs = []
    for _ in range(rng.randint(1, 4)):
        inp = [P.gen_value(rng, t) for t in var_types]
        if inp not in inputs:
            inputs.append(inp)
    pool = []
    for _ in range(rng.randint(6, 30)):
        p = P.gen_prog(rng, out_type, rng.choice([1, 2, 2, 3, 3, 4]), ALL_PRIMS, var_types)
        if p is not None:
            pool.append(p)
    if not pool:
        return None
    # larger programs having an earlier pool member as an argument (same result type): what an enumerator does,
    # and what makes the evaluator meet cached sub-programs (values and failures) left by earlier programs
    for _ in range(rng.randint(2, 10)):
        w = wrap_same_type(rng, rng.choice(pool), out_type, var_types)
        if w is not None:
            pool.append(w)
    kind = 0 if zero else rng.randint(0, 1)
    skip = sorted(rng.sample([0, 1, 2, 3], rng.choice([0, 1, 2, 2, 3, 4, 4, 4])))
    use_cache = 1 if rng.random() < 0.8 else 0
    if zero:
        tasks = []
        for _ in range(rng.randint(1, 2)):
            t = gen_task(rng, var_types, inputs, out_type, pool, 1)
            t[1] = t[1][:rng.randint(0, 4)]
            t[2] = t[2][:4]
            tasks.append(t)
        tasks[rng.randrange(len(tasks))][0] = []
        return {"kind": "zero", "data": [kind, use_cache, skip, S.ARROW(*var_types, out_type), tasks]}
    tasks = [gen_task(rng, var_types, inputs, out_type, pool, 1 if kind == 0 else 0) for _ in range(rng.randint(1, 4))]
    return {"kind": "tasks", "data": [kind, use_cache, skip, S.ARROW(*var_types, out_type), tasks]}


def gen_restart_task(rng, var_types, inputs, out_type, pool):
    n_ex = rng.choice([0, 1, 1, 2, 2, 3, 3, 4, 5])
    target = rng.choice(pool)
    satisfiable = rng.random() < 0.85
    examples = []
    for _ in range(n_ex):
        inp = rng.choice(inputs)
        if satisfiable and rng.random() < 0.92:
            out = target_output(rng, target, inp, out_type)
        else:
            out = P.gen_value(rng, out_type)
        examples.append([inp, out])
    n_streams = rng.choice([1, 2, 2, 3, 3, 4, 5])
    streams = [[rng.choice(pool) for _ in range(rng.choice([0, 1, 2, 3, 4, 6, 8, 12, 16]))] for _ in range(n_streams)]
    if not streams[0] and rng.random() < 0.8:
        streams[0] = [rng.choice(pool)]
    if satisfiable:
        for st in streams:
            if st and rng.random() < 0.5:
                st[rng.randrange(len(st))] = target
        for st in streams[1:]:
            # the most probable program of a re-weighted enumeration is typically a solution
            if st and rng.random() < 0.6:
                st[0] = target
    if rng.random() < 0.3:
        streams.append([])
    answers = [rng.choice([0, 0, 0, 3])]
    for _ in range(rng.choice([0, 1, 2, 3, 4, 5, 7, 11])):
        if rng.random() < 0.12:
            answers.append(rng.choice([1, 1, 4, 7]))
        else:
            answers.append(rng.choice([0, 0, 0, 2, 2, 3, 5, 6]))
    return [examples, streams, answers]


def gen_restart_case(rng):
    var_types = rng.choice(VAR_TYPES)
    out_type = rng.choice(OUT_TYPES)
    inputs = []
    for _ in range(rng.randint(1, 4)):
        inp = [P.gen_value(rng, t) for t in var_types]
        if inp not in inputs:
            inputs.append(inp)
    pool = []
    for _ in range(rng.randint(4, 20)):
        # no constants: the scripted programs must be derivable in CFG.depth_constraint of the DSL
        p = P.gen_prog(rng, out_type, rng.choice([1, 2, 2, 3, 3, 4]), ALL_PRIMS, var_types, const_p=0)
        if p is not None:
            pool.append(p)
    if not pool:
        return None
    kind = rng.randint(0, 1)
    skip = sorted(rng.sample([0, 1, 2, 3], rng.choice([0, 2, 3, 4, 4, 4, 4])))
    use_cache = 1 if rng.random() < 0.8 else 0
    c = rng.choice([0, 0, 0, 1, 2])
    crit = [c, rng.choice([0, 0, 1, 1, 2, 3, 4]) if c == 0 else rng.randint(1, 6) if c == 1 else rng.randint(0, 5)]
    tasks = [gen_restart_task(rng, var_types, inputs, out_type, pool) for _ in range(rng.choice([1, 1, 1, 2]))]
    return {"kind": "restart",
            "data": [kind, use_cache, skip, S.ARROW(*var_types, out_type), crit, rng.randrange(3), tasks]}


def gen(rng, tier):
    n_tasks, n_zero = (320, 4) if tier == "quick" else (5000, 40)
    n_restart, n_real = (260, 40) if tier == "quick" else (4000, 400)
    cases = []
    for _ in range(n_zero):
        c = gen_case(rng, zero=True)
        if c is not None:
            cases.append(c)
    for _ in range(n_tasks):
        c = gen_case(rng)
        if c is not None:
            if rng.random() < 0.2:
                c["decoy"] = 1
            cases.append(c)
    # restart cases last (and from a generator of their own) so that the cases above are those of earlier versions
    rrng = __import__("random").Random(rng.getrandbits(64))
    for _ in range(n_restart):
        c = gen_restart_case(rrng)
        if c is not None:
            cases.append(c)
    for _ in range(n_real):
        cases.append(gen_real_case(rrng))
    return cases


REAL_INT_PRIMS = [0, 1, 2, 3, 4, 5, 6, 7, 20, 21, 27]
REAL_LIST_PRIMS = [15, 17, 18]


def gen_real_case(rng):
    """RestartPBESolver on the real heap search enumerator: small grammar, each
    generator capped (a finite enumerator), one task."""
    var_types = rng.choice([[S.INT], [S.INT], [S.INT, S.INT], [S.LIST(S.INT)]])
    cands = REAL_INT_PRIMS + (REAL_LIST_PRIMS if var_types == [S.LIST(S.INT)] else [])
    while True:
        prims = sorted(rng.sample(cands, rng.randint(4, 7)))
        # a leaf and a function at least
        if (any(S.PRIMS[n][1] == 0 for n in prims) or var_types != [S.LIST(S.INT)]) and \
                any(S.PRIMS[n][1] > 0 for n in prims):
            break
    depth = rng.choice([2, 3, 3])
    target = None
    for _ in range(20):
        target = P.gen_prog(rng, S.INT, depth, prims, var_types, const_p=0)
        if target is not None:
            break
    inputs = [[P.gen_value(rng, t) for t in var_types] for _ in range(rng.randint(1, 3))]
    examples = []
    for _ in range(rng.choice([1, 2, 2, 3, 4])):
        inp = rng.choice(inputs)
        if target is not None and rng.random() < 0.93:
            out = target_output(rng, target, inp, S.INT)
        else:
            out = P.gen_value(rng, S.INT)
        examples.append([inp, out])
    kind = rng.randint(0, 1)
    skip = sorted(rng.sample([0, 1, 2, 3], rng.choice([2, 3, 4, 4, 4])))
    c = rng.choice([0, 0, 0, 1, 2])
    crit = [c, rng.choice([0, 0, 1, 1, 2, 3]) if c == 0 else rng.randint(2, 9) if c == 1 else rng.randint(1, 6)]
    caps = [rng.choice([3, 10, 20, 40, 60]) for _ in range(6)]
    answers = [rng.choice([0, 0, 0, 3])]
    for _ in range(rng.choice([0, 1, 2, 3, 4, 5, 6, 9])):
        if rng.random() < 0.12:
            answers.append(rng.choice([1, 1, 4, 7]))
        else:
            answers.append(rng.choice([0, 0, 0, 2, 2, 3, 5, 6]))
    return {"kind": "restart_real",
            "data": [kind, 1 if rng.random() < 0.8 else 0, skip, S.ARROW(*var_types, S.INT), crit, rng.randrange(3),
                     prims, depth, caps, [examples, answers]]}


# ---- restart kinds: model side -------------------------------------------------
RESTART_KINDS = ("restart", "restart_real")
_REAL_CACHE = {}


def _case_key(case):
    return __import__("json").dumps(case, sort_keys=True)


def restart_model_obs(raw):
    def per_task(r):
        events, programs, restarts, drawn, tested, cuts, data = r
        return {"events": events, "programs": programs, "restarts": restarts, "drawn": drawn, "tested": tested,
                "cuts": cuts, "data": data}
    return {"spec": [per_task(r) for r in raw[0]], "pinned": [per_task(r) for r in raw[1]]}


def restart_normalise_impl(streams_by_task, impl_obs, coords=True):
    """Implementation observables in the vocabulary of the model: drawn/tested
    coordinates (enumeration, position) become the scripted programs.  None when
    the observable is not a list of per-task results (crash, hang)."""
    if not isinstance(impl_obs, list) or len(impl_obs) != len(streams_by_task):
        return None
    out = []
    for streams, r in zip(streams_by_task, impl_obs):
        events, programs, restarts, drawn, tested, cuts, data, pcfgs_ok = r[:8]
        if not coords:
            # the runner already reports programs (restart_real)
            out.append({"events": events, "programs": programs, "restarts": restarts, "drawn": drawn,
                        "tested": tested, "cuts": cuts, "data": data, "pcfgs_ok": bool(pcfgs_ok), "walk_ok": True})
            continue

        def lookup(c):
            i, j = c
            return streams[i][j] if 0 <= i < len(streams) and 0 <= j < len(streams[i]) else ["?", i, j]
        # the draws must walk through each enumeration from its first program on, enumerations in order
        walk_ok = True
        seen = {}
        last = -1
        for i, j in drawn:
            if j != seen.get(i, 0) or i < last:
                walk_ok = False
            seen[i] = j + 1
            last = i
        out.append({"events": events, "programs": programs, "restarts": restarts,
                    "drawn": [lookup(c) for c in drawn], "tested": [lookup(c) for c in tested], "cuts": cuts,
                    "data": data, "pcfgs_ok": bool(pcfgs_ok), "walk_ok": walk_ok})
    return out


def restart_same(impl_norm, model_tasks):
    if impl_norm is None or len(impl_norm) != len(model_tasks):
        return False
    for io, mo in zip(impl_norm, model_tasks):
        for k in ("events", "programs", "restarts", "drawn", "tested", "cuts"):
            if io[k] != mo[k]:
                return False
        if not io["pcfgs_ok"] or not io["walk_ok"]:
            return False
        if len(io["data"]) != len(mo["data"]):
            return False
        for (ki, sc), (km, num, den) in zip(io["data"], mo["data"]):
            # the score is the float num / den computed by the same division
            if ki != km or den == 0 or sc != num / den:
                return False
    return True


def real_model(case, impl_obs):
    """restart_real: the model replays the enumerations the implementation's
    enumerators actually produced (memoised: agree, classify, nontrivial and
    describe all need it)."""
    key = (_case_key(case), _case_key(impl_obs))
    if key not in _REAL_CACHE:
        kind, use_cache, skip, request, crit, prior, prims, depth, caps, (examples, answers) = case["data"]
        mo = None
        if isinstance(impl_obs, dict) and isinstance(impl_obs.get("streams"), list):
            from lib import core
            raw = core.run_model(ID, [(2, [kind, skip, crit, [[examples, impl_obs["streams"], answers]]])])[0]
            if raw != [-1] and raw != [-2]:
                mo = restart_model_obs(raw)
                mo["streams"] = impl_obs["streams"]
        _REAL_CACHE[key] = mo
        _REAL_CACHE[("last", _case_key(case))] = mo
    return _REAL_CACHE[key]


def restart_streams(case, impl_obs=None):
    if case["kind"] == "restart":
        return [t[1] for t in case["data"][6]]
    return [impl_obs["streams"]] if isinstance(impl_obs, dict) and "streams" in impl_obs else None


def to_model(case):
    if case["kind"] == "restart":
        kind, use_cache, skip, request, crit, prior, tasks = case["data"]
        return (2, [kind, skip, crit, tasks])
    if case["kind"] == "restart_real":
        kind, use_cache, skip = case["data"][:3]
        return (2, [kind, skip, case["data"][4], []])     # placeholder: the model runs in agree()
    return _plain_to_model(case)


def model_obs(case, raw):
    if case["kind"] in RESTART_KINDS:
        return restart_model_obs(raw)
    return _plain_model_obs(case, raw)


def _restart_compare(case, impl_obs, model_obs, which):
    if case["kind"] == "restart":
        norm = restart_normalise_impl(restart_streams(case), impl_obs)
        return restart_same(norm, model_obs[which])
    mo = real_model(case, impl_obs)
    if mo is None:
        return False
    norm = restart_normalise_impl([impl_obs["streams"]], impl_obs.get("tasks"), coords=False)
    return restart_same(norm, mo[which])


def agree(case, impl_obs, model_obs):
    if case["kind"] in RESTART_KINDS:
        return _restart_compare(case, impl_obs, model_obs, "spec")
    return _plain_agree(case, impl_obs, model_obs)


def _restart_mo(case, mo):
    if case["kind"] == "restart_real":
        return _REAL_CACHE.get(("last", _case_key(case)))
    return mo


def nontrivial(case, mo):
    if case["kind"] in RESTART_KINDS:
        mo = _restart_mo(case, mo)
        if mo is None:
            return False
        for t in mo["spec"]:
            if t["cuts"] and any(e[0] == 0 and e[1] >= t["cuts"][0] for e in t["events"]):
                return True
        return False
    return _plain_nontrivial(case, mo)


CRIT_NAMES = {0: "len(_data) - _last_size > %d", 1: "_programs %% %d == 0", 2: "len(_data) >= %d"}


def describe(case, mo):
    if case["kind"] in RESTART_KINDS:
        d = case["data"]
        kind, use_cache, skip, request, crit, prior = d[:6]
        out = {"kind": case["kind"], "solver": "restart." + ["naive", "cutoff"][kind], "use_cache": bool(use_cache),
               "skip": [S.EXC_BY_ID[i].__name__ for i in skip], "restart_criterion": CRIT_NAMES[crit[0]] % crit[1],
               "tasks": []}
        mo = _restart_mo(case, mo)
        if case["kind"] == "restart":
            tasks = d[6]
        else:
            out["primitives"] = [S.prim_name(n) for n in d[6]]
            out["depth"] = d[7]
            out["generator_caps"] = d[8]
            tasks = [[d[9][0], mo["streams"] if mo else [], d[9][1]]]
        for ti, (examples, streams, answers) in enumerate(tasks[:2]):
            item = {"examples": ["%r -> %r" % ([S.value_from_wire(v) for v in i], S.value_from_wire(o))
                                 for i, o in examples],
                    "enumerations": [[P.show_prog(p) for p in st[:8]] for st in streams[:5]],
                    "script": [ANSWER_NAMES[a] for a in answers]}
            if mo and ti < len(mo["spec"]):
                m = mo["spec"][ti]
                item.update({"expected_events": [show_event(e) for e in m["events"]],
                             "expected_programs_stat": m["programs"], "expected_restarts_stat": m["restarts"],
                             "expected_drawn": len(m["drawn"]), "expected_restart_after": m["cuts"]})
            out["tasks"].append(item)
        out["n_tasks"] = len(tasks)
        return out
    return _plain_describe(case, mo)


def shrink(case):
    if case["kind"] == "restart":
        yield from shrink_restart(case)
        return
    if case["kind"] == "restart_real":
        d = case["data"]
        examples, answers = d[9]

        def mk(**kw):
            nd = list(d)
            nd[8] = kw.get("caps", d[8])
            nd[9] = [kw.get("examples", examples), kw.get("answers", answers)]
            nd[6] = kw.get("prims", d[6])
            return {"kind": "restart_real", "data": nd}
        if len(answers) > 1:
            yield mk(answers=answers[:-1])
        for i in range(len(examples)):
            if len(examples) > 1:
                yield mk(examples=examples[:i] + examples[i + 1:])
        for i, c in enumerate(d[8]):
            if c > 3:
                yield mk(caps=d[8][:i] + [max(3, c // 2)] + d[8][i + 1:])
        return
    yield from _plain_shrink(case)


_SHRUNK = [0]


def should_shrink(case, impl_obs, model_obs):
    """A broken restart loop disagrees on most restart cases: minimise the first few only."""
    if case["kind"] in RESTART_KINDS:
        _SHRUNK[0] += 1
        return _SHRUNK[0] <= 3
    return True


def shrink_restart(case):
    kind, use_cache, skip, request, crit, prior, tasks = case["data"]

    def mk(ts):
        return {"kind": "restart", "data": [kind, use_cache, skip, request, crit, prior, ts]}

    if len(tasks) > 1:
        for i in range(len(tasks)):
            yield mk(tasks[:i] + tasks[i + 1:])
    for ti, (examples, streams, answers) in enumerate(tasks):
        def rep(t):
            return mk(tasks[:ti] + [t] + tasks[ti + 1:])
        if len(streams) > 1:
            yield rep([examples, streams[:-1], answers])
        for si, st in enumerate(streams):
            def reps(new):
                return rep([examples, streams[:si] + [new] + streams[si + 1:], answers])
            n = len(st)
            if n > 1:
                yield reps(st[:n // 2])
                yield reps(st[n // 2:])
            if 0 < n <= 6:
                for i in range(n):
                    yield reps(st[:i] + st[i + 1:])
        if len(answers) > 1:
            yield rep([examples, streams, answers[:-1]])
        for i in range(len(examples)):
            yield rep([examples[:i] + examples[i + 1:], streams, answers])


def classify(case, impl_obs, model_obs):
    if case["kind"] in RESTART_KINDS:
        # the loop before repair C10b-1: RuntimeError when an enumeration is exhausted.  Recognised only when
        # the implementation does exactly what the model of that loop does (and that differs from the repaired one)
        if _restart_compare(case, impl_obs, model_obs, "pinned") and \
                not _restart_compare(case, impl_obs, model_obs, "spec"):
            return FINDING_RESTART
        return None
    return _plain_classify(case, impl_obs, model_obs)


def theorem_for(case):
    if case["kind"] in RESTART_KINDS:
        return ("C10_restart_yields / C10_restart_equals_plain (the events are the protocol of the plain solvers over "
                "the effective stream), C10_restart_effective + C10_restart_pieces_are_prefixes (the effective stream "
                "is the concatenation of the consumed prefixes of the successive enumerations, none skipped), "
                "C10_restart_stats / C10_restart_complete / C10_restart_drawn_tested (statistics = rank, restarts = "
                "firings of the criterion, every drawn program tested once)")
    return _plain_theorem_for(case)


def _plain_to_model(case):
    kind, use_cache, skip, request, tasks = case["data"]
    return (1, [kind, skip, tasks])


def _plain_model_obs(case, raw):
    return {"spec": raw[0], "pinned": raw[1]}


def _plain_agree(case, impl_obs, model_obs):
    return impl_obs == model_obs["spec"]


def _plain_nontrivial(case, mo):
    kind, use_cache, skip, request, tasks = case["data"]
    deep = False
    rejected = False
    for (examples, progs, answers), (events, total) in zip(tasks, mo["spec"]):
        for i, e in enumerate(events):
            if e[0] == 0 and e[1] >= 1:
                deep = True
            if e[0] == 0 and i + 1 < len(events) and answers[i + 1] not in TRUTHY:
                rejected = True
    return deep and rejected


ANSWER_NAMES = {0: "next()", 1: "send(True)", 2: "send(False)", 3: "send(None)", 4: "send(1)", 5: "send(0)",
                6: "send([])", 7: "send('no')"}


def show_event(e):
    if e[0] == 0:
        return "yield #%d" % e[1]
    if e[0] == 1:
        return "StopIteration"
    return "raises %s" % (S.EXC_BY_ID[e[1]].__name__ if len(e) == 2 and e[1] in S.EXC_BY_ID else e[1:])


def _plain_describe(case, mo):
    kind, use_cache, skip, request, tasks = case["data"]
    out = {"kind": case["kind"], "solver": ["naive", "cutoff"][kind], "use_cache": bool(use_cache),
           "skip": [S.EXC_BY_ID[i].__name__ for i in skip], "tasks": []}
    for (examples, progs, answers), (events, total) in list(zip(tasks, mo["spec"]))[:2]:
        out["tasks"].append({
            "examples": ["%r -> %r" % ([S.value_from_wire(v) for v in i], S.value_from_wire(o)) for i, o in examples],
            "programs": [P.show_prog(p) for p in progs[:10]], "n_programs": len(progs),
            "script": [ANSWER_NAMES[a] for a in answers],
            "expected_events": [show_event(e) for e in events], "expected_programs_stat": total})
    out["n_tasks"] = len(tasks)
    return out


def _plain_shrink(case):
    if case["kind"] == "zero":
        return
    kind, use_cache, skip, request, tasks = case["data"]

    def mk(ts):
        c = {"kind": "tasks", "data": [kind, use_cache, skip, request, ts]}
        if case.get("decoy"):
            c["decoy"] = 1
        return c

    if len(tasks) > 1:
        for i in range(len(tasks)):
            yield mk(tasks[:i] + tasks[i + 1:])
    for ti, (examples, progs, answers) in enumerate(tasks):
        def rep(t):
            return mk(tasks[:ti] + [t] + tasks[ti + 1:])
        n = len(progs)
        if n > 1:
            yield rep([examples, progs[:n // 2], answers])
            yield rep([examples, progs[n // 2:], answers])
            if n <= 8:
                for i in range(n):
                    yield rep([examples, progs[:i] + progs[i + 1:], answers])
        if len(answers) > 1:
            yield rep([examples, progs, answers[:-1]])
        if len(tasks) <= 2:
            for i in range(len(examples)):
                yield rep([examples[:i] + examples[i + 1:], progs, answers])
            if n <= 3:
                for i, p in enumerate(progs):
                    if p[0] == 1:
                        for a in p[2:]:
                            yield rep([examples, progs[:i] + [a] + progs[i + 1:], answers])


def _plain_classify(case, impl_obs, model_obs):
    """The naive solver divides by the number of examples: on a task without
    examples ZeroDivisionError escapes at the first program.  Recognised only
    when the implementation does exactly what the model of that code does."""
    kind, use_cache, skip, request, tasks = case["data"]
    if kind != 0 or not any(len(t[0]) == 0 and len(t[1]) > 0 for t in tasks):
        return None
    if impl_obs == model_obs["pinned"] and impl_obs != model_obs["spec"]:
        return FINDING
    return None


def _plain_theorem_for(case):
    return ("C10_tasks / C10_yields (run_tasks = spec_tasks: per task the events are those of the protocol over the "
            "programs passing every example, in order, cut after the first accepted one) with C10_stats for the "
            "statistic and C10_raise for an escaping exception")
