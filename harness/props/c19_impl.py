"""C19 implementation runner: builds the grammars and the prediction layer of a
case, feeds it the case's tensor and reports layout, weights, start
probabilities, membership, encodings, log-probabilities and probabilities."""
import json
import warnings

import numpy as np
import torch

from synth.syntax.dsl import DSL
from synth.syntax.grammars.cfg import CFG
from synth.syntax.grammars.u_cfg import UCFG
from synth.syntax.program import Primitive
from synth.nn.det_grammar_predictor import DetGrammarPredictorLayer
from synth.nn.u_grammar_predictor import UGrammarPredictorLayer
from synth.nn import abstractions as AB
from lib import objs as O
from lib import semantics as S


def build_dsl(prims, forbidden):
    syntax = {}
    extra = []
    for n, t in prims:
        name = S.prim_name(n)
        if name in syntax:
            extra.append((name, O.ty(t)))
        else:
            syntax[name] = O.ty(t)
    forb = {(S.prim_name(k[0]), k[1]): {S.prim_name(x) for x in v} for k, v in forbidden}
    dsl = DSL(syntax, forb)
    for name, t in extra:
        dsl.list_primitives.append(Primitive(name, t))
    return dsl


def identity_abstraction(ctx):
    return ctx


ABSTRACTIONS = {
    "primitive_presence": AB.primitive_presence,
    "cfg_bigram_without_depth": AB.cfg_bigram_without_depth,
    "ttcfg_bigram": AB.ttcfg_bigram,
    "ucfg_bigram": AB.ucfg_bigram,
    "identity": identity_abstraction,
}


def ctx_wire(ngram):
    return [[O.sym_wire(p), i] for p, i in ngram.predecessors]


def nt_wire(snt, isu):
    # CFG: (type, ((ngram, depth), None));  UCFG.from_CFG: (type, (ngram, depth))
    t, rest = snt
    state = rest if isu else rest[0]
    ngram, depth = state
    return [O.ty_wire(t), [ctx_wire(ngram), depth]]


def key_wire(key, isu):
    if key is None:
        return []
    if isinstance(key, tuple) and len(key) == 2 and isinstance(key[1], int) and not isinstance(key[0], tuple):
        return [O.sym_wire(key[0]), key[1]]       # (parent, argument number)
    return nt_wire(key, isu)                       # identity abstraction


def jkey(x):
    return json.dumps(x)


def fl(x):
    return float(x)


def impl(case):
    gparams, absid, progs = case["data"]
    isu = bool(case["u"])
    torch.manual_seed(0)
    np.random.seed(0)
    grammars = []
    for prims, forb, req, md, mv, ng, ct in gparams:
        dsl = build_dsl(prims, forb)
        cls = UCFG if isu else CFG
        grammars.append(cls.depth_constraint(dsl, O.ty(req), md, mv, ng, False, {O.ty(t) for t in ct}))
    absf = ABSTRACTIONS[case["absfun"]]
    Layer = UGrammarPredictorLayer if isu else DetGrammarPredictorLayer
    layer = Layer(4, grammars, absf, case["v"])
    out = {}
    out["out_size"] = int(layer.output_size)
    out["forward_size"] = int(layer(torch.zeros((4,))).shape[-1])
    out["layout"] = [[key_wire(k, isu), int(st), int(ln), [[O.sym_wire(p), int(i)] for p, i in d.items()]]
                     for k, (st, ln, d) in layer.abs2index.items()]
    nstarts = 0
    if isu:
        out["start_abs"] = [key_wire(a, isu) for a in layer.all_starts_abs]
        nstarts = len(layer.all_starts_abs)
    # the tensor: values are given per (key, primitive) pair and per start key
    pv = {jkey([k, p]): val for k, p, val in case["tensor"]["pairs"]}
    sv = {jkey(k): val for k, val in case["tensor"]["starts"]}
    x = torch.zeros((layer.output_size,), dtype=torch.float32)
    for k, (st, ln, d) in layer.abs2index.items():
        kw = key_wire(k, isu)
        for p, i in d.items():
            x[st + i] = pv.get(jkey([kw, O.sym_wire(p)]), 0.0)
    if isu:
        for i, a in enumerate(layer.all_starts_abs):
            x[layer.output_size - nstarts + i] = sv.get(jkey(key_wire(a, isu)), 0.0)
    gobs = []
    for g, plist in zip(grammars, progs):
        o = {"treq": O.ty_wire(g.type_request)}
        gobs.append(o)
        with warnings.catch_warnings():
            warnings.simplefilter("ignore")
            try:
                lg = layer.tensor2log_prob_grammar(x.clone(), g.type_request, total_variable_order=bool(case["tvo"]))
                pg = lg.to_prob_u_grammar() if isu else lg.to_prob_det_grammar()
            except Exception as e:   # noqa
                o["crash"] = "%s: %s" % (type(e).__name__, str(e)[:200])
                continue
            nts = []
            for snt in g.rules:
                rules = []
                for p in g.rules[snt]:
                    if isu:
                        ws = [fl(w) for w in pg.probabilities[snt][p].values()]
                        ts = [fl(t.item()) for t in lg.tags[snt][p].values()]
                    else:
                        ws = [fl(pg.probabilities[snt][p])]
                        ts = [fl(lg.tags[snt][p].item())]
                    rules.append([O.sym_wire(p), ws, ts])
                nts.append([nt_wire(snt, isu), key_wire(layer.real2abs[snt], isu), rules])
            o["nts"] = nts
            if isu:
                o["starts"] = [[nt_wire(s, isu), fl(w)] for s, w in pg.start_tags.items()]
            else:
                o["starts"] = [[nt_wire(g.start, isu), 1.0]]
            res = []
            for w in plist:
                p = O.prog(w)
                if p not in g:
                    res.append([0])
                    continue
                try:
                    enc = layer.encode(p, g.type_request)
                    vals = enc.tolist()
                    marks = [i for i, b in enumerate(vals) if b != 0.0]
                    enc_ok = 1 if (len(vals) == layer.output_size and all(b in (0.0, 1.0) for b in vals)) else 0
                    lp = fl(lg.log_probability(p).item())
                    pr = fl(pg.probability(p))
                    res.append([1, marks, enc_ok, lp, pr])
                except Exception as e:   # noqa
                    res.append([2, "%s: %s" % (type(e).__name__, str(e)[:200])])
            o["progs"] = res
    out["grammars"] = gobs
    return out
