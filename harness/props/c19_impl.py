"""C19 implementation runner: builds the grammars and the prediction layer of a
case, feeds it the case's tensor and reports layout, weights, start
probabilities, membership, encodings, log-probabilities and probabilities.

Cases with a "gk" field (grammar kind "uhand" / "udfta") drive the U layer on
unambiguous grammars with several alternatives per (non-terminal, primitive)
and several start symbols; the runner serialises the implementation's own
rule tables (wire format of Gram/U.v, as harness/props/c04_impl.py) so that
the model is run on them."""
import json
import random
import warnings

import numpy as np
import torch

from synth.syntax.dsl import DSL
from synth.syntax.grammars.cfg import CFG
from synth.syntax.grammars.u_cfg import UCFG
from synth.syntax.program import Primitive
from synth.nn.det_grammar_predictor import DetGrammarPredictorLayer
from synth.nn.u_grammar_predictor import UGrammarPredictorLayer
from synth.nn import abstractions as AB
from lib import objs as O
from lib import semantics as S


def build_dsl(prims, forbidden):
    syntax = {}
    extra = []
    for n, t in prims:
        name = S.prim_name(n)
        if name in syntax:
            extra.append((name, O.ty(t)))
        else:
            syntax[name] = O.ty(t)
    forb = {(S.prim_name(k[0]), k[1]): {S.prim_name(x) for x in v} for k, v in forbidden}
    dsl = DSL(syntax, forb)
    for name, t in extra:
        dsl.list_primitives.append(Primitive(name, t))
    return dsl


def identity_abstraction(ctx):
    return ctx


ABSTRACTIONS = {
    "primitive_presence": AB.primitive_presence,
    "cfg_bigram_without_depth": AB.cfg_bigram_without_depth,
    "ttcfg_bigram": AB.ttcfg_bigram,
    "ucfg_bigram": AB.ucfg_bigram,
    "identity": identity_abstraction,
}


def ctx_wire(ngram):
    return [[O.sym_wire(p), i] for p, i in ngram.predecessors]


def nt_wire(snt, isu):
    # CFG: (type, ((ngram, depth), None));  UCFG.from_CFG: (type, (ngram, depth))
    t, rest = snt
    state = rest if isu else rest[0]
    ngram, depth = state
    return [O.ty_wire(t), [ctx_wire(ngram), depth]]


def key_wire(key, isu):
    if key is None:
        return []
    if isinstance(key, tuple) and len(key) == 2 and isinstance(key[1], int) and not isinstance(key[0], tuple):
        return [O.sym_wire(key[0]), key[1]]       # (parent, argument number)
    return nt_wire(key, isu)                       # identity abstraction


def jkey(x):
    return json.dumps(x)


def fl(x):
    return float(x)


def impl(case):
    if case.get("gk"):
        return impl_multi(case)
    gparams, absid, progs = case["data"]
    isu = bool(case["u"])
    torch.manual_seed(0)
    np.random.seed(0)
    grammars = []
    for prims, forb, req, md, mv, ng, ct in gparams:
        dsl = build_dsl(prims, forb)
        cls = UCFG if isu else CFG
        grammars.append(cls.depth_constraint(dsl, O.ty(req), md, mv, ng, False, {O.ty(t) for t in ct}))
    absf = ABSTRACTIONS[case["absfun"]]
    Layer = UGrammarPredictorLayer if isu else DetGrammarPredictorLayer
    layer = Layer(4, grammars, absf, case["v"])
    out = {}
    out["out_size"] = int(layer.output_size)
    out["forward_size"] = int(layer(torch.zeros((4,))).shape[-1])
    out["layout"] = [[key_wire(k, isu), int(st), int(ln), [[O.sym_wire(p), int(i)] for p, i in d.items()]]
                     for k, (st, ln, d) in layer.abs2index.items()]
    nstarts = 0
    if isu:
        out["start_abs"] = [key_wire(a, isu) for a in layer.all_starts_abs]
        nstarts = len(layer.all_starts_abs)
    # the tensor: values are given per (key, primitive) pair and per start key
    pv = {jkey([k, p]): val for k, p, val in case["tensor"]["pairs"]}
    sv = {jkey(k): val for k, val in case["tensor"]["starts"]}
    x = torch.zeros((layer.output_size,), dtype=torch.float32)
    for k, (st, ln, d) in layer.abs2index.items():
        kw = key_wire(k, isu)
        for p, i in d.items():
            x[st + i] = pv.get(jkey([kw, O.sym_wire(p)]), 0.0)
    if isu:
        for i, a in enumerate(layer.all_starts_abs):
            x[layer.output_size - nstarts + i] = sv.get(jkey(key_wire(a, isu)), 0.0)
    gobs = []
    for g, plist in zip(grammars, progs):
        o = {"treq": O.ty_wire(g.type_request)}
        gobs.append(o)
        with warnings.catch_warnings():
            warnings.simplefilter("ignore")
            try:
                lg = layer.tensor2log_prob_grammar(x.clone(), g.type_request, total_variable_order=bool(case["tvo"]))
                pg = lg.to_prob_u_grammar() if isu else lg.to_prob_det_grammar()
            except Exception as e:   # noqa
                o["crash"] = "%s: %s" % (type(e).__name__, str(e)[:200])
                continue
            nts = []
            for snt in g.rules:
                rules = []
                for p in g.rules[snt]:
                    if isu:
                        ws = [fl(w) for w in pg.probabilities[snt][p].values()]
                        ts = [fl(t.item()) for t in lg.tags[snt][p].values()]
                    else:
                        ws = [fl(pg.probabilities[snt][p])]
                        ts = [fl(lg.tags[snt][p].item())]
                    rules.append([O.sym_wire(p), ws, ts])
                nts.append([nt_wire(snt, isu), key_wire(layer.real2abs[snt], isu), rules])
            o["nts"] = nts
            if isu:
                o["starts"] = [[nt_wire(s, isu), fl(w)] for s, w in pg.start_tags.items()]
            else:
                o["starts"] = [[nt_wire(g.start, isu), 1.0]]
            res = []
            for w in plist:
                p = O.prog(w)
                if p not in g:
                    res.append([0])
                    continue
                try:
                    enc = layer.encode(p, g.type_request)
                    vals = enc.tolist()
                    marks = [i for i, b in enumerate(vals) if b != 0.0]
                    enc_ok = 1 if (len(vals) == layer.output_size and all(b in (0.0, 1.0) for b in vals)) else 0
                    lp = fl(lg.log_probability(p).item())
                    pr = fl(pg.probability(p))
                    res.append([1, marks, enc_ok, lp, pr])
                except Exception as e:   # noqa
                    res.append([2, "%s: %s" % (type(e).__name__, str(e)[:200])])
            o["progs"] = res
    out["grammars"] = gobs
    return out


# ----------------------------------------------------------------------------
# U layers on unambiguous grammars with several alternatives / start symbols
# ----------------------------------------------------------------------------
def dec(w):
    """inverse of the generic state encoder enc of props/c04_impl.py (lists come back as tuples)"""
    from synth.syntax.grammars.grammar import NGram
    t = w[0]
    if t == 0:
        return w[1]
    if t == 1:
        return None
    if t == 2:
        return bytes(w[1:]).decode("utf8")
    if t == 3:
        return tuple(dec(e) for e in w[1:])
    if t == 4:
        return NGram(w[1], [dec(e) for e in w[2:]])
    if t == 5:
        return O.sym(w[1])
    if t == 6:
        return O.ty(w[1])
    if t == 7:
        return bool(w[1])
    raise ValueError("cannot decode state %r" % (w,))


def unt(w):
    return (O.ty(w[0]), dec(w[1]))


def build_hand(gw, clean):
    """UCFG(starts, rules, clean) from the wire table of the case."""
    table, starts = gw
    rules = {}
    for ntw, rs in table:
        rules[unt(ntw)] = {O.sym(sw): [[unt(a) for a in alt] for alt in alts] for sw, alts in rs}
    return UCFG({unt(s) for s in starts}, rules, clean=bool(clean))


def build_dfta(gp):
    """UCFG.from_DFTA / from_DFTA_with_ngrams of the sharpened automaton of a depth-bounded CFG."""
    from synth.filter.constraints.dfta_constraints import add_dfta_constraints
    prims, forb, req, md, mv, ng, ct, constraint, ngrams = gp
    dsl = build_dsl(prims, forb)
    cfg = CFG.depth_constraint(dsl, O.ty(req), md, mv, ng, False, {O.ty(t) for t in ct})
    try:
        dfta = add_dfta_constraints(cfg, [constraint], progress=False)
        if ngrams:
            return UCFG.from_DFTA_with_ngrams(dfta, ngrams)
        return UCFG.from_DFTA(dfta)
    except Exception as e:      # sharpening and the conversion are the subjects of C05 / C06, not of this check
        raise SkipCase("sharpening failed (%s)" % type(e).__name__)


class SkipCase(Exception):
    pass


def impl_multi(case):
    from props.c04_impl import enc, u_nt, u_table
    from props import c19 as C
    gws, absid, progs = case["data"]
    torch.manual_seed(0)
    np.random.seed(0)
    grammars = []
    try:
        for gw in gws:
            grammars.append(build_hand(gw, case.get("clean", 1)) if case["gk"] == "uhand" else build_dfta(gw))
    except KeyError:
        # CFG.depth_constraint raises KeyError on an empty language (C01 finding c01_empty_language_raises)
        return {"skipped": "grammar construction raised KeyError (empty language)"}
    except SkipCase as e:
        return {"skipped": str(e)}
    if any(len(g.rules) == 0 or len(g.starts) == 0 for g in grammars):
        return {"skipped": "empty grammar"}
    if len({g.type_request for g in grammars}) != len(grammars):
        return {"skipped": "two grammars of the layer report the same type request"}
    absf = ABSTRACTIONS[case["absfun"]]
    layer = UGrammarPredictorLayer(4, grammars, absf, case["v"])
    out = {}
    out["tables"] = [[u_table(g), [u_nt(s) for s in g.starts]] for g in grammars]
    out["out_size"] = int(layer.output_size)
    out["forward_size"] = int(layer(torch.zeros((4,))).shape[-1])
    out["layout"] = [[enc(k), int(st), int(ln), [[O.sym_wire(p), int(i)] for p, i in d.items()]]
                     for k, (st, ln, d) in layer.abs2index.items()]
    out["start_abs"] = [enc(a) for a in layer.all_starts_abs]
    nstarts = len(layer.all_starts_abs)
    tensor = case["tensor"]
    if "recipe" in tensor:
        # the layout is only known here: the values are drawn from the recipe's seed over the
        # sorted (key, primitive) pairs, which does not depend on dict / set iteration orders
        tkind, seed = tensor["recipe"]
        pairs = sorted(([kw, pw] for kw, _, _, d in out["layout"] for pw, _ in d), key=json.dumps)
        by_key = {json.dumps(kw): [pw for pw, _ in d] for kw, _, _, d in out["layout"]}
        nd = []
        for g in grammars:
            for S_ in g.rules:
                der = [json.dumps(O.sym_wire(P)) for P in g.rules[S_] if isinstance(P, Primitive)]
                if not der:
                    continue
                kw = enc(layer.real2abs[S_])
                for pw in by_key[json.dumps(kw)]:
                    if json.dumps(pw) not in der and [kw, pw] not in nd:
                        nd.append([kw, pw])
        nd.sort(key=json.dumps)
        skeys = sorted(out["start_abs"], key=json.dumps)
        tensor = C.gen_tensor_lists(random.Random(seed), tkind, pairs, nd, skeys)
        out["tensor"] = tensor
    pv = {jkey([k, p]): val for k, p, val in tensor["pairs"]}
    sv = {jkey(k): val for k, val in tensor["starts"]}
    x = torch.zeros((layer.output_size,), dtype=torch.float32)
    for k, (st, ln, d) in layer.abs2index.items():
        kw = enc(k)
        for p, i in d.items():
            x[st + i] = pv.get(jkey([kw, O.sym_wire(p)]), 0.0)
    for i, a in enumerate(layer.all_starts_abs):
        x[layer.output_size - nstarts + i] = sv.get(jkey(enc(a)), 0.0)
    gobs = []
    for g, plist in zip(grammars, progs):
        o = {"treq": O.ty_wire(g.type_request)}
        gobs.append(o)
        with warnings.catch_warnings():
            warnings.simplefilter("ignore")
            try:
                lg = layer.tensor2log_prob_grammar(x.clone(), g.type_request, total_variable_order=bool(case["tvo"]))
                pg = lg.to_prob_u_grammar()
            except Exception as e:   # noqa
                o["crash"] = "%s: %s" % (type(e).__name__, str(e)[:200])
                continue
            nts = []
            for snt in g.rules:
                rules = []
                for p in g.rules[snt]:
                    alts = [[[u_nt(a) for a in alt], fl(pg.probabilities[snt][p][alt]), fl(lg.tags[snt][p][alt].item())]
                            for alt in pg.probabilities[snt][p]]
                    rules.append([O.sym_wire(p), alts])
                nts.append([u_nt(snt), enc(layer.real2abs[snt]), rules])
            o["nts"] = nts
            o["starts"] = [[u_nt(s), fl(w)] for s, w in pg.start_tags.items()]
            starts = list(g.starts)
            res = []
            for w in plist:
                p = O.prog(w)
                if p not in g:
                    res.append([0])
                    continue
                try:
                    enc_t = layer.encode(p, g.type_request)
                    vals = enc_t.tolist()
                    marks = [i for i, b in enumerate(vals) if b != 0.0]
                    enc_ok = 1 if (len(vals) == layer.output_size and all(b in (0.0, 1.0) for b in vals)) else 0
                    lp = fl(lg.log_probability(p).item())
                    pr = fl(pg.probability(p))
                    # with an explicit start symbol (the one that derives the program)
                    s0 = [s for s in starts if g.__contains_rec__(p, s, g.start_information())[0]][0]
                    lp_at = fl(lg.log_probability(p, s0).item())
                    pr_at = fl(pg.probability(p, s0))
                    res.append([1, marks, enc_ok, lp, pr, u_nt(s0), lp_at, pr_at])
                except Exception as e:   # noqa
                    res.append([2, "%s: %s" % (type(e).__name__, str(e)[:200])])
            o["progs"] = res
    out["grammars"] = gobs
    return out
