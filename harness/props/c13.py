"""C13: size/occurrence-bounded grammars and products denote the stated languages."""
import json
from lib import dsls as D
from lib import progs as P
from lib import semantics as S

ID = "C13"
IMPL_MODULE = "props.c13_impl"
HASHSEEDS = {"quick": [0, 1], "thorough": [0, 1, 2, 3]}
CASE_TIMEOUT = 120
FUEL = 300000
RULE = ("random abstract DSLs of families F1-F6 (1-3 base types, arities 0-3, a forced arity-3 primitive in a third of them, "
        "higher-order arguments and primitives used as values, function-typed request arguments, uninhabited argument types, "
        "list types), random forbidden tables, requests with 0-3 arguments, n_gram 1-3.  'build': TTCFG.size_constraint with "
        "max_size 1-7 (language <= cap) or TTCFG.at_most_k with (primitive, k <= 3) on the DSL made finite without that "
        "primitive; candidates = independent brute-force terms up to size+1 / k+1 occurrences (forbidden patterns ignored, "
        "every primitive of arity >= 2 represented), terms of other types, near-miss mutants.  'product': size x size, "
        "size x occurrence, size x CFG.depth_constraint over one DSL.  'clean': random raw rule tables with threaded T "
        "states, missing and empty non-terminals.  Observables: membership of every candidate, programs(), type_request, "
        "and the implementation's own tables (before/after clean, product operands and result) on which the model's clean / "
        "product / counter / dead-end enumeration are run and compared by language, count and dead-end symbol sequences, "
        "never by non-terminal names.  Non-trivial = the candidates contain members and non-members and the language has "
        ">= 3 programs.")
ASSUMPTIONS = ["types are ground, without sums: Python type equality coincides with structural equality there",
               "DSL primitives have pairwise distinct (name, type); programs have no empty application Function(P, [])",
               "at_most_k is only exercised where the language is finite (otherwise TTCFG.clean does not terminate)",
               "the primitive named in at_most_k is not spelled like a variable (str(Variable) is 'var<i>')",
               "n_gram < 2 cannot carry the parent: compared against the model with n_gram = 2 (known finding c13_ngram1_forbidden)",
               "model fuel 300000 per case; running out of fuel is reported as a harness error, never as agreement",
               "the check passes on /repo (which has the programs() fix a7e904a) + proposed_fixes/C13-1..4; on the "
               "tree without them every disagreement is one of the defects those diffs repair"]

ALL_FIXED = [1, 1, 1, 1, 1, 1, 0]


# ----------------------------------------------------------------------------
# generation
# ----------------------------------------------------------------------------
def uniq(cands):
    seen = set()
    out = []
    for c in cands:
        k = json.dumps(c)
        if k not in seen:
            seen.add(k)
            out.append(c)
    return out


def make_finite(dsl, prim):
    """Drops primitives until the terms with a bounded number of prim are finitely many."""
    d = dict(dsl)
    d["prims"] = list(dsl["prims"])
    for _ in range(20):
        h = D.type_cycle(d, prim)
        if h is None:
            live = {n for n, _ in d["prims"]}
            d["forbidden"] = [[k, [x for x in v if x in live]] for k, v in dsl["forbidden"] if k[0] in live]
            return d
        if h[0] != 0:
            return None
        d["prims"] = [p for p in d["prims"] if p[0] != h[1]]
    return None


def size_spec(rng, dsl, cap, n_gram):
    _, ret = D.arrow_parts(dsl["request"])
    sizes = [n for n in range(1, 8) if D.count_sized(dsl, ret, n) <= cap] or [1]
    n = rng.choice(sizes[-3:] + sizes)
    return [[0, n], [dsl["prims"], dsl["forbidden"], dsl["request"], n_gram]]


def occ_spec(rng, dsl, cap, n_gram):
    """(dsl', spec) with a finite at_most_k language, or None."""
    _, ret = D.arrow_parts(dsl["request"])
    funs = [p for p in dsl["prims"] if p[1][0] == 1]
    rng.shuffle(funs)
    for f in funs[:3]:
        src = dsl
        if rng.random() < 0.4:
            # a second instance of the bounded primitive under the same name (as after
            # instantiate_polymorphic_types): occurrences are counted by name
            args, r = D.arrow_parts(f[1])
            bases = [b for b in D.BASES if any(pt == b for _, pt in dsl["prims"])]
            if bases:
                args2 = list(args)
                args2[rng.randrange(len(args2))] = rng.choice(bases)
                variant = [f[0], S.ARROW(*args2, r)]
                if variant[1] != f[1]:
                    src = dict(dsl, prims=dsl["prims"] + [variant])
        d = make_finite(src, f[0])
        if d is None or not any(p[0] == f[0] for p in d["prims"]):
            continue
        ks = [k for k in range(0, 4) if (D.count_occ(d, ret, f[0], k) or cap + 1) <= cap]
        if not ks:
            continue
        k = rng.choice(ks)
        return d, [[1, f[0], k], [d["prims"], d["forbidden"], d["request"], n_gram]]
    return None


def candidates(rng, dsl, spec, ncand):
    _, ret = D.arrow_parts(dsl["request"])
    mode = spec[0]
    if mode[0] == 0:
        univ = D.terms_sized(dsl, ret, mode[1] + 1, rng, 3 * ncand)
    elif mode[0] == 1:
        univ = D.terms_occ(dsl, ret, mode[1], mode[2] + 1, rng, 3 * ncand) or []
    else:
        univ = D.terms(dsl, ret, mode[1] + 1, rng, 3 * ncand)
    cands = univ if len(univ) <= 2 * ncand else rng.sample(univ, 2 * ncand)
    # every primitive of arity >= 2 occurs in some candidate when it occurs in the universe
    have = used_prims(cands)
    for n, pt in dsl["prims"]:
        if n not in have and len(D.arrow_parts(pt)[0]) >= 2:
            with_n = [p for p in univ if n in used_prims([p])]
            cands = cands + with_n[:3]
    for b in D.BASES[:2]:
        if b != ret:
            cands += D.terms_sized(dsl, b, 3, rng, 4)[:6]
    cands += D.mutants(rng, cands, dsl, 20)
    return uniq(cands)


def with_ternary(rng, dsl):
    """Adds a primitive of arity 3 over inhabited base types (so that it is used by members)."""
    leaves = [pt for _, pt in dsl["prims"] if pt[0] == 0]
    if not leaves:
        return dsl
    d = dict(dsl)
    pid = max(n for n, _ in dsl["prims"]) + 1
    d["prims"] = dsl["prims"] + [[pid, S.ARROW(rng.choice(leaves), rng.choice(leaves), rng.choice(leaves), rng.choice(leaves))]]
    return d


def gen_table(rng):
    """A random raw TTCFG: non-terminals (type, (level, tag), T) whose arguments
    live one level deeper (so every derivation is finite), T states threaded
    arbitrarily, some argument non-terminals missing or without rules."""
    bases = [S.INT, S.BOOL]
    pool = []
    pid = 100
    for b in bases:
        for _ in range(rng.randint(1, 2)):
            pool.append([pid, b])
            pid += 1
    for _ in range(rng.randint(2, 4)):
        ar = rng.choice([1, 2, 2, 3])
        pool.append([pid, S.ARROW(*[rng.choice(bases) for _ in range(ar)], rng.choice(bases))])
        pid += 1
    depth = rng.randint(2, 3)
    nT = rng.randint(1, 3)
    nts = []
    for lvl in range(depth + 1):
        for b in bases:
            for tag in range(rng.randint(1, 2)):
                for t in range(nT):
                    if lvl == 0 or rng.random() < 0.8:
                        nts.append([b, [lvl, tag], t])
    table = []
    for nt in nts:
        b, (lvl, tag), t = nt
        rules = []
        if rng.random() < 0.08:
            table.append([nt, rules])
            continue
        for n, pt in pool:
            args, r = D.arrow_parts(pt)
            if r != b or rng.random() < 0.35:
                continue
            if args and lvl >= depth:
                continue
            rules.append([[0, n, pt], [[a, [lvl + 1, rng.randint(0, 1)]] for a in args], rng.randrange(nT)])
        table.append([nt, rules])
    start = nts[0]
    dsl = {"prims": pool, "forbidden": [], "request": start[0], "const_types": []}
    return table, start, dsl


def table_size(table, start, limit):
    """Number of complete derivations of a raw table (only used to keep the generated
    tables small); None when above limit."""
    rules = {json.dumps(nt): rs for nt, rs in table}
    memo = {}

    class TooBig(Exception):
        pass

    def below(nt):
        k = json.dumps(nt)
        if k in memo:
            return memo[k]
        out = {}
        for _, args, t in rules.get(k, []):
            local = {t: 1}
            for a in args:
                nxt = {}
                for v, c in local.items():
                    for v2, c2 in below([a[0], a[1], v]).items():
                        nxt[v2] = nxt.get(v2, 0) + c * c2
                local = nxt
            for v, c in local.items():
                out[v] = out.get(v, 0) + c
        if sum(out.values()) > limit:
            raise TooBig()
        memo[k] = out
        return out

    try:
        return sum(below(start).values())
    except TooBig:
        return None


def gen(rng, tier):
    quick = tier == "quick"
    cap = 350 if quick else 1500
    ncand = 110 if quick else 200
    n_build, n_prod, n_clean = (180, 80, 90) if quick else (700, 300, 350)
    cases = []
    for i in range(n_build):
        dsl = D.gen_dsl(rng)
        if rng.random() < 0.3:
            dsl = with_ternary(rng, dsl)
        n_gram = rng.choice([1, 2, 2, 2, 3])
        spec = None
        if rng.random() < 0.4:
            r = occ_spec(rng, dsl, cap, n_gram)
            if r is not None:
                dsl, spec = r
        if spec is None:
            spec = size_spec(rng, dsl, cap, n_gram)
        cases.append({"kind": "build", "fam": dsl["family"], "data": [spec, candidates(rng, dsl, spec, ncand)]})
    for i in range(n_prod):
        dsl = D.gen_dsl(rng)
        if rng.random() < 0.4:
            dsl = with_ternary(rng, dsl)
        n_gram = rng.choice([2, 2, 3])
        s1 = size_spec(rng, dsl, cap, n_gram)
        r = rng.random()
        d2 = dsl
        if r < 0.4:
            o = occ_spec(rng, dsl, cap, rng.choice([2, 2, 3]))
            if o is not None:
                d2, s2 = o
                # both grammars over the (smaller) finite DSL
                s1 = size_spec(rng, d2, cap, n_gram)
            else:
                s2 = size_spec(rng, dsl, cap, rng.choice([2, 3]))
        elif r < 0.7:
            s2 = size_spec(rng, dsl, cap, rng.choice([2, 3]))
        else:
            s2 = [[2, rng.choice([2, 3, 3]), rng.choice([0, 1])], [dsl["prims"], dsl["forbidden"], dsl["request"], rng.choice([2, 2, 3])]]
        if rng.random() < 0.5:
            s1, s2 = s2, s1
        c = candidates(rng, d2, s1, ncand // 2) + candidates(rng, d2, s2, ncand // 2)
        cases.append({"kind": "product", "fam": dsl["family"], "data": [s1, s2, uniq(c)]})
    for i in range(n_clean):
        table, start, dsl = gen_table(rng)
        while table_size(table, start, 4 * cap) is None:
            table, start, dsl = gen_table(rng)
        c = D.terms_sized(dsl, start[0], 6, rng, ncand)
        if len(c) > 2 * ncand:
            c = rng.sample(c, 2 * ncand)
        c += D.mutants(rng, c, dsl, 15)
        cases.append({"kind": "clean", "fam": "table", "data": [table, start, uniq(c)]})
    return cases


# ----------------------------------------------------------------------------
# model side
# ----------------------------------------------------------------------------
def eff_params(params):
    p = list(params)
    p[3] = max(2, p[3])
    return p


def builder_call(spec, progs, flags=ALL_FIXED, effective=True):
    mode, params = spec
    return (1, [FUEL, mode, eff_params(params) if effective else params, flags, progs])


def decode_builder(raw):
    if raw[0] != 1:
        raise RuntimeError("model out of fuel on a builder case")
    _, pipe, fun = raw
    return {"in": pipe[0], "count": pipe[1], "treq": pipe[2], "complete": pipe[3], "nts": pipe[4],
            "count_memo": pipe[5], "nodup": pipe[6], "in_f": fun[0], "count_f": fun[1]}


def to_model(case):
    k = case["kind"]
    if k == "build":
        spec, progs = case["data"]
        return builder_call(spec, progs)
    if k == "product":
        s1, s2, progs = case["data"]
        spec = s1 if s1[0][0] != 2 else s2
        return builder_call(spec, progs)
    table, start, progs = case["data"]
    return (3, [FUEL, 0, 1, table, start, progs])


def model_obs(case, raw):
    k = case["kind"]
    if k in ("build", "product"):
        m = decode_builder(raw)
        if (m["in"] != m["in_f"] or m["count"] != m["count_f"] or m["count"] < 0 or m["count_memo"] != m["count"]
                or m["nodup"] != 1):
            raise RuntimeError("model inconsistency: build+clean pipeline differs from the rule function (C13_size_language)")
        if k == "build":
            spec, _ = case["data"]
            return {"in": m["in"], "count": m["count"], "treq": spec[1][2], "dead": canon_dead(m["complete"])}
        s1, s2, _ = case["data"]
        return {"which": 1 if s1[0][0] != 2 else 2, "in_c": m["in"], "treq": s1[1][2]}
    if raw[0] != 1:
        raise RuntimeError("model out of fuel on a clean case")
    _, before, count_b, complete_b, nodup, after, count, complete = raw
    if before != after or count != count_b or nodup != 1:
        raise RuntimeError("model inconsistency: clean changed the language (C13_clean_language)")
    return {"before": before, "in": after, "count": count, "dead": canon_dead(complete)}


def canon_dead(l):
    """The dead ends as a sorted list of JSON strings (symbol sequences, oldest first)."""
    return sorted(set(json.dumps(list(reversed(pre))) for pre in l))


_CACHE = {}


def canon_table(table):
    """Entry order of a serialised table is irrelevant to every observable the
    model is asked for (and depends on PYTHONHASHSEED): sort it, so that equal
    tables from different hash seeds are analysed once."""
    return sorted(([nt, sorted(rs, key=json.dumps)] for nt, rs in table), key=json.dumps)


def model_calls(calls):
    """Runs the model on a list of (entry, wire) with a cache shared by all hash seeds."""
    from lib import core
    keys = [json.dumps(c) for c in calls]
    todo = [(k, c) for k, c in zip(keys, calls) if k not in _CACHE]
    if todo:
        if len(_CACHE) > 20000:
            _CACHE.clear()
        for (k, _), r in zip(todo, core.run_model(ID, [c for _, c in todo])):
            _CACHE[k] = r
    return [_CACHE[k] for k in keys]


def analysis_call(table, start, progs, ord_=0):
    return (3, [FUEL, ord_, 1, canon_table(table), start, progs])


def decode_analysis(raw):
    if raw[0] not in (1, 2):
        return None
    out = {"before": raw[1], "count_before": raw[2], "dead_before": canon_dead(raw[3]), "nodup": raw[4], "cleaned": raw[0] == 1}
    if raw[0] == 1:
        out.update({"after": raw[5], "count_after": raw[6], "dead_after": canon_dead(raw[7])})
    return out


def phase2(case, io):
    """Checks that need the implementation's own tables.  Returns (ok, dead ends of the
    implementation's final table, dead ends of the model's clean / product run on the
    implementation's input tables)."""
    k = case["kind"]
    progs = case["data"][-1]
    if k == "build":
        ra, rb = model_calls([analysis_call(io["raw"], io["start"], progs, 1), analysis_call(io["tbl"], io["start"], progs)])
        a, b = decode_analysis(ra), decode_analysis(rb)
        if a is None or b is None or not a["cleaned"]:
            return False, [], []
        ok = (a["after"] == io["in"] and a["before"] == a["after"] and b["before"] == io["in"]
              and a["nodup"] == 1 and b["nodup"] == 1
              and b["count_before"] == io["count"] and a["count_after"] == io["count"])
        return ok, b["dead_before"], a["dead_after"]
    if k == "product":
        raw, rb = model_calls([(2, [FUEL, 0, 1, canon_table(io["t1"]), io["s1"], canon_table(io["t2"]), io["s2"], progs]),
                               analysis_call(io["tbl"], io["start"], progs)])
        b = decode_analysis(rb)
        if raw[0] != 1 or b is None:
            return False, [], []
        _, b1, b2, bp, cnt, compat, dead, nodup = raw
        ok = (b1 == io["in1"] and b2 == io["in2"] and bp == io["in"] and cnt == io["count"] and compat == 1
              and nodup == 1 and b["nodup"] == 1 and b["before"] == io["in"] and b["count_before"] == io["count"])
        return ok, b["dead_before"], canon_dead(dead)
    b = decode_analysis(model_calls([analysis_call(io["tbl"], io["start"], progs)])[0])
    if b is None:
        return False, [], []
    ok = b["before"] == io["in"] and b["count_before"] == io["count"] and b["nodup"] == 1
    return ok, b["dead_before"], None


def basic_agree(case, io, mo):
    k = case["kind"]
    if k == "build":
        return io["in"] == mo["in"] and io["count"] == mo["count"] and io["treq"] == mo["treq"]
    if k == "product":
        comp = io["in1"] if mo["which"] == 1 else io["in2"]
        return (io["in"] == [a & b for a, b in zip(io["in1"], io["in2"])] and comp == mo["in_c"]
                and io["treq"] == mo["treq"])
    return io["before"] == mo["before"] and io["in"] == mo["in"] and io["count"] == mo["count"]


def agree(case, io, mo):
    if not isinstance(io, dict) or "in" not in io:
        return False
    if "re" in io and io["re"] != {k: io[k] for k in ("in", "count", "treq")}:
        return False              # a second clean() changed membership, programs() or the type request
    if not basic_agree(case, io, mo):
        return False
    ok, dead, _ = phase2(case, io)
    return ok and not dead


def nontrivial(case, mo):
    bits = mo.get("in", mo.get("in_c", []))
    return 0 < sum(bits) < len(bits) and (mo.get("count", 3) >= 3)


# ----------------------------------------------------------------------------
# reporting
# ----------------------------------------------------------------------------
def show_ty(t):
    if t[0] == 0:
        return S.TYPE_NAMES.get(t[1], "t%d" % t[1])
    if t[0] == 1:
        return "(%s -> %s)" % (show_ty(t[1]), show_ty(t[2]))
    if t[0] == 2:
        return " ".join(show_ty(x) for x in t[2:]) + " " + S.TYPE_NAMES.get(t[1], "t%d" % t[1])
    return str(t)


def show_spec(spec):
    mode, params = spec
    what = {0: "size_constraint(max_size=%d)", 1: "at_most_k(%s, k=%d)", 2: "CFG.depth_constraint(max_depth=%d, min_variable_depth=%d)"}[mode[0]]
    what = what % tuple([S.prim_name(mode[1])] + mode[2:] if mode[0] == 1 else mode[1:])
    return {"grammar": what, "dsl": {S.prim_name(n): show_ty(t) for n, t in params[0]},
            "forbidden": [[S.prim_name(k[0]), k[1], [S.prim_name(x) for x in v]] for k, v in params[1]],
            "request": show_ty(params[2]), "n_gram": params[3]}


def describe(case, mo):
    k = case["kind"]
    progs = case["data"][-1]
    bits = mo.get("in", mo.get("in_c", []))
    d = {"kind": k, "candidates": [[P.show_prog(p), b] for p, b in list(zip(progs, bits))[:12]],
         "also_observed": "membership, programs() and type_request again after a second clean() (must be unchanged)"}
    if k == "build":
        d.update(show_spec(case["data"][0]))
        d["programs()"] = mo["count"]
    elif k == "product":
        d["left"] = show_spec(case["data"][0])
        d["right"] = show_spec(case["data"][1])
    else:
        d["non_terminals"] = len(case["data"][0])
        d["programs()"] = mo["count"]
    return d


def used_prims(progs):
    used = set()
    for p in progs:
        for q in P.subprogs(p):
            if q[1][0] == 0:
                used.add(q[1][1])
    return used


def drop_prim(spec, n):
    mode, params = spec
    if mode[0] == 1 and mode[1] == n:
        return None
    prims = [p for p in params[0] if p[0] != n]
    forb = [[kk, [x for x in v if x != n]] for kk, v in params[1] if kk[0] != n]
    return [mode, [prims, forb] + params[2:]]


def shrink(case):
    k = case["kind"]
    progs = case["data"][-1]
    head = case["data"][:-1]

    def mk(h, ps):
        return {"kind": k, "fam": case.get("fam", ""), "data": list(h) + [ps]}

    if len(progs) > 1:
        h = len(progs) // 2
        yield mk(head, progs[:h])
        yield mk(head, progs[h:])
        if len(progs) <= 8:
            for i in range(len(progs)):
                yield mk(head, progs[:i] + progs[i + 1:])
    if k in ("build", "product"):
        specs = head
        used = used_prims(progs)
        for n, _ in specs[0][1][0]:
            if n not in used or len(progs) <= 3:
                ns = [drop_prim(s, n) for s in specs]
                if any(s is None for s in ns):
                    continue
                keep = [p for p in progs if n not in used_prims([p])]
                if keep:
                    yield mk(ns, keep)
        for i in range(len(specs[0][1][1])):
            ns = [[s[0], [s[1][0], s[1][1][:i] + s[1][1][i + 1:]] + s[1][2:]] for s in specs]
            yield mk(ns, progs)
        for j, s in enumerate(specs):
            mode = s[0]
            if mode[0] in (0, 2) and mode[1] > 1:
                ns = list(specs)
                ns[j] = [[mode[0], mode[1] - 1] + mode[2:], s[1]]
                yield mk(ns, progs)
            if mode[0] == 1 and mode[2] > 0:
                ns = list(specs)
                ns[j] = [[1, mode[1], mode[2] - 1], s[1]]
                yield mk(ns, progs)
    else:
        table, start = head
        for i in range(len(table)):
            if table[i][0] != start:
                yield mk([table[:i] + table[i + 1:], start], progs)
        for i in range(len(table)):
            for j in range(len(table[i][1])):
                t2 = [list(e) for e in table]
                t2[i] = [table[i][0], table[i][1][:j] + table[i][1][j + 1:]]
                yield mk([t2, start], progs)


def has_arrow_argument(request):
    return any(a[0] == 1 for a in D.arrow_parts(request)[0])


def classify(case, io, mo):
    """Names a recorded defect only when it explains the whole disagreement."""
    if not isinstance(io, dict) or "in" not in io:
        return None
    from lib import core
    k = case["kind"]
    if "re" in io and io["re"] != {kk: io[kk] for kk in ("in", "count", "treq")}:
        return None               # a second clean() changed something observable: no recorded defect does that
    if not basic_agree(case, io, mo):
        if k == "clean":
            return None
        # which specification does the implementation follow instead?
        if k == "build":
            specs = [case["data"][0]]
        else:
            specs = [case["data"][0] if mo["which"] == 1 else case["data"][1]]
            if io["in"] != [a & b for a, b in zip(io["in1"], io["in2"])] or io["treq"] != mo["treq"]:
                return None
        spec = specs[0]
        progs = case["data"][-1]
        params = spec[1]
        tries = []
        if has_arrow_argument(params[2]):
            tries.append(("c13_no_variable_application", [1, 1, 0, 1, 1, 1, 0], True))
        if params[3] < 2 and params[1]:
            tries.append(("c13_ngram1_forbidden", ALL_FIXED, False))
            if has_arrow_argument(params[2]):
                tries.append(("c13_ngram1_forbidden", [1, 1, 0, 1, 1, 1, 0], False))
        for name, flags, effective in tries:
            raw = model_calls([builder_call(spec, progs, flags, effective)])[0]
            if raw[0] != 1:
                continue
            m = decode_builder(raw)
            if k == "build":
                same = io["in"] == m["in"] and io["count"] == m["count"] and io["treq"] == mo["treq"]
            else:
                same = (io["in1"] if mo["which"] == 1 else io["in2"]) == m["in"]
            if same:
                ok, _, _ = phase2(case, io)
                return name if ok else None
        return None
    ok, dead, dead_model = phase2(case, io)
    if ok and dead:
        # the recorded defect explains it iff clean() as coded leaves exactly these dead ends:
        # on the model's own (correct) input table and, run by the model, on the implementation's input
        if k == "build":
            refs = [mo["dead"]]
            spec, progs = case["data"]
            if has_arrow_argument(spec[1][2]):
                raw = model_calls([builder_call(spec, progs, [1, 1, 0, 1, 1, 1, 0], True)])[0]
                if raw[0] == 1:
                    refs.append(canon_dead(decode_builder(raw)["complete"]))
            return "c13_clean_dead_ends" if dead in refs and dead == dead_model else None
        if k == "clean":
            return "c13_clean_dead_ends" if dead == mo["dead"] else None
        return "c13_clean_dead_ends" if dead == dead_model else None
    return None


def theorem_for(case):
    k = case["kind"]
    if k == "build":
        return "C13_size_language / C13_at_most_k (membership <-> sized / at_most), C13_count, C13_type_request, C13_clean_language"
    if k == "product":
        return "C13_product (contains (g1 * g2) p = contains g1 p && contains g2 p), C13_count"
    return "C13_clean_language (contains (clean g) p = contains g p), C13_count"
