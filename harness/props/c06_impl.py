"""Implementation runner for C06: builds the real DFTA / CFG objects, converts
them with UCFG.from_DFTA / from_DFTA_with_ngrams / from_CFG and reports, per
program, membership and the number of derivations, plus programs() and the
sizes of the start set and of the rule table.  Non-terminal names are never
reported."""
import random

from synth.syntax.automata.tree_automaton import DFTA
from synth.syntax.grammars.cfg import CFG
from synth.syntax.grammars.u_cfg import UCFG
from synth.syntax.program import Function
from synth.syntax.type_system import Type
from lib import objs as O
from lib import semantics as S
from lib import c06common as K


def dec_state(w):
    if isinstance(w, int):
        return w
    if w[0] == 0:
        return O.ty(w[1])
    return tuple(dec_state(x) for x in w[1:])


def enc_state(q):
    if isinstance(q, Type):
        return [0, O.ty_wire(q)]
    if isinstance(q, tuple):
        return [1] + [enc_state(x) for x in q]
    if isinstance(q, int):
        return int(q)
    raise TypeError("state component %r" % (q,))


def build(aut):
    rules = {}
    for l, args, d in aut[0]:
        rules[(O.sym(l), tuple(dec_state(a) for a in args))] = dec_state(d)
    return DFTA(rules, {dec_state(q) for q in aut[1]})


def aut_wire(dfta):
    rules = [[O.sym_wire(P), [enc_state(a) for a in args], enc_state(d)] for (P, args), d in dfta.rules.items()]
    return [rules, [enc_state(q) for q in dfta.finals]]


def run(dfta, p):
    """the automaton's own bottom-up run (DFTA.read)"""
    if isinstance(p, Function):
        qs = []
        for a in p.arguments:
            q = run(dfta, a)
            if q is None:
                return None
            qs.append(q)
        return dfta.read(p.function, tuple(qs))
    return dfta.read(p, ())


def obs(make, ps, skip=False):
    if skip:
        return [3]
    try:
        g = make()
    except (KeyError, IndexError, TypeError, ValueError) as e:
        return [2, type(e).__name__]
    per = []
    for p in ps:
        m = 1 if p in g else 0
        try:
            nd = len(g.reduce_derivations(lambda a, *_: a, 0, p))
        except (KeyError, IndexError, TypeError, UnboundLocalError) as e:
            nd = -1
        per.append([m, nd])
    try:
        count = g.programs()
    except RecursionError:
        count = -2                 # the grammar has a cycle
    return [0, len(g.starts), len(g.rules), count, per]


def cyclic(o):
    return o[0] == 0 and o[3] == -2


def conversions(make_dfta, widths, ps):
    out = []
    # clean() explores (stack, non-terminal) pairs and does not terminate on a grammar with a cycle: not run then
    out.append(obs(lambda: UCFG.from_DFTA(make_dfta(), clean=False), ps))
    out.append(obs(lambda: UCFG.from_DFTA(make_dfta()), ps, cyclic(out[-1])))     # clean=True is the default
    for n in widths:
        out.append(obs(lambda: UCFG.from_DFTA_with_ngrams(make_dfta(), n), ps))     # clean=False is the default
        out.append(obs(lambda: UCFG.from_DFTA_with_ngrams(make_dfta(), n, clean=True), ps, cyclic(out[-1])))
    return out


def sharp_dfta(data):
    from synth.syntax.dsl import DSL
    from synth.filter.constraints.dfta_constraints import add_dfta_constraints
    depth, cons, sketch = data["depth"], data["constraints"], data["sketch"]
    syntax = {S.PRIMS[n][0]: O.ty(S.PRIMS[n][2]) for n in K_SHARP_PRIMS}
    dsl = DSL(syntax)
    cfg = CFG.depth_constraint(dsl, O.ty(S.ARROW(S.INT, S.INT)), depth)
    return add_dfta_constraints(cfg, [SHARP_CONSTRAINTS[i] for i in cons],
                                None if sketch is None else SHARP_CONSTRAINTS[sketch], progress=False)


K_SHARP_PRIMS = [0, 1, 6, 5]           # add, sub, one, zero of lib/semantics.py
# the constraint strings of tests/filtering/constraints/test_dfta_constraints.py over that DSL
SHARP_CONSTRAINTS = [
    "(add one _)", "(add one (sub _ one))", "(add one (add _ one))", "(sub #(one)<=1 _)", "(sub _ #(one)>=2)",
    "(add >^(var0) _)", "(add >(var0) _)", "(add one ^zero)", "(sub _ ^zero)", "(sub ^zero _)", "(add ^add _)",
    "(sub ^sub _)",
]


def impl(case):
    k = case["kind"]
    if k.startswith("cfg/"):
        from props.c01_impl import build_dsl
        params, progs = case["data"]
        prims, forbidden, request, max_depth, min_var, n_gram, const_types = params
        consts = {O.ty(t) for t in const_types}

        def mk():
            return CFG.depth_constraint(build_dsl(prims, forbidden), O.ty(request), max_depth, min_var, n_gram, False, consts)
        try:
            cfg = mk()
        except KeyError:
            return {"skipped": "empty language (C01 finding c01_empty_language_raises)"}
        ps = [O.prog(w) for w in progs]
        return {"cfg_in": [1 if p in cfg else 0 for p in ps], "cfg_count": cfg.programs(),
                "conv": [obs(lambda: UCFG.from_CFG(mk(), False), ps), obs(lambda: UCFG.from_CFG(mk(), True), ps)]}
    out = {}
    if k.startswith("sharp"):
        data = case["data"]
        dfta = sharp_dfta(data)
        aut = aut_wire(dfta)
        progs = K.candidate_programs(aut, data["cap"], random.Random(data["seed"]))
        out["aut"] = aut
        out["progs"] = progs
        widths = data["widths"]
        make = lambda: dfta                      # the sharpened object itself (conversions do not mutate it)
    else:
        aut, widths, progs = case["data"]
        make = lambda: build(aut)
        dfta = make()
        if case.get("inplace") is not None and aut[0]:
            # one automaton OBJECT with a history: it is first converted while one rule points elsewhere,
            # then that rule is re-targeted in place (dfta.rules[key] = state, the idiom of the sharpening
            # code) and every conversion below is done on the same object
            i, other = case["inplace"]
            l, args, d = aut[0][i % len(aut[0])]
            key = (O.sym(l), tuple(dec_state(a) for a in args))
            shared = build(aut)
            shared.rules[key] = dec_state(other)
            for conv in (lambda: UCFG.from_DFTA(shared, clean=False), lambda: UCFG.from_DFTA_with_ngrams(shared, 2)):
                try:
                    conv()
                except Exception:
                    pass
            shared.rules[key] = dec_state(d)
            make = lambda: shared
            dfta = shared
            # another grammar of the same process with the same rule table but other start symbols
            # (the same automaton with other final states), counted first: grammars are keys of caches
            alt = build(aut)
            states = sorted({v for v in alt.rules.values()}, key=repr)
            fin = set(alt.finals)
            ftypes = {q[0] for q in fin if isinstance(q, tuple)}
            extra = [q for q in states if q not in fin and isinstance(q, tuple) and q[0] in ftypes]
            if extra:
                alt.finals = fin | {extra[0]}              # one more start symbol of the same type
            elif len(fin) > 1:
                alt.finals = set(sorted(fin, key=repr)[1:])
            else:
                alt.finals = {q for q in states if q not in fin} or set(states[:1])
            try:
                UCFG.from_DFTA(alt, clean=False).programs()
                UCFG.from_DFTA_with_ngrams(alt, 2).programs()
            except Exception:
                pass
    ps = [O.prog(w) for w in progs]
    fin = dfta.finals
    out["accept"] = [1 if (lambda q: q is not None and q in fin)(run(dfta, p)) else 0 for p in ps]
    out["conv"] = conversions(make, widths, ps)
    return out
