"""C10 implementation runner: drives NaivePBESolver / CutoffPBESolver.solve
with a stub enumerator replaying a program list."""
from synth.pbe.solvers.pbe_solver import CutoffPBESolver, NaivePBESolver
from synth.semantic.evaluator import DSLEvaluator
from synth.specification import PBE, Example
from synth.syntax.grammars.enumeration.program_enumerator import ProgramEnumerator
from synth.task import Task
from lib import objs as O
from lib import semantics as S


class Replay(ProgramEnumerator):
    """Enumerator that yields the given programs in order."""

    def __init__(self, programs):
        super().__init__(None)
        self.programs = programs

    @classmethod
    def name(cls):
        return "replay"

    def generator(self):
        for p in self.programs:
            yield p

    def programs_in_banks(self):
        return 0

    def programs_in_queues(self):
        return 0

    def probability(self, program):
        return 0.5

    def clone(self, grammar):
        return Replay(self.programs)


SENT = {1: True, 2: False, 3: None, 4: 1, 5: 0, 6: [], 7: "no"}


def impl(case):
    kind, use_cache, skip, request, tasks = case["data"]
    if case.get("decoy"):
        # a second evaluator with other semantics evaluates the same programs on the same
        # inputs first: evaluators (and solvers built on them) must not share state
        sem = O.semantics_dict(sorted(S.PRIMS))
        twisted = {P: (S.Clos(1) if P.primitive == "add" else S.Clos(0) if P.primitive == "sub" else
                       S.Clos(21) if P.primitive == "inc" else 7 if P.primitive == "one" else v)
                   for P, v in sem.items()}
        decoy = DSLEvaluator(twisted, use_cache=True)
        decoy.skip_exceptions = {S.EXC_BY_ID[i] for i in (0, 1, 2, 3)}
        for examples, progs, answers in tasks:
            for w in progs:
                for i, o in examples:
                    try:
                        decoy.eval(O.prog(w), [S.value_from_wire(v) for v in i])
                    except Exception:
                        pass
    ev = DSLEvaluator(O.semantics_dict(sorted(S.PRIMS)), use_cache=bool(use_cache))
    ev.skip_exceptions = {S.EXC_BY_ID[i] for i in skip}
    solver = (NaivePBESolver, CutoffPBESolver)[kind](ev)
    type_request = O.ty(request)
    out = []
    for examples, progs, answers in tasks:
        programs = [O.prog(w) for w in progs]
        index = {id(p): i for i, p in enumerate(programs)}
        task = Task(type_request, PBE([Example([S.value_from_wire(v) for v in i], S.value_from_wire(o))
                                       for i, o in examples]))
        gen = solver.solve(task, Replay(programs), 1e9)
        events = []
        for a in answers:
            try:
                p = next(gen) if a == 0 else gen.send(SENT[a])
                events.append([0, index.get(id(p), -1)])
            except StopIteration:
                events.append([1])
            except Exception as ex:
                if type(ex) in S.EXC_IDS:
                    events.append([2, S.EXC_IDS[type(ex)]])
                else:
                    events.append([2, -1, type(ex).__name__, str(ex)[:200]])
        gen.close()
        out.append([events, solver.get_stats("programs")])
    return out
