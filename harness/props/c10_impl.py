"""C10 implementation runner: drives NaivePBESolver / CutoffPBESolver.solve
with a stub enumerator replaying a program list (kinds tasks, zero), and
RestartPBESolver.solve around those sub-solvers with scripted enumerators whose
clone() hands out the next scripted enumeration (kind restart) or with the real
heap search enumerator (kind restart_real)."""
from synth.pbe.solvers.pbe_solver import CutoffPBESolver, NaivePBESolver
from synth.semantic.evaluator import DSLEvaluator
from synth.specification import PBE, Example
from synth.syntax.grammars.enumeration.program_enumerator import ProgramEnumerator
from synth.task import Task
from lib import objs as O
from lib import semantics as S


class Replay(ProgramEnumerator):
    """Enumerator that yields the given programs in order."""

    def __init__(self, programs):
        super().__init__(None)
        self.programs = programs

    @classmethod
    def name(cls):
        return "replay"

    def generator(self):
        for p in self.programs:
            yield p

    def programs_in_banks(self):
        return 0

    def programs_in_queues(self):
        return 0

    def probability(self, program):
        return 0.5

    def clone(self, grammar):
        return Replay(self.programs)


SENT = {1: True, 2: False, 3: None, 4: 1, 5: 0, 6: [], 7: "no"}


def impl(case):
    if case["kind"] == "restart":
        return impl_restart(case)
    if case["kind"] == "restart_real":
        return impl_restart_real(case)
    kind, use_cache, skip, request, tasks = case["data"]
    if case.get("decoy"):
        # a second evaluator with other semantics evaluates the same programs on the same
        # inputs first: evaluators (and solvers built on them) must not share state
        sem = O.semantics_dict(sorted(S.PRIMS))
        twisted = {P: (S.Clos(1) if P.primitive == "add" else S.Clos(0) if P.primitive == "sub" else
                       S.Clos(21) if P.primitive == "inc" else 7 if P.primitive == "one" else v)
                   for P, v in sem.items()}
        decoy = DSLEvaluator(twisted, use_cache=True)
        decoy.skip_exceptions = {S.EXC_BY_ID[i] for i in (0, 1, 2, 3)}
        for examples, progs, answers in tasks:
            for w in progs:
                for i, o in examples:
                    try:
                        decoy.eval(O.prog(w), [S.value_from_wire(v) for v in i])
                    except Exception:
                        pass
    ev = DSLEvaluator(O.semantics_dict(sorted(S.PRIMS)), use_cache=bool(use_cache))
    ev.skip_exceptions = {S.EXC_BY_ID[i] for i in skip}
    solver = (NaivePBESolver, CutoffPBESolver)[kind](ev)
    type_request = O.ty(request)
    out = []
    for examples, progs, answers in tasks:
        programs = [O.prog(w) for w in progs]
        index = {id(p): i for i, p in enumerate(programs)}
        task = Task(type_request, PBE([Example([S.value_from_wire(v) for v in i], S.value_from_wire(o))
                                       for i, o in examples]))
        gen = solver.solve(task, Replay(programs), 1e9)
        events = []
        for a in answers:
            try:
                p = next(gen) if a == 0 else gen.send(SENT[a])
                events.append([0, index.get(id(p), -1)])
            except StopIteration:
                events.append([1])
            except Exception as ex:
                if type(ex) in S.EXC_IDS:
                    events.append([2, S.EXC_IDS[type(ex)]])
                else:
                    events.append([2, -1, type(ex).__name__, str(ex)[:200]])
        gen.close()
        out.append([events, solver.get_stats("programs")])
    return out


# ----------------------------------------------------------------------------
# RestartPBESolver
# ----------------------------------------------------------------------------
PRIORS = [0.05, 0.5, 0.001]
E_RUNTIME = 100   # RuntimeError("generator raised StopIteration"), Sem/SolverRestart.v


def criterion(crit):
    c, n = crit
    if c == 0:
        return lambda s: len(s._data) - s._last_size > n
    if c == 1:
        m = max(n, 1)
        return lambda s: s._programs % m == 0
    return lambda s: len(s._data) >= n


_GRAMMARS = {}


def grammar_for(prim_ids, request, depth):
    """Uniform PCFG over the depth-bounded CFG of the DSL made of the given primitives."""
    from synth.syntax.dsl import DSL
    from synth.syntax.grammars.cfg import CFG
    from synth.syntax.grammars.tagged_det_grammar import ProbDetGrammar
    key = (tuple(prim_ids), repr(request), depth)
    if key not in _GRAMMARS:
        dsl = DSL({S.PRIMS[n][0]: O.ty(S.PRIMS[n][2]) for n in prim_ids})
        cfg = CFG.depth_constraint(dsl, O.ty(request), depth, min_variable_depth=0)
        _GRAMMARS[key] = ProbDetGrammar.uniform(cfg)
    return _GRAMMARS[key]


def wire_depth(w):
    if w[0] == 0:
        return 1
    return 1 + max([1] + [wire_depth(a) for a in w[2:]])


def pcfg_ok(pcfg, base):
    """The grammar handed to clone(): same rules as the initial one, probabilities normalised."""
    try:
        if pcfg.grammar is not base.grammar and pcfg.grammar != base.grammar:
            return False
        for nt, rules in pcfg.probabilities.items():
            if set(rules) != set(base.probabilities[nt]):
                return False
            if any(not (w >= 0) for w in rules.values()) or abs(sum(rules.values()) - 1) > 1e-9:
                return False
        return set(pcfg.probabilities) == set(base.probabilities)
    except Exception:
        return False


class Scripted(ProgramEnumerator):
    """Enumerator number idx of a script: yields script[idx] in order (nothing
    past the end of the script); clone() gives enumerator idx + 1.  Carries a
    real probabilistic grammar G, as RestartPBESolver._restart_ needs."""

    def __init__(self, script, idx, G, base, log):
        super().__init__(None)
        self.script = script
        self.idx = idx
        self.G = G
        self.base = base
        self.log = log

    @classmethod
    def name(cls):
        return "scripted"

    def generator(self):
        for j, p in enumerate(self.script[self.idx] if self.idx < len(self.script) else []):
            self.log["drawn"].append((self.idx, j))
            yield p

    def programs_in_banks(self):
        return 0

    def programs_in_queues(self):
        return 0

    def probability(self, program):
        return 0.5

    def clone(self, grammar):
        self.log["clones"].append([len(self.log["drawn"]), pcfg_ok(grammar, self.base)])
        return Scripted(self.script, self.idx + 1, grammar, self.base, self.log)


def drive(gen, answers, yielded):
    events = []
    for a in answers:
        try:
            p = next(gen) if a == 0 else gen.send(SENT[a])
            events.append([0, yielded(p)])
        except StopIteration:
            events.append([1])
        except RuntimeError as ex:
            if "generator raised StopIteration" in str(ex):
                events.append([2, E_RUNTIME])
            else:
                events.append([2, -1, "RuntimeError", str(ex)[:200]])
        except Exception as ex:
            if type(ex) in S.EXC_IDS:
                events.append([2, S.EXC_IDS[type(ex)]])
            else:
                events.append([2, -1, type(ex).__name__, str(ex)[:200]])
    gen.close()
    return events


def restart_solver(kind, use_cache, skip, crit, prior, log):
    from synth.pbe.solvers.restart_pbe_solver import RestartPBESolver
    ev = DSLEvaluator(O.semantics_dict(sorted(S.PRIMS)), use_cache=bool(use_cache))
    ev.skip_exceptions = {S.EXC_BY_ID[i] for i in skip}
    solver = RestartPBESolver(ev, (NaivePBESolver, CutoffPBESolver)[kind], restart_criterion=criterion(crit),
                              uniform_prior=PRIORS[prior])
    sub_test = solver.subsolver._test_

    def logged_test(task, program):
        log["tested"].append(program)
        return sub_test(task, program)

    solver.subsolver._test_ = logged_test
    return solver


def impl_restart(case):
    kind, use_cache, skip, request, crit, prior, tasks = case["data"]
    log = {}
    solver = restart_solver(kind, use_cache, skip, crit, prior, log)
    type_request = O.ty(request)
    out = []
    for examples, streams, answers in tasks:
        script = [[O.prog(w) for w in st] for st in streams]
        coords = {id(p): [i, j] for i, st in enumerate(script) for j, p in enumerate(st)}
        depth = max([1] + [wire_depth(w) for st in streams for w in st])
        base = None
        for d in range(depth, 7):
            # CFG.depth_constraint raises when no program of the requested type fits in the bound (finding of C01)
            try:
                base = grammar_for(sorted(S.PRIMS), request, d)
                break
            except KeyError:
                continue
        missing = [[i, j] for i, st in enumerate(script) for j, p in enumerate(st) if p not in base]
        if missing:
            raise AssertionError("harness: scripted programs outside the grammar: %r" % missing[:5])
        log.update({"drawn": [], "tested": [], "clones": []})
        task = Task(type_request, PBE([Example([S.value_from_wire(v) for v in i], S.value_from_wire(o))
                                       for i, o in examples]))
        gen = solver.solve(task, Scripted(script, 0, base, base, log), 1e9)

        def rank(p):
            c = coords.get(id(p))
            return log["drawn"].index(tuple(c)) if c is not None and tuple(c) in log["drawn"] else -1

        events = drive(gen, answers, rank)
        data = [[rank(p), sc] for p, sc in solver._data]
        out.append([events, solver.get_stats("programs"), solver.get_stats("restarts"),
                    [list(c) for c in log["drawn"]], [coords.get(id(p), [-1, -1]) for p in log["tested"]],
                    [c[0] for c in log["clones"]], data, all(c[1] for c in log["clones"])])
    return out


class Logging(ProgramEnumerator):
    """The real enumerator behind a wrapper that records what each generator
    produces; generator number idx stops after caps[idx] programs (a finite
    enumerator), nothing after the last cap."""

    def __init__(self, inner, idx, caps, base, log):
        super().__init__(inner.filter)
        self.inner = inner
        self.idx = idx
        self.caps = caps
        self.base = base
        self.log = log

    @classmethod
    def name(cls):
        return "logging"

    @property
    def G(self):
        return self.inner.G

    def generator(self):
        import itertools
        while len(self.log["streams"]) <= self.idx:
            self.log["streams"].append([])
        # past the last cap the enumerators produce nothing: on a task without solution an eager criterion
        # would otherwise restart for ever (every clone enumerates the recorded programs again)
        cap = self.caps[self.idx] if self.idx < len(self.caps) else 0
        for p in itertools.islice(self.inner.generator(), cap):
            self.log["streams"][self.idx].append(p)
            self.log["drawn"].append(p)
            yield p

    def programs_in_banks(self):
        return self.inner.programs_in_banks()

    def programs_in_queues(self):
        return self.inner.programs_in_queues()

    def probability(self, program):
        return self.inner.probability(program)

    def clone(self, grammar):
        self.log["clones"].append([len(self.log["drawn"]), pcfg_ok(grammar, self.base)])
        return Logging(self.inner.clone(grammar), self.idx + 1, self.caps, self.base, self.log)


def impl_restart_real(case):
    from synth.syntax.grammars.enumeration.heap_search import enumerate_prob_grammar
    kind, use_cache, skip, request, crit, prior, prims, depth, caps, (examples, answers) = case["data"]
    log = {"drawn": [], "tested": [], "clones": [], "streams": []}
    solver = restart_solver(kind, use_cache, skip, crit, prior, log)
    base = grammar_for(prims, request, depth)
    task = Task(O.ty(request), PBE([Example([S.value_from_wire(v) for v in i], S.value_from_wire(o))
                                    for i, o in examples]))
    gen = solver.solve(task, Logging(enumerate_prob_grammar(base), 0, caps, base, log), 1e9)

    def rank(p, start=0):
        # heap search shares program objects between enumerations: the latest draw of that object
        for k in range(len(log["drawn"]) - 1, start - 1, -1):
            if log["drawn"][k] is p:
                return k
        return -1

    events = drive(gen, answers, rank)
    data = []
    prev = -1
    for p, sc in solver._data:
        # _data is filled in drawing order: the first draw of that object after the previous entry
        k = next((k for k in range(prev + 1, len(log["drawn"])) if log["drawn"][k] is p), -1)
        data.append([k, sc])
        prev = k if k >= 0 else prev
    return {"streams": [[O.prog_wire(p) for p in st] for st in log["streams"]],
            "tasks": [[events, solver.get_stats("programs"), solver.get_stats("restarts"),
                       [O.prog_wire(p) for p in log["drawn"]], [O.prog_wire(p) for p in log["tested"]],
                       [c[0] for c in log["clones"]], data, all(c[1] for c in log["clones"])]]}
