"""Implementation runner of C13: TTCFG.size_constraint / at_most_k, the product
of two grammars, TTCFG.clean and programs().  Besides the answers to queries it
serialises the implementation's own rule tables (wire format of Run/C13.v) so
that the model's product / clean can be run on exactly the implementation's
input tables; those are only ever compared by language, never by name."""
from synth.syntax.grammars.ttcfg import TTCFG
from synth.syntax.grammars.cfg import CFG
from synth.syntax.grammars.grammar import NGram
from synth.syntax.type_system import UnknownType
from lib import objs as O
from props.c01_impl import build_dsl


def state_wire(x):
    """Injective encoding of the S / T components as nested int lists."""
    if isinstance(x, NGram):
        return [0] + [[O.sym_wire(p), i] for p, i in x.predecessors]
    if isinstance(x, tuple):
        return [1] + [state_wire(y) for y in x]
    if isinstance(x, bool):
        return [4, int(x)]
    if isinstance(x, int):
        return [2, x] if x >= 0 else [5, -x]
    if x is None:
        return [3]
    raise ValueError("state %r" % (x,))


def state_obj(w):
    """Wire -> hashable Python state (used for the generated raw tables)."""
    if isinstance(w, int):
        return w
    return tuple(state_obj(y) for y in w)


def nt_wire(nt):
    return [O.ty_wire(nt[0]), state_wire(nt[1][0]), state_wire(nt[1][1])]


def table_wire(g):
    out = []
    for nt in g.rules:
        rs = []
        for P in g.rules[nt]:
            args, t = g.rules[nt][P]
            rs.append([O.sym_wire(P), [[O.ty_wire(a[0]), state_wire(a[1])] for a in args], state_wire(t)])
        out.append([nt_wire(nt), rs])
    return out


def make(spec, clean=True):
    """spec = [mode, params]; mode [0, max_size] | [1, prim, k] | [2, max_depth, min_var] (CFG.depth_constraint)."""
    mode, params = spec
    prims, forbidden, request, n_gram = params
    dsl = build_dsl(prims, forbidden)
    treq = O.ty(request)
    real = TTCFG.clean
    if not clean:
        TTCFG.clean = lambda self: None
    try:
        if mode[0] == 0:
            g = TTCFG.size_constraint(dsl, treq, mode[1], n_gram)
        elif mode[0] == 1:
            from lib import semantics as S
            g = TTCFG.at_most_k(dsl, treq, S.prim_name(mode[1]), mode[2], n_gram)
        else:
            g = CFG.depth_constraint(dsl, treq, mode[1], mode[2], n_gram)
    finally:
        TTCFG.clean = real
    return g


def answers(g, ps):
    return {"in": [1 if p in g else 0 for p in ps], "count": g.programs(), "treq": O.ty_wire(g.type_request)}


def impl(case):
    kind = case["kind"]
    if kind == "build":
        spec, progs = case["data"]
        ps = [O.prog(w) for w in progs]
        raw = make(spec, clean=False)
        out = {"raw": table_wire(raw), "start": nt_wire(raw.start)}
        g = make(spec)
        out.update(answers(g, ps))
        out["tbl"] = table_wire(g)
        g.clean()                      # cleaning again changes nothing a user can see
        out["re"] = answers(g, ps)
        return out
    if kind == "product":
        spec1, spec2, progs = case["data"]
        ps = [O.prog(w) for w in progs]
        g1 = make(spec1)
        g2 = make(spec2)
        out = {"t1": table_wire(g1), "s1": nt_wire(g1.start), "t2": table_wire(g2), "s2": nt_wire(g2.start),
               "in1": [1 if p in g1 else 0 for p in ps], "in2": [1 if p in g2 else 0 for p in ps]}
        g = g1 * g2
        out.update(answers(g, ps))
        out["tbl"] = table_wire(g)
        out["start"] = nt_wire(g.start)
        g.clean()
        out["re"] = answers(g, ps)
        return out
    if kind == "clean":
        table, start, progs = case["data"]
        ps = [O.prog(w) for w in progs]
        rules = {}
        for nt, rs in table:
            key = (O.ty(nt[0]), (state_obj(nt[1]), state_obj(nt[2])))
            rules[key] = {}
            for sy, args, t in rs:
                rules[key][O.sym(sy)] = ([(O.ty(a[0]), state_obj(a[1])) for a in args], state_obj(t))
        st = (O.ty(start[0]), (state_obj(start[1]), state_obj(start[2])))
        g = TTCFG(st, rules, clean=False)
        out = {"before": [1 if p in g else 0 for p in ps]}
        g.clean()
        out.update(answers(g, ps))
        out["tbl"] = table_wire(g)
        out["start"] = nt_wire(g.start)
        return out
    raise ValueError(kind)
