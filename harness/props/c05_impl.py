"""Implementation runner for C05: parse_specification and add_dfta_constraints
on the real code; reports the parsed token trees and, for every candidate
program, the bottom-up run of the returned automaton (DFTA.read), membership
of the reached state in the final states, and DFTAFilter.accept."""
from lib import objs as O
from lib import semantics as S


def text(cps):
    return "".join(chr(c) for c in cps)


def enc_syms(l):
    return [O.sym_wire(p) for p in l]


def enc_token(t):
    from synth.filter.constraints import parsing as Pa
    if isinstance(t, Pa.TokenAnything):
        return [0]
    if isinstance(t, Pa.TokenFunction):
        return [6, enc_syms(t.function.allowed), [enc_token(a) for a in t.args]]
    if isinstance(t, Pa.TokenAllow):
        return [1, enc_syms(t.allowed)]
    if isinstance(t, Pa.TokenAtMost):
        return [2, enc_syms(t.to_count), t.count]
    if isinstance(t, Pa.TokenAtLeast):
        return [3, enc_syms(t.to_count), t.count]
    if isinstance(t, Pa.TokenForceSubtree):
        return [4, enc_syms(t.forced)]
    if isinstance(t, Pa.TokenForbidSubtree):
        return [5, enc_syms(t.forbidden)]
    raise TypeError(t)


def try_parse(spec, grammar):
    from synth.filter.constraints.parsing import parse_specification
    try:
        return [enc_token(parse_specification(spec, grammar))]
    except (AssertionError, ValueError, IndexError) as e:
        return {"exc": type(e).__name__}


def impl_parse(case):
    from synth.syntax.automata.tree_automaton import DFTA
    (prims, vars_), cps = case["data"]
    rules = {}
    for _, w in prims:
        rules[(O.sym(w), ())] = 0
    for _, w in vars_:
        rules[(O.sym(w), ())] = 0
    dfta = DFTA(rules, {0})
    return {"token": try_parse(text(cps), dfta)}


def run_prog(dfta, p):
    from synth.syntax.program import Function
    if isinstance(p, Function):
        args = []
        for a in p.arguments:
            q = run_prog(dfta, a)
            if q is None:
                return None
            args.append(q)
        return dfta.read(p.function, tuple(args))
    return dfta.read(p, ())


def impl_sharpen(case):
    from synth.syntax.grammars.cfg import CFG
    from synth.filter.constraints.dfta_constraints import add_dfta_constraints
    from synth.filter.dfta_filter import DFTAFilter
    from props.c01_impl import build_dsl
    params, names, cons, sketch, progs = case["data"]
    prims, forbidden, request, max_depth, min_var, n_gram, const_types = params
    dsl = build_dsl(prims, forbidden)
    treq = O.ty(request)
    consts = {O.ty(t) for t in const_types}
    cfg = CFG.depth_constraint(dsl, treq, max_depth, min_var, n_gram, False, consts)
    ps = [O.prog(w) for w in progs]
    out = {"base": [1 if p in cfg else 0 for p in ps]}
    ctexts = [text(c) for c in cons]
    stext = text(sketch[0]) if sketch else None
    out["tokens"] = [try_parse(c, cfg) for c in ctexts]
    out["sketch"] = try_parse(stext, cfg) if stext is not None else None
    try:
        dfta = add_dfta_constraints(cfg, ctexts, stext, progress=False)
    except (AssertionError, ValueError, IndexError) as e:
        out["exc"] = type(e).__name__
        out["msg"] = str(e)[:120]
        return out
    filt = DFTAFilter(dfta)
    acc, has, fil = [], [], []
    for p in ps:
        q = run_prog(dfta, p)
        has.append(0 if q is None else 1)
        acc.append(1 if (q is not None and q in dfta.finals) else 0)
        fil.append(1 if filt.accept(p) else 0)
    out["accepted"] = acc
    out["has_run"] = has
    out["filter"] = fil
    out["n_rules"] = len(dfta.rules)
    return out


def impl(case):
    if case["kind"] == "parse":
        return impl_parse(case)
    return impl_sharpen(case)
