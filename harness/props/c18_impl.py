"""Implementation runner of C18 (runs with PYTHONPATH=<repo>:harness).

scripted cases: TaskGenerator with samplers replaying explicit streams.
real cases: real seeded samplers and grammars, every draw recorded from the
outside; the same configurations are run again in a child interpreter with
another PYTHONHASHSEED."""
import json
import os
import subprocess
import sys

import types

import synth

# synth/pbe/__init__.py imports the neural encoders (torch: 3-50 s per process);
# task_generator.py itself does not need them.  Import the module under test
# without running the package's __init__ (falls back to the plain import).
if "synth.pbe" not in sys.modules:
    _pkg = types.ModuleType("synth.pbe")
    _pkg.__path__ = [os.path.join(os.path.dirname(synth.__file__), "pbe")]
    sys.modules["synth.pbe"] = _pkg
    try:
        import synth.pbe.task_generator  # noqa: F401
    except Exception:
        for _k in [k for k in sys.modules if k == "synth.pbe" or k.startswith("synth.pbe.")]:
            del sys.modules[_k]

from synth.generation.sampler import LexiconSampler, ListSampler, Sampler, UnionSampler
from synth.pbe.task_generator import TaskGenerator, basic_output_validator
from synth.semantic.evaluator import DSLEvaluator
from lib import objs as O
from lib import semantics as S

SEM_EXC = (ZeroDivisionError, IndexError, ValueError, TypeError)


class OutOfStream(Exception):
    """A scripted sampler was asked for more than its stream holds."""

    def __init__(self, code):
        super().__init__(code)
        self.code = code


class HarnessStop(Exception):
    """The real leg draws at most a fixed number of type requests per run."""


# ----------------------------------------------------------------------------
# scripted samplers
# ----------------------------------------------------------------------------
class ScriptedSampler(Sampler):
    def __init__(self, items, code):
        self.items = list(items)
        self.pos = 0
        self.code = code
        self.last = None

    def sample(self, **kwargs):
        if self.pos >= len(self.items):
            raise OutOfStream(self.code)
        self.last = self.items[self.pos]
        self.pos += 1
        return self.last


class ScriptedInputSampler(Sampler):
    def __init__(self, streams):
        # streams: [(Type, wire type, [values])]
        self.streams = {t: (w, list(vs)) for t, w, vs in streams}
        self.pos = {t: 0 for t in self.streams}

    def sample(self, type=None, **kwargs):
        if type not in self.streams:
            raise OutOfStream([1, 3, O.ty_wire(type)])
        w, vs = self.streams[type]
        i = self.pos[type]
        if i >= len(vs):
            raise OutOfStream([1, 3, w])
        self.pos[type] = i + 1
        return vs[i]


class ScriptedGrammar:
    """What TaskGenerator needs from a ProbDetGrammar: type_request and sample_program()."""

    def __init__(self, type_request, wire, programs):
        self.type_request = type_request
        self.wire = wire
        self.programs = list(programs)
        self.pos = 0

    def sample_program(self):
        if self.pos >= len(self.programs):
            raise OutOfStream([1, 1, self.wire])
        p = self.programs[self.pos]
        self.pos += 1
        return p


def make_validator(spec):
    lo, hi, maxlen, allow_none, allow_bool = spec
    dico = {int: list(range(lo, hi + 1))}
    if allow_bool:
        dico[bool] = {True, False}
    if allow_none:
        dico[type(None)] = [None]
    return basic_output_validator(dico, maxlen)


def task_wire(task, drawn):
    exs = [[[S.value_to_wire(v) for v in ex.inputs], S.value_to_wire(ex.output)] for ex in task.specification.examples]
    return [O.ty_wire(task.type_request), O.prog_wire(task.solution), exs, task.metadata["tries"],
            1 if task.metadata["unique"] else 0, drawn]


def run_tasks(gen, n, last_count):
    """n calls of generate_task; returns (tasks, final)."""
    tasks = []
    final = [0]
    for _ in range(n):
        try:
            t = gen.generate_task()
        except OutOfStream as e:
            final = e.code
            break
        except HarnessStop:
            final = [9]
            break
        except KeyError as e:
            k = e.args[0] if e.args else None
            from synth.syntax.type_system import Type
            if isinstance(k, Type):
                final = [2, O.ty_wire(k)]
                break
            raise
        except SEM_EXC as e:
            final = [3, S.EXC_IDS[type(e)]]
            break
        tasks.append(task_wire(t, last_count()))
    return tasks, final


def impl_scripted(case):
    mt, uniq, eskip, gskip, validator = case["settings"]
    reqs, progs, counts, inputs = case["oracle"]
    ev = DSLEvaluator(O.semantics_dict(sorted(S.PRIMS)))
    ev.skip_exceptions = {S.EXC_BY_ID[i] for i in eskip}
    treq = ScriptedSampler([O.ty(t) for t in reqs], [1, 0])
    tcount = ScriptedSampler(counts, [1, 2])
    tinput = ScriptedInputSampler([(O.ty(t), t, [S.value_from_wire(v) for v in vs]) for t, vs in inputs])
    grammars = [ScriptedGrammar(O.ty(t), t, [O.prog(p) for p in ps]) for t, ps in progs]
    gen = TaskGenerator(tinput, ev, treq, tcount, grammars, make_validator(validator), max_tries=mt,
                        uniques=bool(uniq), skip_exceptions={S.EXC_BY_ID[i] for i in gskip})
    tasks, final = run_tasks(gen, case["n"], lambda: tcount.last)
    return {"tasks": tasks, "final": final}


# ----------------------------------------------------------------------------
# real samplers, recorded from the outside
# ----------------------------------------------------------------------------
class Recorder(Sampler):
    """Delegates to a real sampler and logs what it returned."""

    def __init__(self, inner, log, keyed, limit=None):
        self.inner = inner
        self.log = log
        self.keyed = keyed
        self.limit = limit
        self.last = None

    def sample(self, **kwargs):
        if self.limit is not None and len(self.log) >= self.limit:
            raise HarnessStop()
        v = self.inner.sample(**kwargs)
        self.last = v
        if self.keyed:
            self.log.append((kwargs.get("type"), v))
        else:
            self.log.append(v)
        return v


def build_real(cfg):
    from synth.syntax.dsl import DSL
    from synth.syntax.grammars.cfg import CFG
    from synth.syntax.grammars.tagged_det_grammar import ProbDetGrammar
    from synth.syntax.type_system import INT, BOOL

    mt, uniq, eskip, gskip, validator = cfg["settings"]
    seeds = cfg["seeds"]
    syntax = {S.PRIMS[n][0]: O.ty(S.PRIMS[n][2]) for n in cfg["prims"]}
    dsl = DSL(syntax)
    reqs = [O.ty(t) for t in cfg["reqs"]]
    rec = {"reqs": [], "progs": [[] for _ in reqs], "counts": [], "inputs": []}
    grammars = []
    for i, t in enumerate(reqs):
        pg = ProbDetGrammar.uniform(CFG.depth_constraint(dsl, t, cfg["depth"]))
        pg.init_sampling(seeds["grammar"])
        inner = pg.sample_program

        def sample_program(*a, _inner=inner, _i=i, **k):
            p = _inner(*a, **k)
            if not a and not k:
                rec["progs"][_i].append(p)
            return p

        pg.sample_program = sample_program   # instance attribute: recursive calls go through it with arguments
        grammars.append(pg)
    ev = DSLEvaluator(O.semantics_dict(cfg["prims"]))
    ev.skip_exceptions = {S.EXC_BY_ID[i] for i in eskip}
    lo, hi = cfg["ints"]
    elements = UnionSampler({INT: LexiconSampler(list(range(lo, hi + 1)), seed=seeds["input"]),
                             BOOL: LexiconSampler([True, False], seed=seeds["input"] + 1)})
    inputs = ListSampler(elements, [(k, float(w)) for k, w in _normalise(cfg["lengths"])], max_depth=-1,
                         seed=seeds["len"])
    treq = Recorder(LexiconSampler(reqs, seed=seeds["type"]), rec["reqs"], False, limit=200)
    tcount = Recorder(LexiconSampler(cfg["counts"], seed=seeds["count"]), rec["counts"], False)
    tinput = Recorder(inputs, rec["inputs"], True)
    gen = TaskGenerator(tinput, ev, treq, tcount, grammars, make_validator(validator), max_tries=mt,
                        uniques=bool(uniq), skip_exceptions={S.EXC_BY_ID[i] for i in gskip})
    return gen, rec, tcount, reqs, grammars


def _normalise(lengths):
    tot = float(sum(w for _, w in lengths))
    return [(k, w / tot) for k, w in lengths]


def keyed_wire(pairs, conv):
    """[(Type, x)] in draw order -> [[type wire, [conv x ...]] ...] (order of first draw per type)."""
    out = []
    index = {}
    for t, x in pairs:
        if t not in index:
            index[t] = len(out)
            out.append([O.ty_wire(t), []])
        out[index[t]][1].append(conv(x))
    return out


def run_real(cfg, with_details=True):
    try:
        gen, rec, tcount, reqs, grammars = build_real(cfg)
        tasks_raw = []
        orig = gen.generate_task

        def wrapped():
            t = orig()
            tasks_raw.append(t)
            return t

        gen.generate_task = wrapped
        tasks, final = run_tasks(gen, cfg["n"], lambda: tcount.last)
    except Exception as e:  # construction failed or an unexpected exception escaped
        import traceback
        return {"crash": "%s: %s" % (type(e).__name__, str(e)[:200]), "tb": traceback.format_exc()[-800:]}
    out = {"tasks": tasks, "final": final}
    if with_details:
        declared = {t: g for t, g in zip(reqs, grammars)}
        registered = gen.type2pgrammar
        out["in_declared"] = [1 if (t.type_request in declared and t.solution in declared[t.type_request].grammar)
                              else 0 for t in tasks_raw]
        out["in_registered"] = [1 if (t.type_request in registered and
                                      t.solution in registered[t.type_request].grammar) else 0 for t in tasks_raw]
        # per grammar: the request it was built for, the key the generator files it under, whether it is
        # the grammar found under that key, the programs it was asked for
        out["grammars"] = [[O.ty_wire(t), O.ty_wire(g.type_request),
                            1 if registered.get(g.type_request) is g else 0,
                            [O.prog_wire(p) for p in rec["progs"][i]]]
                           for i, (t, g) in enumerate(zip(reqs, grammars))]
        out["rec"] = {"reqs": [O.ty_wire(t) for t in rec["reqs"]], "counts": list(rec["counts"]),
                      "inputs": keyed_wire(rec["inputs"], S.value_to_wire)}
    return out


def impl_real(case):
    runs = []
    for cfg in case["configs"]:
        r = run_real(cfg)
        if "crash" not in r:
            r2 = run_real(cfg, with_details=False)
            r["tasks2"], r["final2"] = r2.get("tasks"), r2.get("final")
        runs.append(r)
    # the same configurations under another hash seed
    env = dict(os.environ)
    env["PYTHONHASHSEED"] = str(case["alt"])
    alt = None
    try:
        p = subprocess.run([sys.executable, "-m", "props.c18_impl"], input=json.dumps(case["configs"]), text=True,
                           stdout=subprocess.PIPE, stderr=subprocess.PIPE, env=env, timeout=600)
        for line in p.stdout.splitlines():
            if line.startswith("ALT "):
                alt = json.loads(line[4:])
        if alt is None:
            alt = [{"crash": "child gave no answer (exit %s): %s" % (p.returncode, p.stderr[-400:])}] * len(runs)
    except subprocess.TimeoutExpired:
        alt = [{"crash": "child timed out"}] * len(runs)
    return {"runs": runs, "alt": alt}


def impl(case):
    if case["kind"] == "scripted":
        return impl_scripted(case)
    return impl_real(case)


if __name__ == "__main__":
    cfgs = json.load(sys.stdin)
    res = []
    for cfg in cfgs:
        r = run_real(cfg, with_details=False)
        r["hashseed"] = os.environ.get("PYTHONHASHSEED")
        res.append(r)
    print("ALT " + json.dumps(res), flush=True)
