"""C03: enumeration is best-first (non-increasing probability / non-decreasing cost)."""
import math
from fractions import Fraction
from lib import enumgen as EG
from lib import progs as P
from lib import semantics as S
from props import c02 as C02

ID = "C03"
IMPL_MODULE = "props.enum_impl"
MODEL_AFTER_IMPL = True
HASHSEEDS = {"quick": [0, 1], "thorough": [0, 1, 2, 3, 4, 5, 6, 7]}
CASE_TIMEOUT = 12
RULE = ("same grammar/weight/enumerator generator as C02 (independent random stream).  The implementation's rule table, its exact "
        "weights (floats as exact rationals) and its output sequence go to the verified order checkers: heap search and beap "
        "search: consecutive exact probabilities non-increasing up to a relative 2^-40; bee search: integer cost of the derivation "
        "(sum of the enumerator's own integer rule costs, each validated against -ln(p)*10^t within 1) non-decreasing; "
        "constant-delay search: integer cost never more than 2 units below the running maximum (the bucket queue merges costs "
        "within 1 of a cell's representative); bucket search: bucket tuple (recomputed per rule as size - int(p*size) - 1) "
        "lexicographically non-decreasing.  Non-trivial: >= 5 programs in the output and non-uniform weights.")
ASSUMPTIONS = ["floating-point: probabilities are compared as exact rationals of the floats the grammar holds, with a relative tolerance 2^-40 for the enumerators' own float products / sums of logarithms",
               "a run cut by the time limit (bee search blow-up, see C02) is still checked on the prefix it produced",
               "recursive grammars (CFG.depth_constraint with a negative bound): the first 60-300 outputs of heap, bucket, beap and constant-delay search are checked for order; for heap and beap search a threshold search over the implementation's own rule table (a TEST in the harness, exact rationals, budget 60000 expansions, inconclusive when exhausted) additionally checks that every program clearly more probable than the least probable output has been produced; the theorem C03_prefix_complete covers the clause for complete sorted enumerations",
               "u-heap-search is checked against the exact probability including the start-symbol weight; the bucket order of u-bucket-search is not checked"]



def gen(rng, tier):
    rng.seed(rng.getrandbits(64) ^ 0xC03)      # a stream of its own
    cases = C02.gen(rng, tier)
    # recursive grammars: the first 60-300 outputs of heap, beap and constant-delay search
    for i in range(40 if tier == "quick" else 300):
        cases.append(EG.gen_inf_case(rng, ["hs", "bps", "cd", "bps", "hs_bucket", "bps"][i % 6]))
    for i in range(12 if tier == "quick" else 120):
        cases.append(EG.gen_inf_cycle_case(rng, ["bps", "cd", "bps", "hs"][i % 4]))
    for i in range(12 if tier == "quick" else 120):
        cases.append(EG.gen_arity3_case(rng, ["hs", "hs", "hs_bucket", "bps", "hs", "cd"][i % 6]))
    return cases


usable = C02.usable
shrink = C02.shrink
slim = C02.slim
should_shrink = C02.should_shrink


def bucket_index(p_float, size):
    idx = size - int(p_float * size) - 1
    return idx if idx >= 0 else size + idx      # python's negative index wraps


def to_model(case, io):
    if not usable(io) or io.get("skip") or not io["out"]:
        return []
    if case["grammar"]["kind"] == "inf":
        # exact rational products of very long derivations are slow in the extracted model:
        # keep the longest prefix with at most 2500 nodes in total (still a prefix of the output)
        def nodes(w):
            return 1 if w[0] == 0 else 1 + sum(nodes(a) for a in w[2:])
        total, keep = 0, 0
        for p in io["out"]:
            total += nodes(p)
            if total > 2500:
                break
            keep += 1
        io["out"] = io["out"][:max(keep, 1)]
    en = case["enum"]
    if en == "hs_u":
        return [(12, [io["utable"], io["starts"], io["uweights"], io["sweights"], [1, 2 ** 40], io["out"]])]
    if en == "hs_bucket_u":
        return []       # bucket order on unambiguous grammars is not checked (only exactly-once, C02)
    tb, st, out = io["table"], io["start"], io["out"]
    if en in ("hs", "bps"):
        return [(2, [tb, st, 1, io["weights"], [1, 2 ** 40], out])]
    if en in ("bs", "cd"):
        return [(2, [tb, st, 2, io["costs"], 0 if en == "bs" else 2, out])]
    if en == "hs_bucket":
        size = case["params"].get("bucket_size", 3)
        tags = [[x, [[sy, [bucket_index(q[0] / q[1], size), 1]] for sy, q in ws]] for x, ws in io["weights"]]
        return [(2, [tb, st, 4, tags, size, out])]
    return []


def prefix_complete_above(io, q_min, cap=60000):
    import json
    table = {json.dumps(x): rs for x, rs in io["table"]}
    wts = {json.dumps(x): {json.dumps(sy): Fraction(q[0], q[1]) for sy, q in ws} for x, ws in io["weights"]}
    budget = [cap]
    bound = q_min * (1 + Fraction(1, 2 ** 30))

    def gen(nt, b):
        key = json.dumps(nt)
        for sy, (args, T) in table.get(key, []):
            w = wts.get(key, {}).get(json.dumps(sy))
            if w is None or w <= b:
                continue
            budget[0] -= 1
            if budget[0] < 0:
                raise OverflowError
            if not args:
                yield [0, sy], w, T
            else:
                for ps, q, Tout in seqs(args, T, w, b):
                    yield [1, sy] + ps, q, Tout

    def seqs(args, T, acc, b):
        if not args:
            yield [], acc, T
            return
        (ty, S) = args[0]
        # the remaining arguments contribute a factor <= 1: the whole program is above b only if
        # this argument alone keeps acc * q above b
        for p, q, T1 in gen([ty, S, T], b / acc):
            for ps, q2, T2 in seqs(args[1:], T1, acc * q, b):
                if q2 > b:
                    yield [p] + ps, q2, T2

    out = set(json.dumps(p) for p in io["out"])
    missing = []
    try:
        for p, q, _ in gen(io["start"], bound):
            if q > bound and json.dumps(p) not in out:
                missing.append(p)
                if len(missing) >= 3:
                    break
    except (OverflowError, RecursionError):
        return None
    return missing


def costs_consistent(case, io):
    """the integer rule costs the enumerator works with are those of its weights"""
    en = case["enum"]
    if "costs" not in io:
        return True
    if en not in ("bs", "cd"):
        return True
    mult = 10 ** case["params"].get("threshold", 2) if en == "bs" else 1.0 / case["params"].get("precision", 1e-5)
    for (x, ws), (x2, cs) in zip(io["weights"], io["costs"]):
        for (sy, q), (sy2, c) in zip(ws, cs):
            want = -math.log(Fraction(q[0], q[1])) * mult
            if abs(c[0] - want) > 1.0 + 1e-6 * abs(want):
                return False
    return True


def model_obs(case, raws, io):
    if not raws:
        return {"sorted": 1, "detail": None, "costs_ok": 1, "n_out": len(io["out"]), "unchecked": True} \
            if usable(io) and case["enum"] == "hs_bucket_u" else None
    r = raws[0]
    mo = {"sorted": r[0], "detail": r[1] if isinstance(r[1], int) else None,
          "costs_ok": 1 if costs_consistent(case, io) else 0, "n_out": len(io["out"])}
    if case["grammar"]["kind"] == "inf" and case["enum"] in ("hs", "bps") and r[0] == 1 and len(r) > 2:
        q_min = Fraction(r[2][0], r[2][1])
        miss = prefix_complete_above(io, q_min)
        mo["prefix_complete"] = None if miss is None else (1 if not miss else 0)
        if miss:
            mo["prefix_missing"] = [P.show_prog(p) for p in miss]
    if isinstance(r[1], list):
        mo["keys_head"] = r[1][:12]
        worst, mx = 0, None
        for k in r[1]:
            if mx is not None and mx - k > worst:
                worst = mx - k
            mx = k if mx is None else max(mx, k)
        mo["worst_inversion_units"] = worst
        if case["enum"] == "cd":
            mo["worst_inversion_log"] = worst * case["params"].get("precision", 1e-5)
            # the bucket queues of constant-delay search have k+1 cells over the cost spread M of a
            # non-terminal: programs whose costs fall into one cell (width M/k) come out together,
            # and this repeats at every nesting level
            cs = [c[0] for _, rs in io.get("costs", []) for _, c in rs]
            spread = (max(cs) - min(cs)) if cs else 0
            depth = max([P.prog_depth(p) for p in io["out"]] + [1])
            mo["cd_rule_cost_spread_units"] = spread
            mo["cd_cell_bound_units"] = int(depth * max(spread, 1) / max(case["params"].get("k", 10), 1)) + 2
    return mo


def agree(case, io, mo):
    if isinstance(io, dict) and io.get("skip"):
        return True
    if not usable(io):
        return False
    if not io["out"]:
        return True
    return mo is not None and mo["sorted"] == 1 and mo["costs_ok"] == 1 and mo.get("prefix_complete") != 0


def nontrivial(case, mo):
    return mo is not None and mo["n_out"] >= 5 and case["weights"]["kind"] != "uniform" and not mo.get("unchecked")


def describe(case, mo):
    d = C02.describe(case, None)
    d["order_check"] = mo
    return d


def classify(case, io, mo):
    if case.get("expect_ok"):
        # regression corpus: recorded as handled correctly by the unchanged tree under hash seeds 0-3
        # (tools/okcorpus.py); a failure now is a regression whatever its shape
        return None
    if case["enum"] == "cd" and mo is not None and mo["sorted"] == 0 and mo["costs_ok"] == 1 \
            and mo.get("worst_inversion_units", 10 ** 18) <= mo.get("cd_cell_bound_units", 0):
        return "c03_cd_order_inversions"
    if C02.hs_ttcfg_crash(case, io):
        return "c03_heap_search_ttcfg_order"
    if case["grammar"]["kind"] == "inf" and case["enum"] in ("hs", "hs_bucket") and mo is not None \
            and (mo["sorted"] == 0 or mo.get("prefix_complete") == 0) and mo["costs_ok"] == 1:
        return "c03_heap_search_recursive_order"
    if case["grammar"]["kind"] == "size" and case["enum"] in ("hs", "hs_bucket") and mo is not None \
            and mo["sorted"] == 0 and mo["costs_ok"] == 1:
        return "c03_heap_search_ttcfg_order"
    return None


def theorem_for(case):
    return {"hs": "C03_sorted_probabilities", "bps": "C03_sorted_probabilities", "bs": "C03_cost_slack_sorted (slack 0)",
            "cd": "C03_cost_slack_sorted (slack 2)", "hs_bucket": "C03_sorted_buckets"}.get(case["enum"], "C03")
