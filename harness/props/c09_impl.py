"""Implementation side of C09 (runs with PYTHONPATH=<repo>:harness).

Observables per case kind (all JSON-able):
  prepare   (not a check: builds real grammars and serialises them for the generator)
  table     PythonSampler tables for a weight vector
  draw      PythonSampler.sample_1 on a given table with a scripted rng
  det / u   sample_program with every VoseSampler replaced by a scripted one
  stat      40000 draws of a back-end sampler from a weight vector (counts)
  gstat     program counts of real grammar sampling (real PRNG, either back-end)
  seed      equal seeds => equal sequences
  values    LexiconSampler / ListSampler / UnionSampler with scripted samplers
"""
import copy
import random

import numpy as np

from lib import objs as O
from lib import semantics as S


# ---------------------------------------------------------------------------
# helpers
# ---------------------------------------------------------------------------
def fq(x):
    """exact rational of a float"""
    n, d = float(x).as_integer_ratio()
    return [n, d]


def qf(q):
    return q[0] / q[1]


def tup(x):
    return tuple(tup(y) for y in x) if isinstance(x, list) else x


class ScriptExhausted(Exception):
    pass


class Scripted:
    """Stand-in for VoseSampler: records its construction, replays indices."""
    log = []
    script = iter(())

    def __init__(self, weights, seed=None):
        self.weights = [float(x) for x in np.asarray(weights, dtype=float)]
        self.seed = seed
        Scripted.log.append(self)

    def sample(self, k=1):
        try:
            return next(Scripted.script)
        except StopIteration:
            raise ScriptExhausted()


class StubRng:
    """Stand-in for numpy's Generator inside PythonSampler."""

    def __init__(self, values):
        self.values = iter(values)

    def uniform(self, low=0.0, high=1.0):
        return low + (high - low) * next(self.values)


def backend(name):
    from synth.utils import vose_polyfill as vp
    if name == "fallback":
        return vp.PythonSampler
    import vose
    return vose.Sampler


def err_name(e):
    if isinstance(e, ScriptExhausted):
        return "ScriptExhausted"
    return type(e).__name__


# ---------------------------------------------------------------------------
# grammars from / to wire
# ---------------------------------------------------------------------------
def enc_state(s):
    """CFG states: (NGram, depth) -> [[[symbol, index]...], depth]; None -> []."""
    from synth.syntax.grammars.grammar import NGram
    if s is None:
        return []
    if isinstance(s, NGram):
        return [[O.sym_wire(p), i] for p, i in s.predecessors]
    if isinstance(s, tuple):
        return [enc_state(x) for x in s]
    if isinstance(s, int):
        return s
    raise ValueError("state %r" % (s,))


def det_to_wire(pg):
    """ProbDetGrammar over a TTCFG -> (table, weights, start) in wire form."""
    g = pg.grammar
    table = []
    for nt in g.rules:
        rules = []
        for P, (args, T) in g.rules[nt].items():
            rules.append([O.sym_wire(P), [[O.ty_wire(a[0]), enc_state(a[1])] for a in args], enc_state(T)])
        table.append([[O.ty_wire(nt[0]), enc_state(nt[1][0]), enc_state(nt[1][1])], rules])
    weights = []
    for nt in pg.tags:
        weights.append([[O.ty_wire(nt[0]), enc_state(nt[1][0]), enc_state(nt[1][1])],
                        [[O.sym_wire(P), fq(p)] for P, p in pg.tags[nt].items()]])
    st = g.start
    return table, weights, [O.ty_wire(st[0]), enc_state(st[1][0]), enc_state(st[1][1])]


def det_from_wire(table, weights, start):
    from synth.syntax.grammars.ttcfg import TTCFG
    from synth.syntax.grammars.tagged_det_grammar import ProbDetGrammar

    def nt(w):
        return (O.ty(w[0]), (tup(w[1]), tup(w[2])))

    rules = {}
    for x, rs in table:
        rules[nt(x)] = {O.sym(s): ([(O.ty(a[0]), tup(a[1])) for a in args], tup(T)) for s, args, T in rs}
    g = TTCFG(nt(start), rules, clean=False)
    probs = {nt(x): {O.sym(s): qf(q) for s, q in ws} for x, ws in weights}
    return ProbDetGrammar(g, probs)


def u_from_wire(rules, tags, start_tags):
    from synth.syntax.grammars.u_cfg import UCFG
    from synth.syntax.grammars.tagged_u_grammar import ProbUGrammar

    def nt(w):
        return (O.ty(w[0]), tup(w[1]))

    r = {}
    for x, rs in rules:
        r[nt(x)] = {O.sym(s): [[nt(a) for a in alt] for alt in alts] for s, alts in rs}
    starts = {nt(x) for x, _ in start_tags}
    g = UCFG(starts, r, clean=False)
    probs = {}
    for x, ps in tags:
        probs[nt(x)] = {}
        for s, qs in ps:
            alts = r[nt(x)][O.sym(s)]
            probs[nt(x)][O.sym(s)] = {tuple(alt): qf(q) for alt, q in zip(alts, qs)}
    sp = {nt(x): qf(q) for x, q in start_tags}
    return ProbUGrammar(g, probs, sp), [nt(x) for x, _ in start_tags]


def build_cfg(params):
    from props.c01_impl import build_dsl
    from synth.syntax.grammars.cfg import CFG
    prims, forbidden, request, max_depth, min_var, n_gram, const_types = params
    dsl = build_dsl(prims, forbidden)
    return CFG.depth_constraint(dsl, O.ty(request), max_depth, min_var, n_gram, False,
                                {O.ty(t) for t in const_types})


def prob_grammar(cfg, mode, seed):
    from synth.syntax.grammars.tagged_det_grammar import ProbDetGrammar
    if mode == 0:
        return ProbDetGrammar.uniform(cfg)
    return ProbDetGrammar.random(cfg, seed)


# ---------------------------------------------------------------------------
# case kinds
# ---------------------------------------------------------------------------
def do_prepare(case):
    params, mode, seed = case["data"]
    cfg = build_cfg(params)
    pg = prob_grammar(cfg, mode, seed)
    table, weights, start = det_to_wire(pg)
    return {"table": table, "weights": weights, "start": start, "programs": cfg.programs()}


def do_table(case):
    from synth.utils.vose_polyfill import PythonSampler
    w = np.array([qf(q) for q in case["data"]], dtype=float)
    s = PythonSampler(w, seed=3)
    return {"proba": [fq(x) for x in s.proba], "alias": [int(x) for x in s.alias],
            "after": [fq(x) for x in w], "n": int(s.n)}


def do_draw(case):
    from synth.utils.vose_polyfill import PythonSampler
    proba, alias, draws = case["data"]
    n = len(proba)
    s = PythonSampler(np.full(n, 1.0 / n), seed=3)
    s.proba = np.array([qf(q) for q in proba], dtype=float)
    s.alias = np.array(alias, dtype=int)
    flat = []
    for u1, u2 in draws:
        flat += [qf(u1), qf(u2)]
    s.rng = StubRng(flat)
    half = len(draws) // 2
    out = [int(s.sample()) for _ in range(half)]
    rest = s.sample(k=len(draws) - half) if len(draws) - half != 1 else [s.sample()]
    out += [int(x) for x in np.asarray(rest).reshape(-1)]
    return out


def run_scripts(pg, module, scripts, seed):
    """pg.init_sampling(seed) once per script with every VoseSampler of the module scripted."""
    old = module.VoseSampler
    module.VoseSampler = Scripted
    try:
        out = []
        built = None
        for k, choices in scripts:
            Scripted.log = []
            Scripted.script = iter(())
            pg.init_sampling(seed)
            if built is None:
                built = [[[fq(x) for x in s.weights], s.seed] for s in Scripted.log]
            Scripted.script = iter(choices)
            res = []
            gen = pg.sampling()
            for j in range(k):
                try:
                    p = next(gen) if j % 2 else pg.sample_program()
                    res.append([0, O.prog_wire(p)])
                except (ScriptExhausted, IndexError, KeyError, TypeError, AssertionError) as e:
                    res.append([1, err_name(e)])
                    break
            out.append(res)
        return out, built
    finally:
        module.VoseSampler = old


def do_det(case):
    import synth.syntax.grammars.tagged_det_grammar as M
    fuel, table, weights, start, scripts = case["data"]
    pg = det_from_wire(table, weights, start)
    out, built = run_scripts(pg, M, scripts, case.get("seed", 0))
    return {"runs": out, "built": built}


def do_u(case):
    import synth.syntax.grammars.tagged_u_grammar as M
    fuel, rules, tags, start_tags, perms, scripts = case["data"]
    pg, start_list = u_from_wire(rules, tags, start_tags)
    out, built = run_scripts(pg, M, scripts, case.get("seed", 0))
    order = [start_list.index(x) for x in pg._int2start]
    return {"runs": out, "built": built, "int2start": order}


def do_stat(case):
    weights, name, seed, n = case["data"]
    w = np.array([qf(q) for q in weights], dtype=float)
    s = backend(name)(w, seed=seed)
    xs = np.asarray(s.sample(k=n)).reshape(-1)
    counts = np.bincount(xs.astype(int), minlength=len(w))
    return [int(c) for c in counts]


def count_programs(pg, n):
    counts = {}
    wires = {}
    g = pg.sampling()
    for _ in range(n):
        p = next(g)
        k = str(p)
        if k not in counts:
            counts[k] = 0
            wires[k] = O.prog_wire(p)
        counts[k] += 1
    return [[wires[k], c] for k, c in counts.items()]


def do_gstat(case):
    """Real sampling: the grammar is the one CFG.depth_constraint builds (when the
    case carries DSL parameters) or the table rebuilt from the wire."""
    import synth.syntax.grammars.tagged_det_grammar as M
    src, table, weights, start, name, seed, n = case["data"]
    old = M.VoseSampler
    M.VoseSampler = backend(name)
    try:
        if src:
            params, mode, gseed = src
            pg = prob_grammar(build_cfg(params), mode, gseed)
        else:
            pg = det_from_wire(table, weights, start)
        pg.init_sampling(seed)
        return count_programs(pg, n)
    finally:
        M.VoseSampler = old


def do_ugstat(case):
    import synth.syntax.grammars.tagged_u_grammar as M
    rules, tags, start_tags, name, seed, n = case["data"]
    B = backend(name)
    seeds = []

    class Logged:
        def __init__(self, weights, seed=None):
            seeds.append(seed)
            self.inner = B(weights, seed=seed)

        def sample(self, k=1):
            return self.inner.sample()
    old = M.VoseSampler
    M.VoseSampler = Logged
    try:
        pg, start_list = u_from_wire(rules, tags, start_tags)
        pg.init_sampling(seed)
        counts = count_programs(pg, n)
        return {"counts": counts, "seeds": seeds, "int2start": [start_list.index(x) for x in pg._int2start]}
    finally:
        M.VoseSampler = old


def do_seed(case):
    what, data, name, seed, k = case["data"]
    B = backend(name)
    if what == 0:
        w = [qf(q) for q in data]
        a = B(np.array(w, dtype=float), seed=seed)
        b = B(np.array(w, dtype=float), seed=seed)
        sa = [int(a.sample()) for _ in range(k)]
        sb = [int(x) for x in np.asarray(b.sample(k=k)).reshape(-1)] if k > 1 else [int(b.sample())]
        c = B(np.array(w, dtype=float), seed=seed + 1)
        sc = [int(c.sample()) for _ in range(k)]
        return {"equal": sa == sb, "other_seed_differs": sa != sc, "len": len(sa)}
    import synth.syntax.grammars.tagged_det_grammar as M
    import synth.syntax.grammars.tagged_u_grammar as MU
    old, oldu = M.VoseSampler, MU.VoseSampler
    M.VoseSampler = B
    MU.VoseSampler = B
    try:
        if what == 1:
            table, weights, start = data
            pg = det_from_wire(table, weights, start)
        else:
            rules, tags, start_tags = data
            pg, start_list = u_from_wire(rules, tags, start_tags)
        cp = copy.deepcopy(pg)
        pg.init_sampling(seed)
        cp.init_sampling(seed)
        g1, g2 = pg.sampling(), cp.sampling()
        s1 = [str(next(g1)) for _ in range(k)]
        s2 = [str(next(g2)) for _ in range(k)]
        # re-seeding restarts the sequence
        pg.init_sampling(seed)
        g3 = pg.sampling()
        s3 = [str(next(g3)) for _ in range(k)]
        out = {"equal": s1 == s2 and s1 == s3, "len": len(s1), "distinct": len(set(s1))}
        if what == 2:
            out["same_after_reseeding"] = s1 == s3
            out["orders"] = [[start_list.index(x) for x in g._int2start] for g in (pg, cp)]
        return out
    finally:
        M.VoseSampler, MU.VoseSampler = old, oldu


def tree(x):
    return [tree(y) for y in x] if isinstance(x, list) else int(x)


def do_values(case):
    import synth.generation.sampler as G
    from synth.syntax.type_system import INT, List as TL, PrimitiveType
    d = case["data"]
    old = G.VoseSampler
    G.VoseSampler = Scripted
    try:
        Scripted.log = []
        if d[0] == 0:
            _, m, probs, idx, as_array = d
            pr = [qf(q) for q in probs]
            arg = None if not probs else (np.array(pr) if as_array else pr)
            ls = G.LexiconSampler(list(range(m)), arg, seed=5)
            Scripted.script = iter(idx)
            vals = []
            for _ in idx:
                try:
                    vals.append([int(ls.sample())])
                except IndexError:
                    vals.append([])
            return {"weights": [fq(x) for x in Scripted.log[0].weights], "values": vals}
        if d[0] == 1:
            _, probs, pairs, depth, lens, elems = d
            el = G.LexiconSampler(list(range(1000)), seed=5)
            eidx = iter(elems)

            class El(G.Sampler):
                def sample(self, **kw):
                    return next(eidx)
            arg = [(n, qf(q)) for n, q in pairs] if pairs else [qf(q) for q in probs]
            Scripted.log = []
            lsam = G.ListSampler(El(), arg, seed=7)
            built = Scripted.log[0].weights
            Scripted.script = iter(lens)
            t = INT
            for _ in range(depth):
                t = TL(t)
            try:
                v = lsam.sample(type=t)
                left_l = len(list(Scripted.script))
                left_e = len(list(eidx))
                res = [tree(v), left_l, left_e]
            except (ScriptExhausted, StopIteration, IndexError, RuntimeError):
                res = []
            return {"lengths": list(lsam._length_mapping), "weights": [fq(x) for x in built], "result": res}
        _, keys, fallback, queries = d

        class Tag(G.Sampler):
            def __init__(self, i):
                self.i = i

            def sample(self, **kw):
                return self.i
        samplers = {}
        for i, k in enumerate(keys):
            if O.ty(k) not in samplers:
                samplers[O.ty(k)] = Tag(i)
        us = G.UnionSampler(samplers, Tag(len(keys)) if fallback else None)
        out = []
        for q in queries:
            try:
                out.append([int(us.sample(type=O.ty(q)))])
            except AssertionError:
                out.append([])
        return out
    finally:
        G.VoseSampler = old


def do_det_perm(case):
    """Same grammar as a det case, but the probability table of every non-terminal is
    written in the reverse of the rule order (as ProbDetGrammar.__add__ or a hand-written
    table can do).  The weight vector handed to each alias sampler must still be the
    weights of the programs of its sampling_map, position by position."""
    import synth.syntax.grammars.tagged_det_grammar as M
    from synth.syntax.grammars.tagged_det_grammar import ProbDetGrammar
    fuel, table, weights, start, scripts = case["data"]
    pg0 = det_from_wire(table, weights, start)
    probs = {S: dict(reversed(list(d.items()))) for S, d in pg0.tags.items()}
    pg = ProbDetGrammar(pg0.grammar, probs)
    old = M.VoseSampler
    M.VoseSampler = Scripted
    try:
        Scripted.log = []
        Scripted.script = iter(())
        pg.init_sampling(case.get("seed", 0))
        logged = list(Scripted.log)
    finally:
        M.VoseSampler = old
    aligned = len(logged) == len(pg.tags)
    for S, s in zip(pg.tags, logged):
        want = [pg.tags[S][P] for P in pg.sampling_map[S]]
        if [float(x) for x in s.weights] != [float(x) for x in want]:
            aligned = False
    return {"aligned": aligned}


KINDS = {"det_perm": do_det_perm, "prepare": do_prepare, "table": do_table, "draw": do_draw, "det": do_det, "u": do_u, "stat": do_stat,
         "gstat": do_gstat, "ugstat": do_ugstat, "seed": do_seed, "values": do_values}


def impl(case):
    return KINDS[case["kind"]](case)
