"""C18: generated tasks are self-consistent and reproducible from the seed.

Two legs.
 scripted: a TaskGenerator whose four samplers replay explicit streams (type
     requests, programs per request, example counts, inputs per argument type);
     the extracted model (Sem/TaskGen.v) is run on the same streams and must
     produce the same tasks, metadata and failure mode.
 real: real seeded samplers and real grammars.  Every draw is recorded from the
     outside; the model is replayed on the recorded streams and must produce
     the implementation's tasks; the invariants (a)-(f) are additionally
     checked directly (re-evaluation through the model's reference evaluator);
     two generators with equal arguments and seeds must agree, also under
     another PYTHONHASHSEED (child process)."""
import copy

from lib import semantics as S
from lib import progs as P

ID = "C18"
IMPL_MODULE = "props.c18_impl"
HASHSEEDS = {"quick": [0, 1], "thorough": [0, 1, 2, 3]}
CASE_TIMEOUT = 120
RULE = ("scripted: 1-3 type requests (0-2 arguments, also a request without grammar), per request a stream of 3-200 "
        "random well-typed programs of depth <= 4 over the fixed semantic DSL with repetitions (partial primitives "
        "div/head/checked), counts 0-5, input streams of 0-400 values per argument type, max_tries 0-20, uniques on/off, "
        "random skip sets for evaluator and generator, validators (int range, max list length, None/bool allowed), "
        "1-6 tasks; every sixth case is a `seen` stress case (one request, 2-5 programs drawn repeatedly, max_tries 1-4, uniques on, 4-10 tasks); non-trivial = at least one task returned and at least one rejected attempt or retry.  "
        "real: 4 (quick) or 5 (thorough) configurations per case (random sub-DSL of the fixed primitives, CFG.depth_constraint depth 2-4, "
        "ProbDetGrammar.uniform + init_sampling(seed), LexiconSampler/ListSampler/UnionSampler with seeds, 2-4 type "
        "requests, 1-12 tasks (thorough: up to 40), second run in a child interpreter under another PYTHONHASHSEED); "
        "non-trivial = every real case.")
ASSUMPTIONS = [
    "the cached DSLEvaluator returns what the reference semantics gives (property C11)",
    "program and type equality of the implementation coincide with structural equality on the ground, well-typed "
    "programs and types used here (property C16); Python == on outputs of one well-typed program is structural",
    "precaution: no two type requests of one generator have bool and int at the same argument position with equal "
    "arity (the evaluator's cache files the inputs (True, x) and (1, x) under one key; that is C11/C16's subject)",
    "samplers are modelled as streams: a sampler is only observed through the sequence of values it returns",
    "the number of examples drawn is a natural number (negative counts are outside the modelled domain)",
    "grammar membership of the solution is 'one of the programs sample_program returned' (scripted and real leg) plus "
    "the implementation's own `solution in grammar` on the real leg; that samples are members is property C09",
]

KNOWN_ZERO = "c18_zero_examples_requested"
KNOWN_KEY = "c18_grammar_filed_under_guessed_type_request"

TI, TB, TL, TO = S.INT, S.BOOL, S.LIST(S.INT), S.OPTINT
REQUESTS = [
    S.ARROW(TI, TI), S.ARROW(TI, TI), S.ARROW(TI, TI, TI), S.ARROW(TL, TI), S.ARROW(TL, TL),
    S.ARROW(TI, TB), S.ARROW(TI, TL, TL), S.ARROW(TB, TI, TI), S.ARROW(TL, TI, TI), TI,
    S.ARROW(TL, TO), S.ARROW(TI, TL), S.ARROW(TI, TI, TB),
]
ALL_PRIMS = sorted(S.PRIMS)
VALIDATORS = [[-5, 20, 3, 0, 1], [-5, 20, 3, 0, 1], [-100, 100, -1, 0, 1], [0, 3, 1, 0, 1], [-5, 20, 3, 1, 1],
              [-20, 20, 2, 1, 0], [-1000, 1000, -1, 0, 1]]


def arrow_parts(t):
    return P.arrow_parts(t)


# ----------------------------------------------------------------------------
# generation
# ----------------------------------------------------------------------------
def cache_compatible(reqs):
    """Precaution: DSLEvaluator files its cache under the tuple of inputs and
    1 == True in Python, so inputs (True, 5) and (1, 5) share one table (only
    the type in a Variable's hash keeps var0 : bool and var0 : int apart).
    That is the evaluator's business (C11/C16); keep bool and int apart at
    every argument position of requests of equal arity."""
    for a in reqs:
        for b in reqs:
            aa, ab = arrow_parts(a)[0], arrow_parts(b)[0]
            if len(aa) == len(ab) and any(sorted([x, y]) == [TI, TB] for x, y in zip(aa, ab)):
                return False
    return True


def uses_all_vars(p, nargs):
    seen = set()
    for q in P.subprogs(p):
        sym = q[1]
        if sym[0] == 1:
            seen.add(sym[1])
    return len(seen) >= nargs


PARTIAL_POOL = [0, 1, 3, 3, 15, 15, 27, 27, 5, 6, 16, 17, 14, 13, 22, 8, 9, 31]


def gen_scripted(rng):
    nreq = rng.choice([1, 1, 2, 2, 3])
    reqs = []
    while len(reqs) < nreq:
        t = rng.choice(REQUESTS)
        if t not in reqs and cache_compatible(reqs + [t]):
            reqs.append(t)
    progs = []
    arg_types = []
    for t in reqs:
        args, ret = arrow_parts(t)
        for a in args:
            if a not in arg_types:
                arg_types.append(a)
        pool = []
        want = rng.randint(2, 12)
        for _ in range(60):
            if len(pool) >= want:
                break
            prims = PARTIAL_POOL if (args and rng.random() < 0.4) else ALL_PRIMS
            p = P.gen_prog(rng, ret, rng.randint(1, 4), prims, args, const_p=0.05)
            if p is None:
                continue
            # most of the pool uses every variable, so that generate_program's second loop stops
            if uses_all_vars(p, len(args)) or rng.random() < 0.3:
                pool.append(p)
        if not pool:
            pool = [P.gen_prog(rng, ret, 1, ALL_PRIMS, args, const_p=0.0) or [0, [3, ret, [0, 0]]]]
        stream = [rng.choice(pool) for _ in range(rng.choice([3, 40, 80, 120, 160, 200, 200]))]
        progs.append([t, stream])
    stream_reqs = [rng.choice(reqs) for _ in range(rng.randint(3, 40))]
    if rng.random() < 0.06:
        # a request nobody has a grammar for
        other = [t for t in REQUESTS if t not in reqs]
        stream_reqs.insert(rng.randrange(len(stream_reqs) + 1), rng.choice(other))
    counts = [rng.choice([1, 1, 2, 2, 2, 3, 3, 4, 5]) if rng.random() < 0.96 else 0
              for _ in range(len(stream_reqs) + rng.randint(-1, 2))]
    inputs = []
    for a in arg_types:
        k = rng.choice([0, 5, 150, 250, 300, 400, 400, 400])
        inputs.append([a, [P.gen_value(rng, a) for _ in range(k)]])
    if rng.random() < 0.04 and inputs:
        inputs.pop(rng.randrange(len(inputs)))
    mt = rng.choice([0, 1, 2, 3, 5, 8, 10, 15, 20, rng.randint(1, 20), rng.randint(1, 20)])
    eskip = rng.choice([[0, 1, 2], [0, 1, 2], [0, 1], [1], [], [2], [0]])
    gskip = rng.choice([[0, 1, 2], [], [], [0], [1, 2], [2]])
    settings = [mt, rng.randint(0, 1), eskip, gskip, rng.choice(VALIDATORS)]
    return {"kind": "scripted", "settings": settings, "oracle": [stream_reqs, progs, counts, inputs],
            "n": rng.choice([1, 1, 2, 2, 3, 4, 6])}


def gen_seen_stress(rng):
    """One request, a handful of programs drawn again and again, small retry
    budgets, uniques on: exercises the `seen` set and the is_unique flag."""
    t = rng.choice([S.ARROW(TI, TI), S.ARROW(TI, TI, TI), S.ARROW(TL, TI), S.ARROW(TI, TL)])
    args, ret = arrow_parts(t)
    pool = []
    for _ in range(40):
        if len(pool) >= rng.randint(2, 5):
            break
        p = P.gen_prog(rng, ret, rng.randint(1, 3), ALL_PRIMS, args, const_p=0.0)
        if p is not None and p not in pool and (uses_all_vars(p, len(args)) or rng.random() < 0.2):
            pool.append(p)
    if not pool:
        pool = [[0, [1, 0, args[0]]]] if args[0] == ret else [[0, [3, ret, [0, 0]]]]
    n = rng.randint(4, 10)
    stream = [rng.choice(pool) for _ in range(rng.randint(20, 120))]
    counts = [rng.choice([1, 1, 2]) for _ in range(3 * n)]
    inputs = [[a, [P.gen_value(rng, a) for _ in range(300)]] for a in {repr(a): a for a in args}.values()]
    settings = [rng.choice([1, 1, 2, 2, 3, 4]), 1 if rng.random() < 0.9 else 0, [0, 1, 2], [], [-1000, 1000, -1, 1, 1]]
    return {"kind": "scripted", "settings": settings, "oracle": [[t] * (3 * n), [[t, stream]], counts, inputs], "n": n}


REAL_REQUESTS = [S.ARROW(TI, TI), S.ARROW(TI, TI, TI), S.ARROW(TL, TI), S.ARROW(TL, TL), S.ARROW(TI, TB),
                 S.ARROW(TI, TL, TL), S.ARROW(TB, TI, TI), S.ARROW(TL, TI, TI), S.ARROW(TI, TL)]
# leaves that keep every base type inhabited
CORE_PRIMS = [5, 6, 13, 31, 32]
OPTIONAL_PRIMS = [0, 1, 2, 3, 4, 7, 8, 9, 10, 11, 12, 14, 15, 16, 17, 18, 20, 21, 27, 28]


def gen_real_config(rng, tier):
    prims = sorted(CORE_PRIMS + rng.sample(OPTIONAL_PRIMS, rng.randint(4, 10)) + rng.choice([[3], [15], [27], [3, 15]]))
    prims = sorted(set(prims))
    reqs = rng.sample(REAL_REQUESTS, rng.randint(2, 4))
    while not cache_compatible(reqs):
        reqs = rng.sample(REAL_REQUESTS, rng.randint(2, 4))
    seed = rng.choice([1, 2, 3, 7, 10, 42, 1234, rng.randint(1, 10 ** 6)])
    same = rng.random() < 0.4
    seeds = {k: (seed if same else rng.randint(1, 10 ** 6)) for k in ("type", "count", "input", "len", "grammar")}
    counts = rng.choice([[1, 2, 3], [2, 3, 4], [1, 2, 3, 4, 5], [0, 1, 2, 3], [3]])
    return {"prims": prims, "reqs": reqs, "depth": rng.choice([2, 3, 3, 4]), "seeds": seeds, "counts": counts,
            "ints": rng.choice([[-3, 5], [-10, 10], [0, 4]]),
            "lengths": rng.choice([[[0, 1], [1, 2], [2, 2], [3, 1]], [[1, 1], [2, 1]], [[0, 1], [1, 1], [4, 1]]]),
            "settings": [rng.choice([1, 3, 5, 10, 20, 20]), rng.randint(0, 1), rng.choice([[0, 1, 2], [0, 1], [], [1]]),
                         rng.choice([[0, 1, 2], [], [2], [0]]), rng.choice(VALIDATORS)],
            "n": rng.choice([1, 2, 5, 8, 12] if tier == "quick" else [1, 2, 5, 12, 25, 40])}


def gen(rng, tier):
    n_scr, n_real, per = (420, 4, 4) if tier == "quick" else (3000, 12, 5)
    cases = [gen_seen_stress(rng) if i % 6 == 5 else gen_scripted(rng) for i in range(n_scr)]
    for i in range(n_real):
        cases.append({"kind": "real", "configs": [gen_real_config(rng, tier) for _ in range(per)],
                      "alt": rng.choice([2, 3, 5, 11])})
    return cases


# ----------------------------------------------------------------------------
# model side
# ----------------------------------------------------------------------------
def wire_case(settings, oracle, n, guard):
    mt, uniq, eskip, gskip, validator = settings
    fuel = len(oracle[0]) + 2
    return [[mt, uniq, eskip, gskip, guard, validator], oracle, n, fuel]


def to_model(case):
    if case["kind"] == "scripted":
        return (1, wire_case(case["settings"], case["oracle"], case["n"], 1))
    return (0, [])


def decode_model(raw):
    tasks, final = raw
    return {"tasks": tasks, "final": final}


def model_obs(case, raw):
    if case["kind"] == "scripted":
        return decode_model(raw)
    return {"real": True}


def run_model_direct(calls):
    from lib import core
    return core.run_model(ID, calls)


def validate(spec, w):
    lo, hi, maxlen, allow_none, allow_bool = spec
    t = w[0]
    if t == 0:
        return lo <= w[1] <= hi
    if t == 1:
        return bool(allow_bool)
    if t == 3:
        return bool(allow_none)
    if t == 2:
        return (maxlen < 0 or len(w) - 1 <= maxlen) and all(validate(spec, x) for x in w[1:])
    return False


def real_problems(cfg, run, alt, guard=1, keying="declared"):
    """List of human-readable problems of one real-sampler run (empty = fine).
    keying = "declared": every grammar answers for the request it was built for
    (the model for which the theorems are read); "registered": every grammar
    answers for the key TaskGenerator files it under (pgrammar.type_request)."""
    probs = []
    if "crash" in run:
        return ["the implementation crashed: %s" % run["crash"]]
    tasks, final = run["tasks"], run["final"]
    if run["tasks2"] != tasks or run["final2"] != final:
        probs.append("two generators with equal arguments and seeds produced different sequences")
    if alt is None or "tasks" not in alt:
        probs.append("no answer under the other hash seed: %r" % (alt,))
    elif alt["tasks"] != tasks or alt["final"] != final:
        probs.append("sequence differs under PYTHONHASHSEED=%s" % alt.get("hashseed"))
    rec = run["rec"]
    if keying == "declared":
        progs = [[g[0], g[3]] for g in run["grammars"]]
        in_grammar = run["in_declared"]
    else:
        progs = [[g[1], g[3]] for g in run["grammars"] if g[2]]
        in_grammar = run["in_registered"]
    # replay the model on the recorded draws
    oracle = [rec["reqs"], progs, rec["counts"], rec["inputs"]]
    wc = wire_case(cfg["settings"], oracle, cfg["n"], guard)
    raw = run_model_direct([(1, wc)])[0]
    if raw == [-1]:
        probs.append("model rejected the recorded streams")
        return probs
    mo = decode_model(raw)
    if final[0] == 9:
        # the harness stopped the run (request budget): the model runs out of the recorded requests
        if mo["tasks"] != tasks or mo["final"] != [1, 0]:
            probs.append("model replay differs before the run was stopped")
    elif mo["tasks"] != tasks or mo["final"] != final:
        probs.append("model replayed on the recorded draws gives other tasks or another end: %r"
                     % (mo["final"],))
    # direct invariants
    skip = sorted(set(cfg["settings"][2]) | set(cfg["settings"][3]))
    calls = [(2, [skip, t[1], [ex[0] for ex in t[2]]]) for t in tasks]
    evals = run_model_direct(calls) if calls else []
    progs_of = {repr(k): v for k, v in progs}
    inputs_of = {repr(k): v for k, v in rec["inputs"]}
    for i, (t, ev) in enumerate(zip(tasks, evals)):
        tr, sol, exs, tries, uniq, drawn = t
        outs = [ex[1] for ex in exs]
        if ev != [[0, o] for o in outs]:
            probs.append("task %d: (a) re-evaluating the solution does not give the example outputs" % i)
        if any(outs[a] == outs[b] for a in range(len(outs)) for b in range(a)):
            probs.append("task %d: (b) repeated output" % i)
        if not all(validate(cfg["settings"][4], o) for o in outs):
            probs.append("task %d: (c) output rejected by the validator" % i)
        if len(exs) != drawn and not (guard == 0 and drawn == 0 and len(exs) == 1):
            probs.append("task %d: (d) %d examples, %d drawn" % (i, len(exs), drawn))
        if sol not in progs_of.get(repr(tr), []):
            probs.append("task %d: (e) solution was not sampled from the grammar of its request" % i)
        if not in_grammar[i]:
            probs.append("task %d: (e) solution not in the grammar of its request" % i)
        args, _ = arrow_parts(tr)
        for ex in exs:
            if len(ex[0]) != len(args) or any(v not in inputs_of.get(repr(a), []) for a, v in zip(args, ex[0])):
                probs.append("task %d: (f) input not drawn from the sampler of its argument type" % i)
                break
    return probs


def agree(case, impl_obs, model_obs):
    if not isinstance(impl_obs, dict) or "crash" in impl_obs or "hang" in impl_obs:
        return False
    if case["kind"] == "scripted":
        return impl_obs.get("tasks") == model_obs["tasks"] and impl_obs.get("final") == model_obs["final"]
    runs = impl_obs.get("runs", [])
    alts = impl_obs.get("alt") or []
    if len(runs) != len(case["configs"]):
        return False
    for i, (cfg, run) in enumerate(zip(case["configs"], runs)):
        if real_problems(cfg, run, alts[i] if i < len(alts) else None):
            return False
    return True


def nontrivial(case, mo):
    if case["kind"] == "scripted":
        ts = mo["tasks"]
        return bool(ts) and (sum(t[3] for t in ts) > sum(len(t[2]) for t in ts) or mo["final"] != [0]
                             or any(not t[4] for t in ts))
    return True


def describe(case, mo):
    if case["kind"] == "scripted":
        mt, uniq, eskip, gskip, validator = case["settings"]
        reqs, progs, counts, inputs = case["oracle"]
        return {"kind": "scripted", "max_tries": mt, "uniques": uniq, "evaluator_skip": eskip, "generator_skip": gskip,
                "validator[lo,hi,maxlen,none,bool]": validator, "n": case["n"], "requests": len(reqs),
                "programs": {str(k): [P.show_prog(p) for p in v[:4]] for k, v in progs}, "counts": counts,
                "model_tasks": [[P.show_prog(t[1]), [[[repr(S.value_from_wire(v)) for v in ex[0]],
                                                      repr(S.value_from_wire(ex[1]))] for ex in t[2]],
                                 "tries=%d" % t[3], "unique=%d" % t[4], "drawn=%d" % t[5]] for t in mo["tasks"][:3]],
                "model_final": mo["final"]}
    return {"kind": "real", "alt_hashseed": case["alt"],
            "configs": [{"prims": [S.prim_name(n) for n in c["prims"]], "requests": len(c["reqs"]), "depth": c["depth"],
                         "seeds": c["seeds"], "n": c["n"], "settings": c["settings"], "counts": c["counts"]}
                        for c in case["configs"][:3]]}


# ----------------------------------------------------------------------------
# shrinking, classification
# ----------------------------------------------------------------------------
def shrink(case):
    if case["kind"] == "real":
        cfgs = case["configs"]
        if len(cfgs) > 1:
            for i in range(len(cfgs)):
                yield {"kind": "real", "configs": [cfgs[i]], "alt": case["alt"]}
        else:
            c = cfgs[0]
            for n in sorted({1, c["n"] // 2, c["n"] - 1}):
                if 1 <= n < c["n"]:
                    d = copy.deepcopy(c)
                    d["n"] = n
                    yield {"kind": "real", "configs": [d], "alt": case["alt"]}
            if len(c["reqs"]) > 1:
                for i in range(len(c["reqs"])):
                    d = copy.deepcopy(c)
                    d["reqs"] = c["reqs"][:i] + c["reqs"][i + 1:]
                    yield {"kind": "real", "configs": [d], "alt": case["alt"]}
            if c["depth"] > 2:
                d = copy.deepcopy(c)
                d["depth"] -= 1
                yield {"kind": "real", "configs": [d], "alt": case["alt"]}
        return
    st, (reqs, progs, counts, inputs), n = case["settings"], case["oracle"], case["n"]

    def mk(settings=None, oracle=None, n_=None):
        return {"kind": "scripted", "settings": settings or st, "oracle": oracle or [reqs, progs, counts, inputs],
                "n": n if n_ is None else n_}

    for k in sorted({1, n // 2, n - 1}):
        if 1 <= k < n:
            yield mk(n_=k)
    if len(reqs) > 1:
        yield mk(oracle=[reqs[:len(reqs) // 2], progs, counts, inputs])
        yield mk(oracle=[reqs[1:], progs, counts, inputs])
        yield mk(oracle=[reqs[:-1], progs, counts, inputs])
    if len(counts) > 1:
        yield mk(oracle=[reqs, progs, counts[:-1], inputs])
        yield mk(oracle=[reqs, progs, counts[1:], inputs])
    for i, (t, stream) in enumerate(progs):
        if len(stream) > 1:
            for new in (stream[:len(stream) // 2], stream[1:], stream[:-1]):
                yield mk(oracle=[reqs, progs[:i] + [[t, new]] + progs[i + 1:], counts, inputs])
        if len(progs) > 1:
            yield mk(oracle=[reqs, progs[:i] + progs[i + 1:], counts, inputs])
    for i, (t, stream) in enumerate(inputs):
        if len(stream) > 1:
            for new in (stream[:len(stream) // 2], stream[1:], stream[:-1]):
                yield mk(oracle=[reqs, progs, counts, inputs[:i] + [[t, new]] + inputs[i + 1:]])
    mt, uniq, eskip, gskip, validator = st
    if mt > 1:
        yield mk(settings=[mt // 2, uniq, eskip, gskip, validator])
        yield mk(settings=[mt - 1, uniq, eskip, gskip, validator])
    if uniq:
        yield mk(settings=[mt, 0, eskip, gskip, validator])
    if gskip:
        yield mk(settings=[mt, uniq, sorted(set(eskip) | set(gskip)), [], validator])
    if validator != [-1000, 1000, -1, 0, 1]:
        yield mk(settings=[mt, uniq, eskip, gskip, [-1000, 1000, -1, 0, 1]])


def recorded_findings():
    from lib import core
    return set(core.load_findings(ID))


def classify(case, impl_obs, model_obs):
    """KNOWN_ZERO: some drawn count is 0 and the implementation agrees exactly
    with the faithful model of the pinned loop (count guard off).
    KNOWN_KEY (real leg): some grammar is filed under a key other than the
    request it was built for and the implementation agrees exactly with the
    model whose grammars are keyed the way the implementation files them.
    A case needing both is explained only if both are recorded."""
    if not isinstance(impl_obs, dict) or "crash" in impl_obs or "hang" in impl_obs:
        return None
    if case["kind"] == "scripted":
        if 0 not in case["oracle"][2]:
            return None
        raw = run_model_direct([(1, wire_case(case["settings"], case["oracle"], case["n"], 0))])[0]
        if raw == [-1]:
            return None
        pinned = decode_model(raw)
        if impl_obs.get("tasks") == pinned["tasks"] and impl_obs.get("final") == pinned["final"]:
            return KNOWN_ZERO
        return None
    runs = impl_obs.get("runs", [])
    alts = impl_obs.get("alt") or []
    if len(runs) != len(case["configs"]):
        return None
    needed = set()
    for i, (cfg, run) in enumerate(zip(case["configs"], runs)):
        alt = alts[i] if i < len(alts) else None
        if not real_problems(cfg, run, alt):
            continue
        if "crash" in run:
            return None
        zero_possible = 0 in run["rec"]["counts"]
        key_possible = any(g[0] != g[1] for g in run["grammars"])
        options = []
        if zero_possible:
            options.append(({KNOWN_ZERO}, 0, "declared"))
        if key_possible:
            options.append(({KNOWN_KEY}, 1, "registered"))
        if zero_possible and key_possible:
            options.append(({KNOWN_ZERO, KNOWN_KEY}, 0, "registered"))
        for names, guard, keying in options:
            if not real_problems(cfg, run, alt, guard=guard, keying=keying):
                needed |= names
                break
        else:
            return None
    if not needed:
        return None
    if needed <= recorded_findings():
        return sorted(needed)[0]
    return sorted(needed - recorded_findings())[0] + "_unrecorded"


def theorem_for(case):
    if case["kind"] == "scripted":
        return ("C18_task_ok / C18_examples_count / C18_sequence_ok: the model's tasks satisfy (a)-(f); "
                "the implementation fed with the same sampler streams returned something else")
    return ("C18_sequence_ok on the recorded draws + C18_deterministic: equal arguments and equal streams give equal "
            "task sequences; see 'problems' in the implementation's answer")
