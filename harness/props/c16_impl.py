"""C16 implementation runner (needs PYTHONPATH=<repo>:harness).

impl(case) observes, on ProgSynth's own objects,
  pair/triple : ==, hash equality, dict/set behaviour of 2 or 3 objects;
  derived     : objects produced by library operations (DSL instantiation,
                clone, unify, |) against freshly constructed twins;
  xproc       : objects written by a subprocess running under another
                PYTHONHASHSEED (pickle protocol 2 and default, save_object,
                Dataset.save, dict keyed by objects) and read back here;
  xgrammar    : the same for CFG / ProbDetGrammar / UCFG / ProbUGrammar.
Run as  python -m props.c16_impl write <case.json> <dir>  it is the writer."""
import itertools
import json
import os
import pickle
import re
import shutil
import subprocess
import sys
import tempfile

from synth.syntax.type_system import (
    Arrow, FixedPolymorphicType, Generic, PolymorphicType, PrimitiveType, Sum, UnknownType, Type,
)
from synth.syntax.program import Constant, Function, Lambda, Primitive, Program, Variable


# ----------------------------------------------------------------------------
# wire <-> objects
# ----------------------------------------------------------------------------
RESERVED = {0: "unit", 8: "list"}      # the library's UNIT and List
UNRESERVED = {v: k for k, v in RESERVED.items()}


def name(n):
    return RESERVED.get(n, "n%d" % n)


def unname(s):
    if s in UNRESERVED:
        return UNRESERVED[s]
    assert s[0] == "n", s
    return int(s[1:])


def ty(w):
    k = w[0]
    if k == 0:
        return PrimitiveType(name(w[1]))
    if k == 1:
        return Arrow(ty(w[1]), ty(w[2]))
    if k == 2:
        return Generic(name(w[1]), *[ty(x) for x in w[3:]], infix=bool(w[2]))
    if k == 3:
        return PolymorphicType(name(w[1]))
    if k == 4:
        return FixedPolymorphicType(name(w[1]), *[ty(x) for x in w[2:]])
    if k == 5:
        return Sum(*[ty(x) for x in w[1:]])
    if k == 6:
        return UnknownType()
    raise ValueError(w)


def pystr(w):
    k = w[0]
    if k == 0:
        return "s%d" % w[1]
    if k == 1:
        return str(w[1])
    if k == 2:
        return "%d.0" % w[1]
    return {3: "True", 4: "False", 5: "None"}[k]


def val(w):
    k = w[0]
    if k == 0:
        return None
    if k == 1:
        return int(w[1])
    if k == 2:
        return float(w[1])
    if k == 3:
        return bool(w[1])
    return pystr(w[1])


def prog(w):
    k = w[0]
    if k == 0:
        return Primitive(name(w[1]), ty(w[2]))
    if k == 1:
        if w[2] == [6]:
            return Variable(w[1])          # the shared default UnknownType() instance
        return Variable(w[1], ty(w[2]))
    if k == 2:
        return Constant(ty(w[1]), val(w[2]), {0: None, 1: True, 2: False}[w[3]])
    if k == 3:
        return Function(prog(w[1]), [prog(x) for x in w[2:]])
    if k == 4:
        return Lambda(prog(w[1]), ty(w[2]))
    raise ValueError(w)


def obj(w):
    return ty(w[1]) if w[0] == 0 else prog(w[1])


def ty_wire(t):
    if isinstance(t, PrimitiveType):
        return [0, unname(t.type_name)]
    if isinstance(t, Arrow):
        return [1, ty_wire(t.type_in), ty_wire(t.type_out)]
    if isinstance(t, Generic):
        return [2, unname(t.name), 1 if t.infix else 0] + [ty_wire(x) for x in t.types]
    if isinstance(t, FixedPolymorphicType):
        return [4, unname(t.name)] + [ty_wire(x) for x in t.types]
    if isinstance(t, PolymorphicType):
        return [3, unname(t.name)]
    if isinstance(t, Sum):
        return [5] + [ty_wire(x) for x in t.types]
    if isinstance(t, UnknownType):
        return [6]
    raise ValueError(repr(t))


def pystr_wire(s):
    if re.fullmatch(r"s\d+", s):
        return [0, int(s[1:])]
    if re.fullmatch(r"-?\d+", s):
        return [1, int(s)]
    if re.fullmatch(r"-?\d+\.0", s):
        return [2, int(s[:-2])]
    return {"True": [3], "False": [4], "None": [5]}[s]


def val_wire(v):
    if v is None:
        return [0]
    if isinstance(v, bool):
        return [3, 1 if v else 0]
    if isinstance(v, int):
        return [1, v]
    if isinstance(v, float):
        return [2, int(v)]
    return [4, pystr_wire(v)]


def prog_wire(p):
    if isinstance(p, Primitive):
        return [0, unname(p.primitive), ty_wire(p.type)]
    if isinstance(p, Variable):
        return [1, p.variable, ty_wire(p.type)]
    if isinstance(p, Constant):
        return [2, ty_wire(p.type), val_wire(p.value), 1 if p._has_value else 0]
    if isinstance(p, Function):
        return [3, prog_wire(p.function)] + [prog_wire(a) for a in p.arguments]
    if isinstance(p, Lambda):
        return [4, prog_wire(p.body), ty_wire(p.type)]
    raise ValueError(repr(p))


def obj_wire(o):
    return [0, ty_wire(o)] if isinstance(o, Type) else [1, prog_wire(o)]


# sub-objects, children first (the order of Run/C16.v: ty_hashes / prog_hashes)
def ty_subs(t):
    if isinstance(t, Arrow):
        return ty_subs(t.type_in) + ty_subs(t.type_out) + [t]
    if isinstance(t, (Generic, FixedPolymorphicType, Sum)):
        out = []
        for x in t.types:
            out += ty_subs(x)
        return out + [t]
    return [t]


def prog_subs(p):
    if isinstance(p, Function):
        out = prog_subs(p.function)
        for a in p.arguments:
            out += prog_subs(a)
        return out + ty_subs(p.type) + [p]
    if isinstance(p, Lambda):
        return prog_subs(p.body) + ty_subs(p.type) + [p]
    return ty_subs(p.type) + [p]


def subs(o):
    return ty_subs(o) if isinstance(o, Type) else prog_subs(o)


def b(x):
    return 1 if x else 0


def same(loaded, twin):
    """1 iff the two objects are interchangeable: == both ways, same hash (the
    cached one), usable as key of a dict/set keyed by the other."""
    return b(loaded == twin and twin == loaded and hash(loaded) == hash(twin)
             and loaded.hash == twin.hash
             and {twin: 1}.get(loaded) == 1 and {loaded: 1}.get(twin) == 1
             and len({twin, loaded}) == 1)


def sub_flags(loaded, twin):
    ls, ts = subs(loaded), subs(twin)
    if len(ls) != len(ts):
        return [0]
    return [same(x, y) for x, y in zip(ls, ts)]


# ----------------------------------------------------------------------------
# in-process observations
# ----------------------------------------------------------------------------
def observe(objs):
    n = len(objs)
    eqs = [b(objs[i] == objs[j]) for i in range(n) for j in range(n) if i != j]
    hs = [b(hash(objs[i]) == hash(objs[j])) for i in range(n) for j in range(i + 1, n)]
    gets = [b({objs[i]: 1}.get(objs[j]) == 1) for i in range(n) for j in range(n) if i != j]
    sets = [len({objs[i], objs[j]}) for i in range(n) for j in range(i + 1, n)]
    ins = [b(objs[j] in [objs[i]]) for i in range(n) for j in range(n) if i != j]
    nes = [b(objs[i] != objs[j]) for i in range(n) for j in range(n) if i != j]
    return {"eq": eqs, "hash": hs, "get": gets, "set": sets, "in_list": ins, "ne": nes}


def derived(case):
    """Objects produced by library operations, each against a fresh twin built
    by the constructors from what the object says it is."""
    from synth.syntax.dsl import DSL
    out = []

    def check(o):
        twin = obj(obj_wire(o))
        out.append([obj_wire(o), sub_flags(o, twin)])

    syntax = {name(n): ty(t) for n, t in case["syntax"]}
    for t in list(syntax.values()):
        for v in t.all_versions():
            check(v)
        check(t.without_unit_arguments())
        check(t.unify({name(n): ty(u) for n, u in case["unifier"]}))
        check(t | ty(case["other"]))
        check(ty(case["other"]) | t)
    try:
        dsl = DSL(dict(syntax))
        dsl.instantiate_polymorphic_types()
        prims = list(dsl.list_primitives)
    except Exception:
        prims = []                 # instantiation rejects this syntax: nothing to observe
    for P in prims:
        check(P)
    for w in case["progs"]:
        p = prog(w)
        check(p.clone())
        for s in p.depth_first_iter():
            check(s)
        if isinstance(p, Constant):
            p.assign(3)
            check(p)
            p.reset()
            check(p)
            # re-assignments with values that compare equal under == but are different constants
            for a, b_ in ((1, True), (1.0, 1), (0, False), (False, 0), (None, 0)):
                p.assign(a)
                check(p)
                p.assign(b_)
                check(p)
            p.reset()
            check(p)
    return out


# ----------------------------------------------------------------------------
# cross-process
# ----------------------------------------------------------------------------
PROBE = "c16-probe-string"


def make_dataset(objs):
    from synth.task import Task, Dataset
    from synth.specification import PBE, PBEWithConstants, Example
    types = [o for o in objs if isinstance(o, Type)] or [UnknownType()]
    progs = [o for o in objs if isinstance(o, Program)]
    tasks = []
    for i, t in enumerate(types):
        sol = progs[i % len(progs)] if progs and i % 3 != 2 else None
        ex = [Example([i, [i, i + 1]], i + 1), Example([0, []], None)]
        if i % 2 == 0:
            spec = PBEWithConstants(ex, {t: [i, "c"], types[(i + 1) % len(types)]: [1.5]})
        else:
            spec = PBE(ex)
        tasks.append(Task(t, spec, sol, {"name": "task%d" % i, "i": i}))
    return Dataset(tasks, {"dataset": "c16", "n": len(tasks)})


def make_keyed(objs):
    d = {}
    for i, o in enumerate(objs):
        d[(o, (i % 3, None))] = i
    return d


def build_grammars(case):
    from synth.syntax.dsl import DSL
    from synth.syntax.grammars.cfg import CFG
    from synth.syntax.grammars.u_cfg import UCFG
    from synth.syntax.grammars.tagged_det_grammar import ProbDetGrammar
    from synth.syntax.grammars.tagged_u_grammar import ProbUGrammar
    dsl = DSL({name(n): ty(t) for n, t in case["syntax"]})
    dsl.instantiate_polymorphic_types()
    tr = ty(case["treq"])
    ctypes = {ty(t) for t in case["ctypes"]}
    cfg = CFG.depth_constraint(dsl, tr, case["depth"], constant_types=ctypes)
    deeper = CFG.depth_constraint(dsl, tr, case["depth"] + 1, constant_types=ctypes)
    pcfg = ProbDetGrammar.uniform(cfg)
    ucfg = UCFG.depth_constraint(dsl, tr, case["depth"], constant_types=ctypes)
    pucfg = ProbUGrammar.uniform(ucfg)
    return {"dsl": dsl, "cfg": cfg, "pcfg": pcfg, "ucfg": ucfg, "pucfg": pucfg, "deeper": deeper}


def writer(case_path, outdir):
    from synth.utils.data_storage import save_object
    case = json.load(open(case_path))
    info = {"probe": hash(PROBE), "seed": os.environ.get("PYTHONHASHSEED")}
    if case["kind"] == "xproc":
        objs = [obj(w) for w in case["objs"]]
        with open(os.path.join(outdir, "pickle_default.bin"), "wb") as f:
            pickle.dump(objs, f)
        with open(os.path.join(outdir, "pickle_2.bin"), "wb") as f:
            pickle.dump(objs, f, protocol=2)
        save_object(os.path.join(outdir, "save_object.bz2"), objs)
        save_object(os.path.join(outdir, "save_object_raw.bz2"), objs, optimize=False, compress_level=1)
        make_dataset(objs).save(os.path.join(outdir, "dataset.bz2"))
        with open(os.path.join(outdir, "keyed.bin"), "wb") as f:
            pickle.dump(make_keyed(objs), f)
    else:
        g = build_grammars(case)
        del g["deeper"]
        with open(os.path.join(outdir, "grammars.bin"), "wb") as f:
            pickle.dump(g, f)
        save_object(os.path.join(outdir, "grammars.bz2"), g)
    json.dump(info, open(os.path.join(outdir, "info.json"), "w"))


def run_writer(case):
    """Runs the writer under a PYTHONHASHSEED different from ours."""
    mine = os.environ.get("PYTHONHASHSEED", "random")
    ws = str(case["wseed"])
    if ws == mine:
        ws = str(case["wseed"] + 1000)
    d = tempfile.mkdtemp(prefix="c16_")
    cpath = os.path.join(d, "case.json")
    json.dump(case, open(cpath, "w"))
    env = dict(os.environ)
    env["PYTHONHASHSEED"] = ws
    p = subprocess.run([sys.executable, "-m", "props.c16_impl", "write", cpath, d], env=env,
                       stdout=subprocess.PIPE, stderr=subprocess.PIPE, text=True, timeout=120)
    if p.returncode != 0:
        shutil.rmtree(d, ignore_errors=True)
        raise RuntimeError("writer failed: " + p.stderr[-800:])
    return d


def xproc(case):
    from synth.utils.data_storage import load_object
    from synth.task import Dataset
    d = run_writer(case)
    try:
        info = json.load(open(os.path.join(d, "info.json")))
        twins = [obj(w) for w in case["objs"]]
        routes = {}
        for route, loader in [
            ("pickle_default", lambda: pickle.load(open(os.path.join(d, "pickle_default.bin"), "rb"))),
            ("pickle_2", lambda: pickle.load(open(os.path.join(d, "pickle_2.bin"), "rb"))),
            ("save_object", lambda: load_object(os.path.join(d, "save_object.bz2"))),
            ("save_object_raw", lambda: load_object(os.path.join(d, "save_object_raw.bz2"))),
        ]:
            loaded = loader()
            routes[route] = [[obj_wire(lo), sub_flags(lo, tw)] for lo, tw in zip(loaded, twins)]
            if len(loaded) != len(twins):
                routes[route].append("length")
        # Dataset.save / Dataset.load
        ds = Dataset.load(os.path.join(d, "dataset.bz2"))
        tw = make_dataset(twins)
        flags = [b(ds == tw), b(tw == ds), b(len(ds) == len(tw)), b(ds.metadata == tw.metadata),
                 b(ds.type_requests() == tw.type_requests()), b(tw.type_requests() == ds.type_requests())]
        for lt, tt in zip(ds.tasks, tw.tasks):
            flags += [b(lt == tt), b(tt == lt), b(lt.metadata == tt.metadata),
                      b(lt.specification == tt.specification)]
            flags += sub_flags(lt.type_request, tt.type_request)
            flags.append(b((lt.solution is None) == (tt.solution is None)))
            if lt.solution is not None and tt.solution is not None:
                flags += sub_flags(lt.solution, tt.solution)
            lc = getattr(lt.specification, "constants", None)
            tc = getattr(tt.specification, "constants", None)
            flags.append(b((lc is None) == (tc is None)))
            if lc is not None and tc is not None:
                flags.append(b(lc == tc))
                for k in lc:
                    flags.append(b(k in tc and tc[k] == lc[k]))
                for k in tc:
                    flags.append(b(k in lc and lc[k] == tc[k]))
        # dict keyed by tuples holding the objects
        kd = pickle.load(open(os.path.join(d, "keyed.bin"), "rb"))
        tk = make_keyed(twins)
        kflags = [b(kd == tk), b(tk == kd), b(len(kd) == len(tk))]
        for k, v in tk.items():
            kflags.append(b(kd.get(k) == v))
        for k, v in kd.items():
            kflags.append(b(tk.get(k) == v))
        return {"seeds_differ": b(info["probe"] != hash(PROBE)), "routes": routes, "dataset": flags,
                "keyed": kflags}
    finally:
        shutil.rmtree(d, ignore_errors=True)


def gen_programs(cfg, limit):
    """Programs of a CFG, by expanding its rule table (at most `limit` per non-terminal)."""
    memo = {}

    def go(S):
        if S in memo:
            return memo[S]
        memo[S] = []          # (acyclic tables; a cycle would just contribute nothing)
        out = []
        for P in cfg.rules[S]:
            args = cfg.rules[S][P][0]
            if not args:
                out.append(P)
            else:
                pools = [go((a[0], (a[1], None)))[:6] for a in args]
                for combo in itertools.islice(itertools.product(*pools), limit):
                    out.append(Function(P, list(combo)))
            if len(out) >= limit:
                break
        memo[S] = out[:limit]
        return memo[S]
    return go(cfg.start)


def grammar_objects(g):
    """Every type / program object found in the rule table of a grammar."""
    found = []

    def walk(x):
        if isinstance(x, (Type, Program)):
            found.append(x)
        elif isinstance(x, (tuple, list, set, frozenset)):
            for y in x:
                walk(y)
        elif isinstance(x, dict):
            for k, v in x.items():
                walk(k)
                walk(v)
        elif hasattr(x, "predecessors"):
            walk(x.predecessors)
    walk(g.rules)
    walk(getattr(g, "start", None))
    walk(getattr(g, "starts", None))
    walk(g.type_request)
    return found


def close(x, y):
    return abs(x - y) <= 1e-12 * max(1.0, abs(x), abs(y))


def xgrammar(case):
    from synth.utils.data_storage import load_object
    d = run_writer(case)
    try:
        info = json.load(open(os.path.join(d, "info.json")))
        tw = build_grammars(case)
        members = gen_programs(tw["cfg"], 60)
        outsiders = [p for p in gen_programs(tw["deeper"], 150) if p not in tw["cfg"]][:20]
        out = {"seeds_differ": b(info["probe"] != hash(PROBE)), "programs": len(members),
               "outsiders": len(outsiders)}
        for route, loader in [("pickle", lambda: pickle.load(open(os.path.join(d, "grammars.bin"), "rb"))),
                              ("save_object", lambda: load_object(os.path.join(d, "grammars.bz2")))]:
            lo = loader()
            f = []
            ueq = []
            f += [b(lo["dsl"] == tw["dsl"]), b(tw["dsl"] == lo["dsl"])]
            for P in lo["dsl"].list_primitives:
                f.append(b(P in tw["dsl"].list_primitives))
                f += sub_flags(P, obj(obj_wire(P)))
            for key in ("cfg", "pcfg", "ucfg", "pucfg"):
                L, T = lo[key], tw[key]
                (ueq if key in ("ucfg", "pucfg") else f).extend([b(L == T), b(T == L)])
                f += [b(L.programs() == T.programs()), b(L.type_request == T.type_request),
                      b(T.type_request == L.type_request), b(hash(L.type_request) == hash(T.type_request))]
                f += [b(set(L.rules.keys()) == set(T.rules.keys())), b(len(L.rules) == len(T.rules))]
                for S in L.rules:
                    f.append(b(S in T.rules))
                    if S in T.rules:
                        f.append(b(set(L.rules[S].keys()) == set(T.rules[S].keys())))
                        for P in L.rules[S]:
                            f.append(b(P in T.rules[S] and T.rules[S][P] == L.rules[S][P]))
                for S in T.rules:
                    f.append(b(S in L.rules))
                    if S in L.rules:
                        for P in T.rules[S]:
                            f.append(b(P in L.rules[S]))
                for o in grammar_objects(L):
                    f.append(same(o, obj(obj_wire(o))))
                for p in members:
                    f.append(b((p in L) and (p in T)))
                for p in outsiders:
                    f.append(b((p in L) == (p in T)))
                if key in ("pcfg", "pucfg"):
                    f.append(b(L.tags == T.tags))
                    for p in members:
                        f.append(b(close(L.probability(p), T.probability(p))))
                    for p in outsiders[:5]:
                        try:
                            a = L.probability(p)
                        except Exception as e:
                            a = type(e).__name__
                        try:
                            c = T.probability(p)
                        except Exception as e:
                            c = type(e).__name__
                        f.append(b(a == c or (isinstance(a, float) and isinstance(c, float) and close(a, c))))
            out[route] = f
            out[route + "_u_eq"] = ueq
        return out
    finally:
        shutil.rmtree(d, ignore_errors=True)


def impl(case):
    k = case["kind"]
    if k in ("pair", "triple"):
        return observe([obj(w) for w in case["objs"]])
    if k == "derived":
        return derived(case)
    if k == "xproc":
        return xproc(case)
    if k == "xgrammar":
        return xgrammar(case)
    raise ValueError(k)


if __name__ == "__main__":
    if sys.argv[1] == "write":
        writer(sys.argv[2], sys.argv[3])
