from synth.syntax.dsl import DSL
from synth.syntax.grammars.cfg import CFG
from synth.syntax.grammars.u_cfg import UCFG
from lib import objs as O
from lib import semantics as S


def build_dsl(prims, forbidden):
    syntax = {}
    extra = []
    for n, t in prims:
        name = S.prim_name(n)
        if name in syntax:
            extra.append((name, O.ty(t)))
        else:
            syntax[name] = O.ty(t)
    forb = {(S.prim_name(k[0]), k[1]): {S.prim_name(x) for x in v} for k, v in forbidden}
    dsl = DSL(syntax, forb)
    from synth.syntax.program import Primitive
    for name, t in extra:
        dsl.list_primitives.append(Primitive(name, t))
    return dsl


def pos_wire(S):
    from synth.syntax.type_system import UnknownType
    if isinstance(S[0], UnknownType):
        return []
    return [O.ty_wire(S[0]), S[1][0][1]]


def derivations(cfg, ps, bits):
    """derive_all / reduce_derivations on the members (never non-terminal names:
    a position is (type, depth), the end marker is [])."""
    out = []
    for p, b in zip(ps, bits):
        if not b:
            out.append([])
            continue
        info, cur = cfg.derive_all(cfg.start_information(), cfg.start, p)
        red = cfg.reduce_derivations(
            lambda acc, S, P, v: acc + [[O.ty_wire(S[0]), S[1][0][1], O.sym_wire(P), len(v[0])]], [], p)
        out.append([[pos_wire(S) for S in cur], red, len(info)])
    return out


def impl(case):
    params, progs = case["data"]
    prims, forbidden, request, max_depth, min_var, n_gram, const_types = params
    dsl = build_dsl(prims, forbidden)
    treq = O.ty(request)
    consts = {O.ty(t) for t in const_types}
    if case["kind"].startswith("inf/"):
        # max_depth -1: through depth_constraint; -2: CFG.infinite called directly
        if max_depth == -1:
            cfg = CFG.depth_constraint(dsl, treq, -1, n_gram=n_gram, constant_types=consts)
        else:
            cfg = CFG.infinite(dsl, treq, n_gram, False, consts)
    else:
        cfg = CFG.depth_constraint(dsl, treq, max_depth, min_var, n_gram, False, consts)
    ps = [O.prog(w) for w in progs]
    out = {"in": [1 if p in cfg else 0 for p in ps]}
    out["count"] = cfg.programs()
    out["derivs"] = derivations(cfg, ps, out["in"])
    rules = []
    for Snt in cfg.rules:
        for Pd in cfg.rules[Snt]:
            rules.append([O.ty_wire(Snt[0]), Snt[1][0][1], O.sym_wire(Pd)])
    out["rules"] = rules
    out["treq"] = O.ty_wire(cfg.type_request)
    if case["kind"].startswith("inf/"):
        return out
    dsl2 = build_dsl(prims, forbidden)
    ucfg = UCFG.depth_constraint(dsl2, treq, max_depth, min_var, n_gram, False, consts)
    out["in_u"] = [1 if p in ucfg else 0 for p in ps]
    out["count_u"] = ucfg.programs()
    return out
