import json

from synth.syntax.dsl import DSL
from lib import objs as O


def _obs(dsl):
    out = [[O.prim_id(p.primitive), O.ty_wire(p.type)] for p in dsl.list_primitives]
    out.sort(key=lambda x: json.dumps(x))
    return out


def impl(case):
    bound, syn = case["data"]
    syntax = {"p%d" % n: O.ty(t) for n, t in syn}
    assert len(syntax) == len(syn)
    dsl = DSL(syntax)
    dsl.instantiate_polymorphic_types(bound)
    once = _obs(dsl)
    dsl.instantiate_polymorphic_types(bound)
    twice = _obs(dsl)
    return [once, twice]
