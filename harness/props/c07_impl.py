"""Implementation runner for C07: builds synth DFTA objects, applies the real
operation and reports what the resulting automaton does on every tree."""
from synth.syntax.automata.tree_automaton import DFTA


def dec(x):
    """wire state -> hashable python value (nested lists become tuples)"""
    if isinstance(x, list):
        return tuple(dec(y) for y in x)
    return x


def make_name(names):
    if names:
        return lambda q: "q%d" % q
    return lambda q: q


def unname(q):
    if isinstance(q, str):
        return int(q[1:])
    return q


def enc(q):
    """python state -> wire (ints stay, "q<n>" -> n, tuples -> lists)"""
    if isinstance(q, tuple):
        return [enc(x) for x in q]
    return unname(q)


def enc_union(q):
    """(a, b) with None components -> [[a]|[], [b]|[]] (the model's option encoding)"""
    a, b = q
    return [[] if a is None else [enc(a)], [] if b is None else [enc(b)]]


def build(aut, name):
    rl, fin = aut
    rules = {}
    for l, args, d in rl:
        rules[(l, tuple(name(a) for a in args))] = name(d)
    return DFTA(rules, {name(q) for q in fin})


def run_all(aut, dag):
    """bottom-up runner over the DAG of trees, using DFTA.read only"""
    st = []
    for l, cs in dag:
        q = None
        if all(st[c] is not None for c in cs):
            q = aut.read(l, tuple(st[c] for c in cs))
        st.append(q)
    return st


def bits(aut, st):
    return [1 if (q is not None and q in aut.finals) else 0 for q in st]


def opt(f, st):
    return [[] if q is None else [f(q)] for q in st]


def impl(case):
    k = case["kind"]
    dag = case["trees"]
    name = make_name(case.get("names", 0))
    A = build(case["A"], name)
    out = {"bitsA": bits(A, run_all(A, dag))}
    if k in ("product", "union"):
        # "same_object": the operand is the automaton itself (A.read_product(A))
        B = A if case.get("same_object") else build(case["B"], name)
        out["bitsB"] = bits(B, run_all(B, dag))
    if k == "reduce":
        A.reduce()
        R = A
    elif k == "product":
        R = A.read_product(B)
    elif k == "union":
        R = A.read_union(B)
    elif k == "map_states":
        table = {name(q): dec(v) for q, v in case["table"]}
        R = A.map_states(lambda q: table[q])
    elif k in ("minimise", "minimise_raw"):
        try:
            R = A.minimise()
        except KeyError:
            return {"keyerror": True}
    elif k == "reduce_minimise":
        A.reduce()
        R = A.minimise()
    else:
        raise ValueError(k)
    st = run_all(R, dag)
    out["bits"] = bits(R, st)
    out["nstates"] = len(R.states)
    if k == "product":
        out["runs"] = opt(enc, st)
    elif k == "map_states":
        out["runs"] = opt(enc, st)
    return out
