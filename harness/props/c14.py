"""C14: polymorphic primitives expand to exactly their admissible ground instances."""
import json

ID = "C14"
IMPL_MODULE = "props.c14_impl"
HASHSEEDS = {"quick": [0, 1], "thorough": [0, 1, 2, 3, 4, 5, 6, 7]}
CASE_TIMEOUT = 60
RULE = ("random DSL syntaxes: 1-6 primitives over a pool of 1-3 base types (plus unit), each primitive with 0-3 type "
        "variables (unrestricted or restricted; a restricted variable carries the same annotation at every occurrence, "
        "annotations are lists of types or one sum as auto_type builds them, sometimes naming a type that occurs nowhere "
        "else), 0-3 arguments; components: base types, unit in any argument position, variables, list / list list / another "
        "unary generic / a binary generic, higher-order arguments, sums of 2-3 alternatives (possibly containing unit, "
        "variables, occasionally nested sums) inside arrows and generics; plain monomorphic primitives; bounds 0-6. "
        "Observable: sorted list of (name, type) after one and after two calls.  Non-trivial = some primitive has a type "
        "variable, a sum or a unit argument and the result differs from the declared syntax.")
ASSUMPTIONS = [
    "Python sets of types are modelled as duplicate-free lists under structural equality (hash collisions outside the model; "
    "valid when a restricted variable has one annotation per declared type)",
    "inputs satisfy wf_syntax (distinct names, consistent annotations, annotations free of variables with unary generics, "
    "sums with >= 2 alternatives, one arity per generic name, list unary)",
    "the size bound limits the size of the type substituted for a variable (dsl.py docstring, examples/pbe/dreamcoder uses 1), "
    "not the size of the instance: tests/syntax/test_dsl.py::test_instantiate_polymorphic asserts the latter and is stale",
]

UNIT = [0, 4]
BASES = [0, 1, 5, 9]          # int bool string t9
LIST, GEN1, GEN2 = 2, 7, 8    # list, unary "t7", binary "t8"


def TLIST(t):
    return [2, LIST, t]


def size(t):
    k = t[0]
    if k == 1:
        return 1 + size(t[1]) + size(t[2])
    if k == 2:
        return 1 + sum(size(x) for x in t[2:])
    if k == 5:
        return max([0] + [size(x) for x in t[1:]])
    return 1


def gen_allowed(rng, pool):
    extra = [b for b in BASES if b not in pool]
    names = list(pool) + (extra[:1] if extra and rng.random() < 0.25 else [])

    def simple():
        r = rng.random()
        b = [0, rng.choice(names)]
        if r < 0.6:
            return b
        if r < 0.75:
            return TLIST(b)
        if r < 0.85:
            return TLIST(TLIST(b))
        return [1, b, [0, rng.choice(names)]]
    k = rng.randint(1, 3)
    alts = [simple() for _ in range(k)]
    r = rng.random()
    if r < 0.4 and k >= 2:
        return [[5] + alts]            # auto_type("'a[int|bool]") builds one Sum
    if r < 0.5 and k >= 2:
        return [alts[0], [5] + alts[1:]] if k >= 3 else [TLIST([5] + alts)]
    return alts


def gen_comp(rng, pool, tvars, depth, arg_pos):
    r = rng.random()
    if arg_pos and r < 0.12:
        return UNIT
    if tvars and r < 0.42:
        return rng.choice(tvars)
    if depth <= 0 or r < 0.62:
        return [0, rng.choice(pool)]
    r = rng.random()
    if r < 0.3:
        return TLIST(gen_comp(rng, pool, tvars, depth - 1, False))
    if r < 0.4:
        return TLIST(TLIST(gen_comp(rng, pool, tvars, depth - 2, False)))
    if r < 0.48:
        return [2, GEN1, gen_comp(rng, pool, tvars, depth - 1, False)]
    if r < 0.55:
        return [2, GEN2, gen_comp(rng, pool, tvars, depth - 1, False), gen_comp(rng, pool, tvars, depth - 1, False)]
    if r < 0.85:
        k = rng.choice([2, 2, 2, 3])
        nested = depth - 1 if rng.random() < 0.15 else 0
        alts = []
        for _ in range(k):
            if rng.random() < 0.2:
                alts.append(UNIT)
            else:
                alts.append(gen_comp(rng, pool, tvars, nested, False))
        return [5] + alts
    return [1, gen_comp(rng, pool, tvars, depth - 1, True), gen_comp(rng, pool, tvars, depth - 1, False)]


def gen_type(rng, pool):
    nv = rng.choice([0, 0, 1, 1, 1, 2, 2, 3])
    ids = rng.sample(range(6), nv)
    tvars = []
    for i in ids:
        if rng.random() < 0.4:
            tvars.append([4, i] + gen_allowed(rng, pool))
        else:
            tvars.append([3, i])
    nargs = rng.choice([0, 1, 1, 2, 2, 3])
    comps = [gen_comp(rng, pool, tvars, rng.randint(0, 2), True) for _ in range(nargs)]
    ret = gen_comp(rng, pool, tvars, rng.randint(0, 2), False)
    t = ret
    for a in reversed(comps):
        t = [1, a, t]
    return t


def vars_of(t, acc):
    k = t[0]
    if k in (3, 4):
        if t not in acc:
            acc.append(t)
    elif k == 1:
        vars_of(t[1], acc)
        vars_of(t[2], acc)
    elif k == 2:
        for x in t[2:]:
            vars_of(x, acc)
    elif k == 5:
        for x in t[1:]:
            vars_of(x, acc)
    return acc


def nversions(t):
    k = t[0]
    if k == 1:
        return nversions(t[1]) * nversions(t[2])
    if k == 2:
        n = 1
        for x in t[2:]:
            n *= nversions(x)
        return n
    if k == 5:
        return sum(nversions(x) for x in t[1:])
    return 1


def cost(bound, syn, nb):
    usz = nb + (nb if bound >= 2 else 0) + ((nb + nb * nb) if bound >= 3 else 0)
    worst = 0
    for _, t in syn:
        worst = max(worst, (usz ** len(vars_of(t, []))) * nversions(t))
    return worst


def gen(rng, tier):
    n = 260 if tier == "quick" else 4000
    cases = [
        {"kind": "edge", "data": [3, []]},
        {"kind": "edge", "data": [0, [[0, [1, [3, 0], [3, 0]]], [1, [0, 0]]]]},
        {"kind": "edge", "data": [2, [[0, [1, [3, 0], UNIT]]]]},
        # documented examples: optional arguments, 'a[int|bool]
        {"kind": "edge", "data": [3, [[0, [1, [5, UNIT, [0, 0]], [1, [5, UNIT, [0, 0]], [0, 1]]]]]]},
        {"kind": "edge", "data": [3, [[0, [1, [4, 0, [5, [0, 0], [0, 1]]], [4, 0, [5, [0, 0], [0, 1]]]]], [1, [0, 0]], [2, [0, 1]]]]},
        {"kind": "edge", "data": [1, [[0, [1, [5, [3, 0], [3, 1]], [0, 0]]], [1, [0, 1]]]]},
        {"kind": "edge", "data": [2, [[0, [1, [0, 0], [1, UNIT, [1, UNIT, [0, 0]]]]]]]},
    ]
    while len(cases) < n:
        pool = rng.sample(BASES, rng.choice([1, 2, 2, 3]))
        np_ = rng.randint(1, 6)
        syn = [[i, gen_type(rng, pool)] for i in range(np_)]
        bound = rng.choice([0, 1, 1, 2, 2, 3, 3, 4, 5, 6])
        if cost(bound, syn, len(pool) + 1) > 700:
            continue
        cases.append({"kind": "syntax", "data": [bound, syn]})
    return cases


def to_model(case):
    return (1, case["data"])


def _sorted(l):
    return sorted(l, key=lambda x: json.dumps(x))


VARIANTS = ["repaired", "pinned", "unit_only", "dedupe_only"]


def model_obs(case, raw):
    mo = {name: [_sorted(v[0]), _sorted(v[1])] for name, v in zip(VARIANTS, raw[1:5])}
    mo["groups"] = raw[5]
    mo["wf"] = bool(raw[0])
    if not mo["wf"] and case.get("kind") != "shrunk":
        raise RuntimeError("generated syntax is outside wf_syntax (harness bug): %s" % json.dumps(case)[:300])
    return mo


# Known findings are frequent on the pinned tree (every syntax with a unit
# argument behind another argument or with coinciding sum alternatives), and the
# orchestrator minimises only the first 25 disagreements.  So only the first
# _QUOTA cases per classifier are handed over as disagreements (enough to print
# the KNOWN-FINDING line); further cases on which the implementation behaves
# exactly like the pinned model are counted as explained.  Candidates produced by
# shrink() that are merely known findings are never "still failing", so a new
# failure is never minimised into a known one.
_QUOTA = 2
_reported = {}


def agree(case, impl_obs, mo):
    if not mo["wf"]:
        return True          # only shrink candidates get here
    if impl_obs == mo["repaired"]:
        return True
    cl = classify(case, impl_obs, mo)
    if cl is None:
        return False
    if case.get("kind") == "shrunk":
        return True
    key = json.dumps(case, sort_keys=True)
    seen = _reported.setdefault(cl, [])
    if key not in seen and len(seen) < _QUOTA:
        seen.append(key)     # handed over once (under the first hash seed that shows it)
        return False
    return True


def _interesting(t):
    k = t[0]
    if k in (3, 4, 5):
        return True
    if k == 1:
        return t[1] == UNIT or _interesting(t[1]) or _interesting(t[2])
    if k == 2:
        return any(_interesting(x) for x in t[2:])
    return False


def nontrivial(case, mo):
    bound, syn = case["data"]
    return any(_interesting(t) for _, t in syn) and mo["repaired"][0] != _sorted(syn)


def show(t):
    k = t[0]
    names = {0: "int", 1: "bool", 2: "list", 4: "unit", 5: "string"}
    if k == 0:
        return names.get(t[1], "t%d" % t[1])
    if k == 1:
        return "(%s -> %s)" % (show(t[1]), show(t[2]))
    if k == 2:
        return "%s(%s)" % (names.get(t[1], "t%d" % t[1]), ", ".join(show(x) for x in t[2:]))
    if k == 3:
        return "'v%d" % t[1]
    if k == 4:
        return "'v%d[%s]" % (t[1], ", ".join(show(x) for x in t[2:]))
    if k == 5:
        return "[" + " | ".join(show(x) for x in t[1:]) + "]"
    return "?"


def describe(case, mo):
    bound, syn = case["data"]
    return {"bound": bound, "syntax": {"p%d" % n: show(t) for n, t in syn},
            "model_once": ["p%d: %s" % (n, show(t)) for n, t in mo["repaired"][0][:12]],
            "model_count": [len(mo["repaired"][0]), len(mo["repaired"][1])]}


def _subterms(t):
    """smaller replacements of a type"""
    k = t[0]
    if k == 1:
        yield t[2]
        yield t[1]
        for x in _subterms(t[1]):
            yield [1, x, t[2]]
        for x in _subterms(t[2]):
            yield [1, t[1], x]
    elif k == 2:
        for i in range(2, len(t)):
            yield t[i]
            for x in _subterms(t[i]):
                yield t[:i] + [x] + t[i + 1:]
    elif k == 5:
        for x in t[1:]:
            yield x
        if len(t) > 3:
            for i in range(1, len(t)):
                yield t[:i] + t[i + 1:]
    elif k == 4:
        yield [3, t[1]]


def _consistent(t):
    names = {}
    for v in vars_of(t, []):
        if v[1] in names:
            return False
        names[v[1]] = v
    return True


def shrink(case):
    bound, syn = case["data"]
    for i in range(len(syn)):
        yield {"kind": "shrunk", "data": [bound, syn[:i] + syn[i + 1:]]}
    for b in range(bound):
        yield {"kind": "shrunk", "data": [b, syn]}
    for i, (n, t) in enumerate(syn):
        for s in _subterms(t):
            if _consistent(s):
                yield {"kind": "shrunk", "data": [bound, syn[:i] + [[n, s]] + syn[i + 1:]]}


def explained_by_pinned(impl_obs, groups):
    """True iff the implementation's two answers are, as multisets, the union of
    one alternative per class of pinned_groups (the pinned code under some
    iteration order of its sets)."""
    import collections
    if not (isinstance(impl_obs, list) and len(impl_obs) == 2):
        return False
    need = [collections.Counter(json.dumps(x) for x in impl_obs[0]),
            collections.Counter(json.dumps(x) for x in impl_obs[1])]
    open_groups = []
    for g in groups:
        alts = {}
        for once, twice in g:
            k = (tuple(sorted(json.dumps(x) for x in once)), tuple(sorted(json.dumps(x) for x in twice)))
            alts[k] = True
        open_groups.append(list(alts))
    open_groups.sort(key=len)

    def take(alt, sign):
        ok = True
        for i in (0, 1):
            for x in alt[i]:
                need[i][x] -= sign
                if need[i][x] < 0:
                    ok = False
        return ok

    budget = [200000]

    def go(i):
        budget[0] -= 1
        if budget[0] < 0:
            return False
        if i == len(open_groups):
            return all(v == 0 for c in need for v in c.values())
        for alt in open_groups[i]:
            if take(alt, 1) and go(i + 1):
                return True
            take(alt, -1)
        return False

    return go(0)


def classify(case, impl_obs, mo):
    """Known defects of the pinned code, recognised only when the implementation
    behaves exactly like the faithful (pinned) model under some iteration order
    of its sets; which repair removes the disagreement names the defect."""
    if impl_obs == mo["repaired"] or not explained_by_pinned(impl_obs, mo["groups"]):
        return None
    if mo["unit_only"] == mo["repaired"]:
        return "c14_unit_argument_not_first"
    if mo["dedupe_only"] == mo["repaired"]:
        return "c14_duplicate_instances"
    return "c14_unit_removal_and_duplicates"


def theorem_for(case):
    return ("C14_sound + C14_complete_once (the result is exactly the duplicate-free list of admissible instances) "
            "and C14_idempotent for the second call")
