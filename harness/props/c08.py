"""C08: splitting a probabilistic unambiguous grammar yields a partition of its
programs with consistent weights.

The implementation runner (c08_impl.py) builds the grammar with the real code,
gives it exact dyadic weights, calls split() and observes every fragment from
outside.  The extracted Coq model (Enum/Splitter.v) is run on the
implementation's own rule table:
 * entry 2 on the group of all start symbols gives the exact probability and
   the number of derivations of every program;
 * entry 2 on every group of prefix nodes the implementation handed to its
   reconstruction gives the specified membership and probability of every
   program in that fragment (theorems C08_fragments_*);
 * entry 1 with the flags of the code as found (the PINNED balance loop) gives
   the groups, masses, ratio or exception the balance loop of the repository
   produces: the weights are small dyadic rationals, every float operation of
   the loop is exact and the algorithm is deterministic, so the comparison is
   exact;
 * entry 3 checks the hypotheses of the theorems on the table.

The repository's splitter does not satisfy the property (proposed_fixes/C08-*,
not applied).  A case therefore passes when the specified observables hold AND
the balance loop is exactly the pinned model's; when the specified observables
do not hold it is a KNOWN FINDING only if the pinned model reproduces the
implementation exactly (balance loop) or, for the fragment reconstruction that
is not modelled, if the groups handed to it were exactly the pinned model's and
the symptom belongs to the recorded family."""
import json
from fractions import Fraction

from lib import core
from lib import dsls as D
from lib import progs as P
from lib import semantics as S

ID = "C08"
IMPL_MODULE = "props.c08_impl"
HASHSEEDS = {"quick": [0, 1], "thorough": [0, 1, 2, 3]}
CASE_TIMEOUT = 60          # the runner limits split() itself to 3 s and reports where it was
MODEL_FUEL = 1500          # iterations of the model's loops; a pinned loop that needs more is a cycle
REPAIRED = [1, 1, 1, 1, 1, 1]
PINNED = [0, 0, 0, 0, 0, 0]
PINNED_KNONE = [0, 0, 1, 0, 0, 0]   # the code as found with only "if k is not None"
RULE = ("probabilistic unambiguous grammars built by the real code: UCFG.from_CFG of CFG.depth_constraint on random abstract DSLs "
        "(families F1-F6 of lib/dsls.py, depth 1-5, forbidden tables, constant slots, n_gram 1-3) and UCFG.from_DFTA of a sharpened "
        "automaton (several start symbols), at most 160 programs; weights are exact dyadic rationals k/2^m summing to 1 at every "
        "non-terminal, in three flavours: as equal as possible (ties everywhere, like uniform()), random, skewed; "
        "split(pcfg, splits, desired_ratio) for splits in 2..min(8, |L|) and ratios 1.05 / 1.5 / 3; regression corpus (expect_ok): cases "
        "recorded as rebuilt correctly by the unchanged tree, most with desired ratio 1000 (balance loop not entered, splits 2-9), whose "
        "fragments must stay correct.  Observables: termination "
        "(and where a run that does not return is), exception class, number of fragments, membership and probability() of every "
        "program of the original language in every fragment, programs() of every fragment, the returned ratio, the groups of "
        "prefix nodes handed to the reconstruction (nodes, order, masses).  Non-trivial = the language has >= 4 programs, every "
        "program has exactly one derivation in the model, the hypotheses of the theorems hold of the table (wf_input) and the "
        "pinned model was compared with the implementation's balance loop.")
ASSUMPTIONS = ["weights are dyadic rationals with bits * (longest derivation + 1) <= 40, so every product, sum and difference of the "
               "splitter is exact in binary64 and its comparisons decide as in the exact model; uniform() / random() float weights "
               "are NOT exercised: with them a rounding can legitimately change which swap the loop chooses and the exact "
               "comparison with the pinned model would raise false alarms",
               "float tolerance 1e-9 (relative) on probability() of a fragment against original probability / mass of the group "
               "and on the returned ratio",
               "c08_reconstruction_defects is SYMPTOM BASED: __pcfg_from__ is not modelled, so once the groups handed to it are "
               "exactly the pinned model's, any failure of the fragments of the recorded family (programs in no or several fragments, "
               "wrong conditional probability, programs() different from the language, IndexError / KeyError / no return inside "
               "__pcfg_from__) is accepted as the recorded defect: the check has little power against NEW defects inside "
               "__pcfg_from__.  Everything upstream of it (nodes, grouping, balance loop, returned ratio, exceptions, "
               "non-termination of the loop) is compared exactly with the pinned model",
               "grammars are finite, weights positive, every non-terminal's weights and the start weights sum to 1",
               "split() is given 3 s; the code as found needs less than 0.01 s on these grammars unless it cycles; a run that does not "
               "return is accepted only when the pinned model does not return within 1500 iterations either"]

_CACHE = {}
WMODES = ["dyadic-even", "dyadic", "dyadic-skewed"]


def gen(rng, tier):
    n_grammars = 64 if tier == "quick" else 400
    cases = []
    kinds = ["ucfg", "ucfg", "ucfg", "udfta"]
    for i in range(n_grammars):
        kind = kinds[i % len(kinds)]
        if kind == "udfta":
            dsl = D.gen_dsl(rng, rng.choice(["F1", "F2", "F2", "F5"]))
            dsl["const_types"] = []
        else:
            dsl = D.gen_dsl(rng)
        bound = rng.choice([2, 3, 3, 4, 4, 5])
        min_var = rng.choice([0, 1, 1, 1, 2])
        n_gram = rng.choice([1, 2, 2, 2, 3])
        constraint = ""
        if kind == "udfta":
            funs = [p for p in dsl["prims"] if p[1][0] == 1]
            f = rng.choice(funs)
            args, _ = D.arrow_parts(f[1])
            leaves = [p for p in dsl["prims"] if p[1] == args[0]]
            if leaves:
                c = rng.choice(leaves)
                constraint = "(p%d p%d%s)" % (f[0], c[0], " _" * (len(args) - 1))
            else:
                constraint = "(p%d%s)" % (f[0], " _" * len(args))
        gp = [dsl["prims"], dsl["forbidden"], dsl["request"], bound, min_var, n_gram, dsl["const_types"], constraint]
        wmode = WMODES[(i // len(kinds) + i) % len(WMODES)]
        wseed = rng.randrange(1, 10 ** 6)
        combos = [(s, r) for s in range(2, 9) for r in (1.05, 1.5, 3.0)]
        rng.shuffle(combos)
        for s, r in combos[:(5 if tier == "quick" else 8)]:
            cases.append({"kind": kind, "data": [gp, wmode, wseed, s, r]})
    return cases


MODEL_AFTER_IMPL = True     # the model is run on the table the implementation built


def model_calls(io):
    tb, ws, sws, progs = io["table"], io["weights"], io["start_weights"], io["programs"]
    fuel = io["max_len"] + 2
    calls = [(3, [tb, ws, sws, fuel]),
             (2, [tb, ws, sws, [[x, []] for x, _ in sws], progs])]
    for g in io.get("groups") or []:
        calls.append((2, [tb, ws, sws, [prefix_of(n) for n in g], progs]))
    for fl in (PINNED, PINNED_KNONE):
        calls.append((1, [tb, ws, sws, io["splits"], io["threshold"], MODEL_FUEL, fl]))
    return calls


def to_model(case, io):
    if not isinstance(io, dict) or "table" not in io:
        return []
    return model_calls(io)


def model_obs(case, raws, io):
    if not raws:
        return {}
    ng = len(io.get("groups") or [])
    return {"wf": raws[0], "whole": raws[1], "frags": raws[2:2 + ng], "loops": raws[2 + ng:]}


def slim(io):
    """what goes into a replay file"""
    if not isinstance(io, dict):
        return io
    return {k: v for k, v in io.items() if k not in ("table", "weights", "programs", "member", "prob")}


def frac(w):
    return Fraction(w[0], w[1])


def close(x, exact, rel=Fraction(1, 10 ** 9)):
    if exact == 0:
        return x == 0
    return abs(x - exact) <= rel * abs(exact)


def prefix_of(nw):
    return [nw[0], nw[1]]


def ordered_groups(groups):
    """the groups in order, each as a sorted list of prefixes (JSON strings)"""
    return [sorted(json.dumps(prefix_of(n)) for n in g) for g in groups]


def decode_loop(r):
    status, groups, ratio = r
    if status != 0:
        return {"status": status}
    return {"status": 0, "masses": [frac(g[0]) for g in groups], "groups": [g[1] for g in groups], "ratio": frac(ratio)}


STATUS = {0: "returns", 1: "does not return within the model's fuel", 2: "raises IndexError", 3: "raises TypeError",
          4: "returns the ratio inf or nan (mass 0 of a group it emptied)"}


# ----------------------------------------------------------------------------
# the balance loop against the pinned model
# ----------------------------------------------------------------------------
def loop_matches(io, lp):
    """None when the implementation's balance loop is exactly the model run lp, else the difference."""
    def same_groups():
        groups = io.get("groups")
        if groups is None:
            return "the groups of the balance loop could not be observed"
        if ordered_groups(groups) != ordered_groups(lp["groups"]):
            return ("groups differ from the pinned model: sizes %s masses %s, model sizes %s masses %s"
                    % ([len(g) for g in groups], [str(sum((frac(n[2]) for n in g), Fraction(0))) for g in groups],
                       [len(g) for g in lp["groups"]], [str(m) for m in lp["masses"]]))
        tracked = [sum((frac(n[2]) for n in g), Fraction(0)) for g in groups]
        exact = [sum((frac(n[2]) for n in g), Fraction(0)) for g in lp["groups"]]
        if tracked != exact:
            return "node probabilities differ from the pinned model"
        r = io.get("loop_ratio")
        if not isinstance(r, list) or not close(frac(r), lp["ratio"]):
            return "ratio computed by the balance loop %s, pinned model %s" % (r, lp["ratio"])
        return None

    if io.get("hang") == "loop":
        return None if lp["status"] == 1 else "the balance loop does not return, the pinned model %s" % STATUS[lp["status"]]
    if "exc" in io and not io["exc"]["in_reconstruction"]:
        e = io["exc"]
        if lp["status"] == 3 and e["type"] == "TypeError" and "float64" in e["msg"]:
            return None
        if lp["status"] == 2 and e["type"] == "IndexError":
            return None
        return "the balance loop raises %s (%s), the pinned model %s" % (e["type"], e["msg"], STATUS[lp["status"]])
    # the balance loop returned (the reconstruction may then have failed)
    if lp["status"] == 4:
        # the model follows numpy (x/0 = inf, 0/0 = nan) and ends with such a ratio: so must the implementation
        r = io.get("loop_ratio")
        if isinstance(r, dict) and r.get("float") in ("inf", "nan"):
            return None
        return "the pinned model returns the ratio inf or nan (a group was emptied), the implementation's loop computed %s" % (r,)
    if lp["status"] != 0:
        return "the balance loop returned, the pinned model %s" % STATUS[lp["status"]]
    return same_groups()


def compare(io, mo):
    """List of (tag, text) differences with the specification and with the pinned balance loop.
    Tags: model, hang-loop, hang-reconstruction, exc-loop, exc-reconstruction, nfrag, member, prob, count, ratio, groups, pinned."""
    diffs = []
    nprog = io["n_programs"]
    whole = mo["whole"]
    orig = [frac(e[3]) for e in whole[2]]
    nder = [e[2] for e in whole[2]]
    if any(k != 1 for k in nder):
        return [("model", "a program of the original language has %s derivations in the model" % sorted(set(nder)))]
    lp = decode_loop(mo["loops"][0])
    d = loop_matches(io, lp)
    if d is not None:
        diffs.append(("pinned", d))
    groups = io.get("groups")
    splits = io["splits"]
    progs = io["programs"]
    # the groups handed to the reconstruction: a partition of the language, none empty, as many as requested
    groups_ok = groups is not None
    if groups is not None:
        empty = sum(1 for g in groups if not g)
        if empty:
            diffs.append(("groups", "the balance loop produced %d empty group(s)" % empty))
        if len(groups) != splits:
            diffs.append(("groups", "%d groups for splits=%d" % (len(groups), splits)))
        cover = [0] * nprog
        for gi, g in enumerate(groups):
            fr = mo["frags"][gi]
            if fr[0] != 1:
                diffs.append(("groups", "group %d contains a node that is not a derivation prefix of the grammar" % gi))
                groups_ok = False
            for k, e in enumerate(fr[2]):
                cover[k] += e[0]
        badc = [k for k in range(nprog) if cover[k] != 1]
        if badc:
            groups_ok = False
            diffs.append(("groups", "the groups are not a partition: %s is covered by %d nodes"
                          % (P.show_prog(progs[badc[0]]), cover[badc[0]])))
    if io.get("hang"):
        diffs.append(("hang-" + io["hang"], "split() did not return within the time limit (in the %s)" % io["hang"]))
        return diffs
    if "exc" in io:
        e = io["exc"]
        diffs.append(("exc-reconstruction" if e["in_reconstruction"] else "exc-loop",
                      "split raised %s: %s (in %s)" % (e["type"], e["msg"], e["where"])))
        return diffs
    if io["n_fragments"] != splits:
        diffs.append(("nfrag", "%d fragments returned for splits=%d" % (io["n_fragments"], splits)))
    member = io["member"]
    # A. observational: partition, conditional probabilities, counts, ratio
    where = []
    for k in range(nprog):
        if any(isinstance(row[k], dict) for row in member):
            diffs.append(("member", "membership test raised on %s" % P.show_prog(progs[k])))
            where.append(None)
            continue
        col = [i for i, row in enumerate(member) if row[k] == 1]
        if len(col) != 1:
            if not any(t == "member" for t, _ in diffs):
                diffs.append(("member", "%s is a member of %d fragments (%s)" % (P.show_prog(progs[k]), len(col), col)))
            where.append(None)
        else:
            where.append(col[0])
    masses = [sum((orig[k] for k in range(nprog) if where[k] == i), Fraction(0)) for i in range(len(member))]
    for i, m in enumerate(masses):
        if sum(1 for k in range(nprog) if where[k] == i) == 0:
            diffs.append(("member", "fragment %d contains no program of the original language" % i))
    for k in range(nprog):
        i = where[k]
        if i is None or masses[i] == 0:
            continue
        x = io["prob"][i][k]
        if not isinstance(x, list):
            diffs.append(("prob", "probability(%s) in fragment %d gave %r" % (P.show_prog(progs[k]), i, x)))
            break
        if not close(frac(x), orig[k] / masses[i]):
            diffs.append(("prob", "fragment %d: probability(%s) = %r, specified %s / %s = %r"
                          % (i, P.show_prog(progs[k]), float(frac(x)), orig[k], masses[i], float(orig[k] / masses[i]))))
            break
    for i, c in enumerate(io["counts"]):
        cnt = sum(1 for k in range(nprog) if member[i][k] == 1)
        if c != cnt:
            diffs.append(("count", "fragment %d: programs() = %r but it contains %d programs of the language" % (i, c, cnt)))
            break
    # the returned ratio against heaviest / lightest of the groups (exact masses of their prefixes)
    r = io["ratio"]
    if groups is not None and groups_ok:
        gm = [frac(mo["frags"][gi][1]) for gi in range(len(groups))]
        if all(m > 0 for m in gm):
            true_ratio = max(gm) / min(gm)
            if not isinstance(r, list) or not close(frac(r), true_ratio):
                diffs.append(("ratio", "returned ratio %s, heaviest / lightest group = %s / %s = %r"
                              % (float(frac(r)) if isinstance(r, list) else r, max(gm), min(gm), float(true_ratio))))
        else:
            diffs.append(("ratio", "returned ratio %s with an empty group" % (float(frac(r)) if isinstance(r, list) else r,)))
        if r != io.get("loop_ratio"):
            diffs.append(("pinned", "split returned %s, its balance loop computed %s" % (r, io.get("loop_ratio"))))
    elif masses and all(m > 0 for m in masses) and not any(t == "member" for t, _ in diffs):
        true_ratio = max(masses) / min(masses)
        if not isinstance(r, list) or not close(frac(r), true_ratio):
            diffs.append(("ratio", "returned ratio %s, heaviest / lightest fragment = %r" % (r, float(true_ratio))))
    # B. each fragment against the specification of its group
    if groups is not None and groups_ok:
        nonempty = [(gi, g) for gi, g in enumerate(groups) if g]
        if len(nonempty) == io["n_fragments"]:
            for fi, (gi, g) in enumerate(nonempty):
                fr = mo["frags"][gi]
                spec_m = [e[0] for e in fr[2]]
                got = [1 if b == 1 else 0 for b in member[fi]]
                if spec_m != got:
                    k = [a == b for a, b in zip(spec_m, got)].index(False)
                    diffs.append(("member", "fragment %d (group of %d nodes): %s member=%s, specified %s"
                                  % (fi, len(g), P.show_prog(progs[k]), member[fi][k], spec_m[k])))
                    break
        elif not any(t == "nfrag" for t, _ in diffs):
            diffs.append(("nfrag", "%d fragments for %d non-empty groups" % (io["n_fragments"], len(nonempty))))
    return diffs


def agree(case, io, mo):
    key = core.digest(case)
    if isinstance(io, dict) and "skipped" in io:
        _CACHE[key] = {"skipped": io["skipped"], "diffs": []}
        return True
    if not isinstance(io, dict) or "table" not in io:
        # the runner itself crashed or was killed
        _CACHE[key] = {"diffs": [("runner", json.dumps(io)[:300])]}
        return False
    diffs = compare(io, mo)
    _CACHE[key] = {"diffs": diffs, "n": io["n_programs"], "splits": io["splits"], "wf": mo["wf"],
                   "groups": None if io.get("groups") is None else [len(g) for g in io["groups"]],
                   "returned": "exc" not in io and not io.get("hang"), "note": io.get("note"), "bound": io.get("bound"),
                   "nder": sorted(set(e[2] for e in mo["whole"][2])), "io": io,
                   "pinned": decode_loop(mo["loops"][0]), "pinned_knone": decode_loop(mo["loops"][1]),
                   "seconds": io.get("seconds")}
    return not diffs


def nontrivial(case, mo):
    s = _CACHE.get(core.digest(case))
    return bool(s and not s.get("skipped") and s.get("n", 0) >= 4 and s.get("nder") == [1] and s.get("wf")
                and s["wf"][0] == 1 and s["wf"][1] == 1 and "pinned" in s
                and not any(t == "pinned" for t, _ in s.get("diffs", [])))


def show_ty(t):
    if t[0] == 0:
        return S.TYPE_NAMES.get(t[1], "t%d" % t[1])
    if t[0] == 1:
        return "(%s -> %s)" % (show_ty(t[1]), show_ty(t[2]))
    if t[0] == 2:
        return " ".join(show_ty(x) for x in t[2:]) + " " + S.TYPE_NAMES.get(t[1], "t%d" % t[1])
    return str(t)


def describe(case, mo):
    gp, wmode, wseed, splits, ratio = case["data"]
    s = _CACHE.get(core.digest(case), {})
    pin = s.get("pinned") or {}
    return {"grammar": case["kind"], "weights": wmode, "weight_seed": wseed, "splits_requested": splits, "desired_ratio": ratio,
            "dsl": {S.prim_name(n): show_ty(t) for n, t in gp[0]},
            "forbidden": [[S.prim_name(k[0]), k[1], [S.prim_name(x) for x in v]] for k, v in gp[1]],
            "request": show_ty(gp[2]), "bound": gp[3], "effective_bound": s.get("bound"), "min_variable_depth": gp[4],
            "n_gram": gp[5], "constant_types": [show_ty(t) for t in gp[6]], "constraint": gp[7],
            "language_size": s.get("n"), "splits": s.get("splits"),
            "hypotheses[wf_weights, wf_starts, positive, derivations]": s.get("wf"),
            "group_sizes": s.get("groups"), "note": s.get("note") or s.get("skipped"),
            "pinned_model": STATUS.get(pin.get("status")) if pin else None,
            "pinned_model_masses": [str(m) for m in pin.get("masses", [])],
            "pinned_model_ratio": str(pin.get("ratio")) if "ratio" in pin else None,
            "differences": [t + ": " + m for t, m in s.get("diffs", [])]}


def shrink(case):
    gp, wmode, wseed, splits, ratio = case["data"]
    prims, forbidden, request, bound, min_var, n_gram, const_types, constraint = gp
    out = []

    def mk(gp2, wmode2=wmode, splits2=splits, ratio2=ratio, kind=case["kind"]):
        return {"kind": kind, "data": [gp2, wmode2, wseed, splits2, ratio2]}

    if bound > 1:
        out.append(mk([prims, forbidden, request, bound - 1, min_var, n_gram, const_types, constraint]))
    if splits > 2:
        out.append(mk(gp, splits2=splits - 1))
        out.append(mk(gp, splits2=2))
    if case["kind"] == "udfta":
        out.append(mk(gp, kind="ucfg"))
    for i in range(len(prims)):
        pid = prims[i][0]
        p2 = prims[:i] + prims[i + 1:]
        f2 = [[k, [x for x in v if x != pid]] for k, v in forbidden if k[0] != pid]
        f2 = [e for e in f2 if e[1]]
        if case["kind"] == "udfta" and ("p%d " % pid in constraint + " " or "p%d)" % pid in constraint):
            continue
        out.append(mk([p2, f2, request, bound, min_var, n_gram, const_types, constraint]))
    if forbidden:
        out.append(mk([prims, [], request, bound, min_var, n_gram, const_types, constraint]))
    if const_types:
        out.append(mk([prims, forbidden, request, bound, min_var, n_gram, [], constraint]))
    if n_gram != 2:
        out.append(mk([prims, forbidden, request, bound, min_var, 2, const_types, constraint]))
    if ratio != 3.0:
        out.append(mk(gp, ratio2=3.0))
    return out


def should_shrink(case, io, mo):
    """a case that does not return is not minimised (every candidate would cost the time limit again)"""
    return not (isinstance(io, dict) and io.get("hang"))


LOOP_TAGS = {"hang-loop", "exc-loop", "nfrag", "ratio", "groups"}
RECONSTRUCTION_TAGS = {"hang-reconstruction", "exc-reconstruction", "member", "prob", "count"}


def classify(case, io, mo):
    """Recorded defects of the splitter (known_findings.json; proposed_fixes/C08-* are not applied).
    Nothing is a known finding unless the balance loop of the implementation is exactly the pinned model's."""
    key = core.digest(case)
    s = _CACHE.get(key, {})
    tags = {t for t, _ in s.get("diffs", [])}
    sio = s.get("io")
    if not tags or sio is None or "pinned" in tags or "model" in tags or "runner" in tags:
        return None
    if not tags <= LOOP_TAGS | RECONSTRUCTION_TAGS:
        return None
    lp = s["pinned"]
    if tags & RECONSTRUCTION_TAGS and case.get("expect_ok"):
        # a corpus case recorded as rebuilt correctly by the unchanged tree: a failure now is a regression
        return None
    if tags & RECONSTRUCTION_TAGS:
        # the balance loop returned groups that are exactly the pinned model's; they must be a partition of the
        # language made of valid prefixes for the blame to be on the reconstruction
        if lp["status"] not in (0, 4) or sio.get("groups") is None:
            return None
        if any(t == "groups" and ("not a partition" in m or "not a derivation prefix" in m) for t, m in s["diffs"]):
            return None
        if "exc-reconstruction" in tags and sio["exc"]["type"] not in ("IndexError", "KeyError", "AssertionError"):
            return None
        return "c08_reconstruction_defects"
    # only the balance loop is involved
    if "hang-loop" in tags:
        return "c08_swap_score_cycles"
    if "exc-loop" in tags:
        if lp["status"] == 3:
            return "c08_in_group_split_typeerror"
        return "c08_balance_loop_pinned"
    emptied = lp["status"] == 4 or (lp["status"] == 0 and any(not g for g in lp["groups"]))
    if emptied:
        # is "if k:" (index 0 taken for None) alone responsible?
        alt = s["pinned_knone"]
        if alt["status"] == 0 and all(alt["groups"]):
            return "c08_swap_index_zero"
        return "c08_take_empties_group"
    if "ratio" in tags and lp["status"] == 0:
        return "c08_ratio_not_max_over_min"
    return "c08_balance_loop_pinned"


def theorem_for(case):
    return ("C08_fragments_partition / C08_fragments_sum / C08_fragments_nonempty (every program of the language is in exactly one "
            "fragment, with probability = original probability / mass of the group), C08_ratio and C08_groups_nonempty (what a "
            "correct balance loop returns); the balance loop itself is compared with the faithful model of the code as found "
            "(Splitter.pinned), whose failures are C08_ratio_refuted, C08_nonempty_refuted, C08_split_in_group_refuted")
