"""C11 implementation runner: drives synth.semantic.evaluator.DSLEvaluator."""
from synth.semantic.evaluator import DSLEvaluator
from lib import objs as O
from lib import semantics as S

_SEM = None


def semantics():
    return O.semantics_dict(sorted(S.PRIMS))


def observe(ev, p, inp):
    try:
        v = ev.eval(p, inp)
    except Exception as ex:  # whatever escapes eval is the observation
        if type(ex) in S.EXC_IDS:
            return [1, S.EXC_IDS[type(ex)]]
        return [1, -1, type(ex).__name__, str(ex)[:200]]
    try:
        return [0, S.value_to_wire(v)]
    except TypeError:
        return [0, -1, repr(v)[:200]]


def curried(w):
    """The same program written with explicit currying: ((f a1) a2 ... an) for a
    primitive head of arity >= 2 applied to >= 2 arguments (the inner application
    is partial, so it cannot raise), recursively in the arguments.  Its reference
    value is that of the flat program."""
    from synth.syntax.program import Function
    if w[0] == 0:
        return O.sym(w[1])
    head, args = w[1], [curried(a) for a in w[2:]]
    if head[0] == 0 and head[1] in S.PRIMS and S.PRIMS[head[1]][1] >= 2 and len(args) >= 2:
        return Function(Function(O.sym(head), args[:1]), args[1:])
    return Function(O.sym(head), args)


def impl(case):
    if case["kind"] == "ref":
        w, inp = case["data"]
        ev = DSLEvaluator(semantics())
        ev.skip_exceptions = set()
        return observe(ev, O.prog(w), [S.value_from_wire(v) for v in inp])
    use_cache, skip, ops = case["data"]
    if case.get("decoy"):
        # another evaluator of the same process, with other semantics for the same
        # primitives, evaluates the same programs first: evaluators must not share state
        sem = semantics()
        twisted = {P: (S.Clos(1) if P.primitive == "add" else S.Clos(0) if P.primitive == "sub" else
                       S.Clos(21) if P.primitive == "inc" else 7 if P.primitive == "one" else v)
                   for P, v in sem.items()}
        decoy = DSLEvaluator(twisted, use_cache=True)
        decoy.skip_exceptions = {S.EXC_BY_ID[i] for i in (0, 1, 2, 3)}
        for o in ops:
            if o[0] == 0:
                try:
                    decoy.eval(O.prog(o[1]), [S.value_from_wire(v) for v in o[2]])
                except Exception:
                    pass
    ev = DSLEvaluator(semantics(), use_cache=bool(use_cache))
    ev.skip_exceptions = {S.EXC_BY_ID[i] for i in skip}
    out = []
    curry = set(case.get("curry", []))
    for k, o in enumerate(ops):
        if o[0] == 1:
            ev.clear_cache()
            out.append("clear")
        else:
            # fresh objects for every call: equality of programs and inputs, never identity
            p = curried(o[1]) if k in curry else O.prog(o[1])
            out.append(observe(ev, p, [S.value_from_wire(v) for v in o[2]]))
    return out
