"""C06: turning an automaton (or a deterministic grammar) into an unambiguous
grammar preserves the language and is unambiguous.

Generator side (must not import synth).  Kinds:
  rand/<shape>  {"data": [automaton, widths, programs]}   a random reduced acyclic DFTA over a typed alphabet
  sharp/<k>     {"data": {"depth", "constraints": [ids], "sketch": id|None, "widths", "cap", "seed"}}
                the implementation runner builds add_dfta_constraints(cfg, constraints, sketch) and serialises it
  cfg/<family>  {"data": [CFG params as in C01, programs]}
The model runs after the implementation (on the automaton the implementation built)."""
import json
import random

from lib import c06common as K
from lib import dsls as D
from lib import progs as P
from lib import semantics as S

ID = "C06"
IMPL_MODULE = "props.c06_impl"
MODEL_AFTER_IMPL = True
HASHSEEDS = {"quick": [0, 1], "thorough": [0, 1, 2, 3]}
CASE_TIMEOUT = 120
RULE = ("(a) [one case in three: the automaton object has a history - it was converted once while one rule pointed to another state and the rule was then re-targeted in place, rules[key] = state, before the observed conversions] random reduced acyclic deterministic bottom-up automata over a typed ranked alphabet (1-2 base types, 2-4 "
        "constants/variables, 1-3 function letters of arity 1-3, 3-9 states, depth 2-4, 1-4 final states), whose states are "
        "shaped like the real pipeline's: (type, int), (type, (int, int)), read_product pairs, left-nested pairs, minimise "
        "classes of 1-3 leaves, pairs of classes, classes of pairs, and the two/three-level nestings that repeated "
        "product+minimise produce; (b) real sharpened automata add_dfta_constraints(cfg, constraints, sketch) for the DSL "
        "{add, sub, one, zero, var0} at depth 3-4 with 1-3 constraint strings of tests/filtering/constraints/"
        "test_dfta_constraints.py; (c) depth-bounded CFGs of the C01 families for from_CFG.  Per case: every tree the "
        "automaton accepts (thinned to the cap), a stream of rejected trees over the same alphabet and ill-ranked mutants; "
        "for UCFG.from_DFTA (clean False/True) and from_DFTA_with_ngrams n=1..3 (clean False/True): membership, "
        "len(reduce_derivations(...)) summed over the start symbols, programs(), number of start symbols and of "
        "non-terminals; compared with the extracted model run on the very automaton the implementation built and with the "
        "automaton's own bottom-up run (DFTA.read).  Non-trivial = at least 3 states, some accepted and some rejected tree.")
ASSUMPTIONS = ["states are built from Type objects, ints and tuples; leaves are (Type, payload) pairs whose payload contains no Type",
               "every letter is used at one arity (typed alphabet); programs contain no empty application Function(P, [])",
               "non-terminal names are never compared; set/dict iteration orders only through several hash seeds",
               "clean(): termination is observed (time limit), not proved; recursive grammars are outside the property",
               "from_CFG: n_gram >= 2 and non-empty languages (C01's recorded findings are not re-reported here)"]

WIDTHS = [1, 2, 3]
CAP = {"quick": 400, "thorough": 800}

# ----------------------------------------------------------------------------
# random automata
# ----------------------------------------------------------------------------
TY = [S.INT, S.BOOL]


def leaf_state(t, a):
    return [1, [0, t], a]


def shape_state(shape, t, rng):
    """a random state of the given shape over type t: payload ints from a small range, so that
    distinct states of one automaton share most of their components (all states of one automaton
    have the same nesting depth)"""
    r = lambda n=3: rng.randrange(n)
    lf = lambda x: leaf_state(t, x)
    cls = lambda k: [1] + [lf(r(4)) for _ in range(k)]
    if shape == "flat":
        return lf(r(12))
    if shape == "payload":
        return [1, [0, t], [1, r(), r()]]
    if shape == "pair":
        return [1, lf(r()), lf(r())]
    if shape == "pair3":
        return [1, [1, lf(r()), lf(r())], lf(r())]
    if shape == "cls":
        return cls(rng.choice([1, 2, 2, 3]))            # minimise classes of one, two or three leaves
    if shape == "pair_cls":
        return [1, cls(rng.choice([1, 1, 2])), cls(rng.choice([1, 1, 2]))]
    if shape == "cls_pairs":
        return [1] + [[1, lf(r()), lf(r())] for _ in range(rng.choice([1, 1, 2]))]
    if shape == "deep2":
        # class of pairs of classes: product of two minimised automata, minimised again
        return [1] + [[1, cls(rng.choice([1, 2])), cls(1)] for _ in range(rng.choice([1, 1, 1, 2]))]
    if shape == "deep3":
        # three rounds: (((clsA, clsB),), clsC) wrapped in a class
        return [1, [1, [1, [1, cls(1), cls(rng.choice([1, 2]))]], cls(1)]]
    raise ValueError(shape)


SHAPES = ["flat"] * 4 + ["payload", "pair", "pair", "pair3", "cls", "cls", "pair_cls", "pair_cls",
                         "cls_pairs", "deep2", "deep2", "deep3", "deep3"]


def gen_aut(rng):
    """abstract acyclic trim automaton: states (type index, id, rank)"""
    ntypes = rng.choice([1, 1, 2])
    types = TY[:ntypes]
    letters = []      # (sym wire, arg types, ret type)
    pid = 100
    for t in types:
        for _ in range(rng.randint(1, 2)):
            letters.append(([0, pid, t], [], t))
            pid += 1
    if rng.random() < 0.6:
        letters.append(([1, 0, types[0]], [], types[0]))
    for _ in range(rng.randint(1, 3)):
        ar = rng.choice([1, 2, 2, 2, 3])
        args = [rng.choice(types) for _ in range(ar)]
        ret = rng.choice(types)
        letters.append(([0, pid, S.ARROW(*args, ret)], args, ret))
        pid += 1
    states = []       # (type, rank)
    rules = {}

    def new_state(t, rank):
        states.append((t, rank))
        return len(states) - 1

    # leaves: each nullary letter goes to a fresh state or shares one of its type
    for l, args, ret in letters:
        if args:
            continue
        same = [i for i, (t, r) in enumerate(states) if t == ret and r == 0]
        q = rng.choice(same) if same and rng.random() < 0.35 else new_state(ret, 0)
        rules[(json.dumps(l), ())] = (l, [], q)
    depth = rng.randint(2, 4)
    funs = [x for x in letters if x[1]]
    for rank in range(1, depth):
        budget = rng.randint(2, 6)
        for _ in range(budget * 3):
            if budget <= 0 or len(states) >= 10:
                break
            l, args, ret = rng.choice(funs)
            cand = [[i for i, (t, r) in enumerate(states) if t == a and r < rank] for a in args]
            if any(not c for c in cand):
                continue
            qs = [rng.choice(c) for c in cand]
            if max(states[q][1] for q in qs) != rank - 1 and rng.random() < 0.7:
                continue
            k = (json.dumps(l), tuple(qs))
            if k in rules:
                continue
            same = [i for i, (t, r) in enumerate(states) if t == ret and r == rank]
            q = rng.choice(same) if same and rng.random() < 0.5 else new_state(ret, rank)
            rules[k] = (l, qs, q)
            budget -= 1
    top = [i for i, (t, r) in enumerate(states)]
    nfin = rng.randint(1, 4)
    high = sorted(top, key=lambda i: -states[i][1])
    finals = sorted(set(rng.sample(high[:max(nfin + 1, 3)], min(nfin, len(high[:max(nfin + 1, 3)])))))
    # trim: keep rules whose destination can reach a final state
    prod = set(finals)
    ch = True
    while ch:
        ch = False
        for l, qs, q in rules.values():
            if q in prod:
                for a in qs:
                    if a not in prod:
                        prod.add(a)
                        ch = True
    rl = [(l, qs, q) for (l, qs, q) in rules.values() if q in prod]
    return states, rl, finals


def concretise(rng, states, rl, finals, shape):
    name, used = {}, set()
    for i in range(len(states)):
        for _ in range(200):
            w = shape_state(shape, states[i][0], rng)
            if json.dumps(w) not in used:
                break
        else:
            return None
        used.add(json.dumps(w))
        name[i] = w
    rules = [[l, [name[a] for a in qs], name[q]] for l, qs, q in rl]
    rng.shuffle(rules)
    fin = [name[q] for q in finals]
    rng.shuffle(fin)
    return [rules, fin]


def gen_rand(rng, tier, n):
    cases = []
    tries = 0
    while len(cases) < n and tries < 20 * n:
        tries += 1
        states, rl, finals = gen_aut(rng)
        if len(rl) < 3:
            continue
        shape = SHAPES[len(cases) % len(SHAPES)]
        aut = concretise(rng, states, rl, finals, shape)
        if aut is None:
            continue
        progs = K.candidate_programs(aut, CAP[tier], random.Random(rng.getrandbits(32)))
        c = {"kind": "rand/" + shape, "data": [aut, WIDTHS, progs]}
        if len(cases) % 3 == 2:
            # the automaton object has a history: converted once while rule i pointed to another state,
            # then re-targeted in place (see c06_impl.impl)
            dsts = [r[2] for r in aut[0]]
            c["inplace"] = [rng.randrange(len(aut[0])), rng.choice(dsts)]
        cases.append(c)
    return cases


# ----------------------------------------------------------------------------
# sharpened automata and CFGs
# ----------------------------------------------------------------------------
# (depth, constraint ids, sketch id) into props.c06_impl.SHARP_CONSTRAINTS
SHARP_QUICK = [
    (3, [], 0), (3, [0], None), (3, [1], None), (3, [3], None), (3, [5], None), (3, [7, 8], None),
    (3, [4], 0), (4, [6], None), (4, [7, 8], 0),
    (4, [8, 10, 11], None),        # three constraints: nested product/minimise states (recorded finding)
]
SHARP_MORE = [
    (4, [0], None), (4, [1], None), (4, [2], None), (4, [3], None), (4, [4], None), (4, [5], None), (4, [2], 0),
    (4, [5, 8, 11], None), (4, [6, 9, 10], None), (4, [5, 9, 10], 0), (3, [8, 9], 6), (3, [3, 7], None),
    (4, [3, 7], None), (4, [1, 8], None), (4, [9, 10, 11], None),
]


def gen_sharp(rng, tier):
    # the tree cap stays small here: with the recorded __d2state__ defect a three-constraint automaton becomes a
    # highly ambiguous grammar (thousands of derivations per program), which makes the implementation slow
    specs = SHARP_QUICK + (SHARP_MORE if tier == "thorough" else [])
    return [{"kind": "sharp/%d" % (len(cs) + (sk is not None)),
             "data": {"depth": d, "constraints": cs, "sketch": sk, "widths": WIDTHS, "cap": min(CAP[tier], 260),
                      "seed": rng.getrandbits(32)}} for d, cs, sk in specs]


def gen_cfg(rng, tier, n):
    cases = []
    while len(cases) < n:
        dsl = D.gen_dsl(rng)
        max_depth = rng.choice([2, 2, 3, 3, 4])
        min_var = rng.choice([0, 1, 1, 2])
        n_gram = rng.choice([2, 2, 3])
        _, ret = D.arrow_parts(dsl["request"])
        cands = D.terms(dsl, ret, max_depth + 1, rng, 120 if tier == "quick" else 200)
        cands += D.mutants(rng, cands, dsl, 20)
        seen, uniq = set(), []
        for c in cands:
            k = json.dumps(c)
            if k not in seen:
                seen.add(k)
                uniq.append(c)
        if not uniq:
            continue
        params = [dsl["prims"], dsl["forbidden"], dsl["request"], max_depth, min_var, n_gram, dsl["const_types"]]
        cases.append({"kind": "cfg/" + dsl["family"], "data": [params, uniq]})
    return cases


def gen(rng, tier):
    n_rand, n_cfg = (60, 18) if tier == "quick" else (170, 50)
    sub = lambda: random.Random(rng.getrandbits(64))
    return gen_rand(sub(), tier, n_rand) + gen_cfg(sub(), tier, n_cfg) + gen_sharp(sub(), tier)


# ----------------------------------------------------------------------------
# model side
# ----------------------------------------------------------------------------
def usable(io):
    return isinstance(io, dict) and "conv" in io


def case_aut(case, io):
    if case["kind"].startswith("sharp"):
        return io["aut"], case["data"]["widths"], io["progs"]
    return case["data"]


def to_model(case, io):
    if not usable(io):
        return []
    if case["kind"].startswith("cfg/"):
        return [(2, case["data"])]
    aut, widths, progs = case_aut(case, io)
    return [(1, [aut, widths, progs])]


def model_obs(case, raws, io):
    if not raws:
        return None
    r = raws[0]
    if case["kind"].startswith("cfg/"):
        return {"cfg_in": r[0], "cfg_count": r[1], "conv": r[2:]}
    return {"accept": r[0], "conv": r[1], "pinned": r[2]}


def norm(conv):
    """[2, name] -> [2]"""
    return [[2] if (isinstance(o, list) and o and o[0] == 2) else o for o in conv]


def agree(case, io, mo):
    if isinstance(io, dict) and "skipped" in io:
        return True
    if not usable(io) or mo is None:
        return False
    if case["kind"].startswith("cfg/"):
        return io["cfg_in"] == mo["cfg_in"] and io["cfg_count"] == mo["cfg_count"] and norm(io["conv"]) == mo["conv"]
    return io["accept"] == mo["accept"] and norm(io["conv"]) == mo["conv"]


def nstates(aut):
    st = set()
    for l, args, d in aut[0]:
        st.add(K.key(d))
        for a in args:
            st.add(K.key(a))
    return len(st)


def nontrivial(case, mo):
    if mo is None:
        return False
    if case["kind"].startswith("cfg/"):
        return 0 < sum(mo["cfg_in"]) < len(mo["cfg_in"]) and mo["cfg_count"] >= 3
    return 0 < sum(mo["accept"]) < len(mo["accept"]) and len(mo["conv"]) >= 2 and mo["conv"][0][0] == 0 and mo["conv"][0][2] >= 3


def show_state(w):
    if isinstance(w, int):
        return str(w)
    if w[0] == 0:
        return S.TYPE_NAMES.get(w[1][1], "t") if w[1][0] == 0 else "T"
    return "(" + ", ".join(show_state(x) for x in w[1:]) + ("," if len(w) == 2 else "") + ")"


def show_sym(s):
    return S.prim_name(s[1]) if s[0] == 0 else ("var%d" % s[1] if s[0] == 1 else "<const>")


def describe(case, mo):
    k = case["kind"]
    if k.startswith("cfg/"):
        params, progs = case["data"]
        return {"kind": k, "dsl": {S.prim_name(n): t for n, t in params[0]}, "request": params[2], "max_depth": params[3],
                "programs": [P.show_prog(p) for p in progs[:6]],
                "cfg.programs()": None if mo is None else mo["cfg_count"],
                "from_CFG": None if mo is None else [o[:4] for o in mo["conv"]]}
    if k.startswith("sharp"):
        d = case["data"]
        return {"kind": k, "depth": d["depth"], "constraints": d["constraints"], "sketch": d["sketch"],
                "model": None if mo is None else [o[:4] for o in mo["conv"][:2]],
                "accepted": None if mo is None else sum(mo["accept"])}
    aut, widths, progs = case["data"]
    return {"kind": k,
            "rules": ["%s(%s) -> %s" % (show_sym(l), ", ".join(show_state(a) for a in args), show_state(d))
                      for l, args, d in aut[0][:8]],
            "finals": [show_state(q) for q in aut[1]],
            "programs": [P.show_prog(p) for p in progs[:6]],
            "model [status, starts, non-terminals, programs()]": None if mo is None else [o[:4] for o in mo["conv"][:2]],
            "accepted": None if mo is None else sum(mo["accept"])}


def shrink(case):
    for c in _shrink0(case):
        if case.get("inplace") is not None and c["kind"].startswith("rand"):
            c = dict(c, inplace=case["inplace"])
        yield c


def _shrink0(case):
    k = case["kind"]
    if k.startswith("sharp"):
        d = case["data"]
        for i in range(len(d["constraints"])):
            yield {"kind": k, "data": dict(d, constraints=d["constraints"][:i] + d["constraints"][i + 1:])}
        if d["sketch"] is not None:
            yield {"kind": k, "data": dict(d, sketch=None)}
        if d["depth"] > 3:
            yield {"kind": k, "data": dict(d, depth=d["depth"] - 1)}
        if d["cap"] > 40:
            yield {"kind": k, "data": dict(d, cap=d["cap"] // 2)}
        return
    if k.startswith("cfg/"):
        params, progs = case["data"]
        if len(progs) > 1:
            h = len(progs) // 2
            yield {"kind": k, "data": [params, progs[:h]]}
            yield {"kind": k, "data": [params, progs[h:]]}
        return
    aut, widths, progs = case["data"]
    if len(progs) > 1:
        h = len(progs) // 2
        yield {"kind": k, "data": [aut, widths, progs[:h]]}
        yield {"kind": k, "data": [aut, widths, progs[h:]]}
        if len(progs) <= 8:
            for i in range(len(progs)):
                yield {"kind": k, "data": [aut, widths, progs[:i] + progs[i + 1:]]}
    if len(widths) > 1:
        for w in widths:
            yield {"kind": k, "data": [aut, [w], progs]}
    rules, fin = aut
    if len(fin) > 1:
        for i in range(len(fin)):
            yield {"kind": k, "data": [[rules, fin[:i] + fin[i + 1:]], widths, progs]}
    if len(progs) <= 8:
        for i in range(len(rules)):
            yield {"kind": k, "data": [[rules[:i] + rules[i + 1:], fin], widths, progs]}


def classify(case, io, mo):
    """c06_d2state_merges_states: the implementation answers exactly like the model run with the
    flattening as it is in the code (Ucfg.d2state_pinned), and that differs from the repaired model."""
    if case["kind"].startswith("cfg/") or not usable(io) or mo is None:
        return None
    if io["accept"] == mo["accept"] and norm(io["conv"]) == mo["pinned"] and mo["pinned"] != mo["conv"]:
        return "c06_d2state_merges_states"
    return None


def theorem_for(case):
    if case["kind"].startswith("cfg/"):
        return "C06_from_cfg (membership of from_CFG = membership of the CFG, one derivation per member); C06_clean_partial"
    return ("C06_from_dfta_language / C06_unambiguous / C06_count / C06_ngrams (grammar read off the automaton: member iff "
            "accepted, exactly one derivation, programs() = number of accepted trees) and C06_clean_partial; the pinned "
            "flattening is refuted by C06_d2state_collision_refuted / C06_pinned_language_refuted")
