"""Check orchestration shared by all properties (DESIGN section 2.3):
build + audit of the Coq development, corpus, generation, implementation runs
under several hash seeds, model run through the extracted driver, comparison,
shrinking, known-finding classification, replay files, evidence."""
import hashlib
import importlib
import json
import os
import random
import re
import resource
import subprocess
import sys
import tempfile
import time

from lib import sexp

VERIF = os.path.dirname(os.path.dirname(os.path.dirname(os.path.abspath(__file__))))
COQ = os.path.join(VERIF, "coq")
HARNESS = os.path.join(VERIF, "harness")
PY = "/venv/bin/python"
REPO = os.environ.get("VERIF_REPO", "/repo")
GUARD = "PROGSYNTH_VERIF"

ALLOWED_AXIOMS = {
    # Coq standard library axioms the development may depend on (DESIGN section 3)
    "ClassicalDedekindReals.sig_forall_dec",
    "ClassicalDedekindReals.sig_not_dec",
    "FunctionalExtensionality.functional_extensionality_dep",
    "Classical_Prop.classic",
}

FORBIDDEN = re.compile(
    r"\b(Admitted|admit|Axiom|Axioms|Parameter|Parameters|Conjecture|Admit Obligations|"
    r"Unset Guard Checking|Unset Positivity Checking|Unset Universe Checking|bypass_check|"
    r"type-in-type|impredicative-set)\b"
)


def log(*a):
    print(*a, file=sys.stderr, flush=True)


# ----------------------------------------------------------------------------
# build and audit
# ----------------------------------------------------------------------------
def sh(cmd, timeout, cwd=None):
    p = subprocess.run(cmd, shell=True, cwd=cwd, stdout=subprocess.PIPE, stderr=subprocess.STDOUT,
                       timeout=timeout, text=True)
    return p.returncode, p.stdout


def strip_comments(text):
    out = []
    depth = 0
    i = 0
    n = len(text)
    while i < n:
        if text.startswith("(*", i):
            depth += 1
            i += 2
        elif text.startswith("*)", i) and depth > 0:
            depth -= 1
            i += 2
        else:
            if depth == 0:
                out.append(text[i])
            i += 1
    return "".join(out)


def audit_sources():
    """No Admitted/admit/Axiom/... anywhere in the development (comments ignored)."""
    bad = []
    for root, _, files in os.walk(COQ):
        for f in files:
            if f.endswith(".v"):
                path = os.path.join(root, f)
                txt = strip_comments(open(path).read())
                for m in FORBIDDEN.finditer(txt):
                    line = txt.count("\n", 0, m.start()) + 1
                    bad.append("%s:%d: %s" % (path, line, m.group(0)))
    return bad


def build(pid):
    """Builds the development, the extracted driver of property pid and
    re-checks Props/<pid>.v.  Returns (ok, info dict)."""
    info = {"theorems": [], "assumptions": {}, "errors": []}
    t0 = time.time()
    rc, out = sh("make -s driver ID=%s" % pid, timeout=3000, cwd=VERIF)
    if rc != 0:
        info["errors"].append("build failed:\n" + out[-3000:])
        return False, info
    bad = audit_sources()
    if bad:
        info["errors"].append("forbidden vernacular: " + "; ".join(bad[:10]))
        return False, info
    props = os.path.join(COQ, "theories", "Props", pid + ".v")
    src = strip_comments(open(props).read())
    thms = re.findall(r"^\s*Theorem\s+(\w+)", src, flags=re.M)
    printed = re.findall(r"^\s*Print Assumptions\s+(\w+)\s*\.", src, flags=re.M)
    info["theorems"] = thms
    missing = [t for t in thms if t not in printed]
    if missing:
        info["errors"].append("no Print Assumptions for: " + ", ".join(missing))
        return False, info
    rc, out = sh("timeout 600 coqc -R theories PS theories/Props/%s.v" % pid, timeout=700, cwd=COQ)
    if rc != 0:
        info["errors"].append("Props/%s.v does not check:\n%s" % (pid, out[-3000:]))
        return False, info
    # split the output into one block per Print Assumptions
    blocks = re.split(r"(?m)^(?=Closed under the global context|Axioms:)", out)
    blocks = [b for b in blocks if b.startswith("Closed") or b.startswith("Axioms:")]
    if len(blocks) != len(printed):
        info["errors"].append("expected %d assumption reports, got %d" % (len(printed), len(blocks)))
        return False, info
    ok = True
    for name, b in zip(printed, blocks):
        if b.startswith("Closed"):
            info["assumptions"][name] = []
        else:
            ax = re.findall(r"(?m)^([A-Za-z_][\w.']*)\s*:", b[len("Axioms:"):])
            info["assumptions"][name] = ax
            extra = [a for a in ax if a not in ALLOWED_AXIOMS]
            if extra:
                ok = False
                info["errors"].append("theorem %s depends on non-allowed axioms %s" % (name, extra))
    info["build_s"] = round(time.time() - t0, 1)
    return ok, info


# ----------------------------------------------------------------------------
# model and implementation runs
# ----------------------------------------------------------------------------
def _unlimit_stack():
    try:
        resource.setrlimit(resource.RLIMIT_STACK, (resource.RLIM_INFINITY, resource.RLIM_INFINITY))
    except Exception:
        try:
            soft, hard = resource.getrlimit(resource.RLIMIT_STACK)
            resource.setrlimit(resource.RLIMIT_STACK, (hard, hard))
        except Exception:
            pass


def run_model(pid, calls, timeout=1200):
    """calls: list of (entry, wire).  Returns the list of decoded answers (nested
    int lists).  [-1] = malformed case, [-2] = stack overflow in the model."""
    if not calls:
        return []
    driver = os.path.join(VERIF, "build", pid, "driver")
    text = "\n".join(sexp.dumps([e, c]) for e, c in calls) + "\n"
    nshards = min(16 if len(calls) > 2000 else 8, max(1, len(calls) // 20))
    lines = text.splitlines()
    shards = [lines[i::nshards] for i in range(nshards)]
    # a loaded machine must not turn into an alarm: the limit grows with the shard
    timeout = max(timeout, 600 + 6 * max(len(sh_) for sh_ in shards))
    procs = []
    for sh_ in shards:
        p = subprocess.Popen([driver], stdin=subprocess.PIPE, stdout=subprocess.PIPE, text=True,
                             preexec_fn=_unlimit_stack)
        procs.append(p)
    outs = []
    import threading
    res = [None] * nshards

    def feed(i):
        try:
            o, _ = procs[i].communicate("\n".join(shards[i]) + "\n", timeout=timeout)
            res[i] = o.splitlines()
        except subprocess.TimeoutExpired:
            procs[i].kill()
            res[i] = None

    ths = [threading.Thread(target=feed, args=(i,)) for i in range(nshards)]
    for t in ths:
        t.start()
    for t in ths:
        t.join()
    answers = [None] * len(lines)
    for i in range(nshards):
        if res[i] is None or len(res[i]) != len(shards[i]):
            raise RuntimeError("model driver failed or timed out on shard %d (%s answers for %d cases)"
                               % (i, None if res[i] is None else len(res[i]), len(shards[i])))
        for k, l in enumerate(res[i]):
            answers[i + k * nshards] = sexp.loads(l)
    return answers


def run_impl(module, cases, hashseed, case_timeout, workers=8):
    """Runs module.impl(case) for every case in fresh subprocesses of /venv's
    python with PYTHONPATH=/repo.  Returns a list of observables; a case that
    hangs gives {"hang": True}, one that crashes the runner {"crash": text}."""
    n = len(cases)
    results = [None] * n
    if n == 0:
        return results
    workers = max(1, min(workers, n))
    chunks = [list(range(i, n, workers)) for i in range(workers)]
    import threading

    def work(idx_list):
        pending = list(idx_list)
        while pending:
            with tempfile.NamedTemporaryFile("w", suffix=".json", delete=False, dir=_scratch()) as f:
                json.dump([cases[i] for i in pending], f)
                path = f.name
            env = dict(os.environ)
            env["PYTHONPATH"] = REPO + os.pathsep + HARNESS
            env["PYTHONHASHSEED"] = str(hashseed)
            env[GUARD] = "1"
            env["PYTHONDONTWRITEBYTECODE"] = "1"
            p = subprocess.Popen([PY, "-m", "lib.implrun", module, path, str(case_timeout)],
                                 stdout=subprocess.PIPE, stderr=subprocess.DEVNULL, text=True, env=env,
                                 cwd=HARNESS)
            done = 0
            killed = False
            import select
            last = time.time()
            started = False
            while True:
                # the child gets a generous start-up allowance (cold imports), then 2x case_timeout per case
                allowance = (case_timeout * 2 + 20) if started else (case_timeout * 2 + 180)
                r, _, _ = select.select([p.stdout], [], [], 1.0)
                if r:
                    line = p.stdout.readline()
                    if not line:
                        break
                    line = line.strip()
                    if line == "READY":
                        started = True
                        last = time.time()
                        continue
                    if not line.startswith("R "):
                        continue
                    results[pending[done]] = json.loads(line[2:])
                    done += 1
                    last = time.time()
                elif time.time() - last > allowance:
                    p.kill()
                    killed = True
                    break
            p.wait()
            try:
                os.unlink(path)
            except OSError:
                pass
            if done < len(pending):
                # the case being run when the child died or was killed
                results[pending[done]] = {"hang": True} if killed else {"crash": "runner died (exit %s)" % p.returncode}
                done += 1
            pending = pending[done:]

    ths = [threading.Thread(target=work, args=(c,)) for c in chunks]
    for t in ths:
        t.start()
    for t in ths:
        t.join()
    return results


def _scratch():
    d = os.path.join(VERIF, "build", "scratch")
    os.makedirs(d, exist_ok=True)
    return d


# ----------------------------------------------------------------------------
# known findings
# ----------------------------------------------------------------------------
def load_findings(pid):
    path = os.path.join(VERIF, "known_findings.json")
    if not os.path.exists(path):
        return {}
    data = json.load(open(path))
    return {f["classifier"]: f for f in data.get("findings", []) if f["property"] == pid and f.get("status") == "known"}


# ----------------------------------------------------------------------------
# main check
# ----------------------------------------------------------------------------
def digest(obj):
    return hashlib.sha1(json.dumps(obj, sort_keys=True).encode()).hexdigest()[:12]


def write_replay(pid, payload):
    d = os.path.join(VERIF, "replays", pid)
    os.makedirs(d, exist_ok=True)
    path = os.path.join(d, digest(payload) + ".json")
    with open(path, "w") as f:
        json.dump(payload, f, indent=1, sort_keys=True)
    return path


def evaluate(prop, cases, hashseeds, case_timeout):
    """Runs model and implementation on the cases; returns list of
    (case, hashseed, impl_obs, model_obs) for the disagreements plus counts.
    With MODEL_AFTER_IMPL the implementation runs first and the model (a
    verified checker) is applied to what it produced."""
    after = getattr(prop, "MODEL_AFTER_IMPL", False)
    bad = []
    impl_by_seed = {}
    if not after:
        calls = [prop.to_model(c) for c in cases]
        raw = run_model(prop.ID, calls)
        model_obs = []
        for c, r in zip(cases, raw):
            if r == [-1] or r == [-2]:
                raise RuntimeError("model rejected case (harness bug): %r -> %r" % (json.dumps(c)[:400], r))
            model_obs.append(prop.model_obs(c, r))
        for hs in hashseeds:
            impl_obs = run_impl(prop.IMPL_MODULE, cases, hs, case_timeout)
            impl_by_seed[hs] = impl_obs
            for c, io, mo in zip(cases, impl_obs, model_obs):
                if not prop.agree(c, io, mo):
                    bad.append((c, hs, io, mo))
        return bad, model_obs, impl_by_seed
    model_obs = [None] * len(cases)
    for hs in hashseeds:
        impl_obs = run_impl(prop.IMPL_MODULE, cases, hs, case_timeout)
        impl_by_seed[hs] = impl_obs
        calls, owner = [], []
        for k, (c, io) in enumerate(zip(cases, impl_obs)):
            for call in prop.to_model(c, io):
                calls.append(call)
                owner.append(k)
        raw = run_model(prop.ID, calls)
        per_case = {}
        for k, r in zip(owner, raw):
            if r == [-1] or r == [-2]:
                raise RuntimeError("model rejected case (harness bug): %r -> %r" % (json.dumps(cases[k])[:400], r))
            per_case.setdefault(k, []).append(r)
        for k, (c, io) in enumerate(zip(cases, impl_obs)):
            mo = prop.model_obs(c, per_case.get(k, []), io)
            model_obs[k] = mo
            if not prop.agree(c, io, mo):
                bad.append((c, hs, prop.slim(io) if hasattr(prop, "slim") else io, mo))
    return bad, model_obs, impl_by_seed


def shrink(prop, case, hs, case_timeout, rounds=12, budget_s=240):
    """Greedy batch shrinking: keeps the first smaller case that still disagrees."""
    t0 = time.time()
    cur = case
    for _ in range(rounds):
        if time.time() - t0 > budget_s:
            break
        cands = list(prop.shrink(cur))[:60]
        if not cands:
            break
        try:
            bad, _, _ = evaluate(prop, cands, [hs], case_timeout)
        except RuntimeError:
            break
        # never slide from an unexplained disagreement into a recorded one
        known = load_findings(prop.ID)
        bad = [b for b in bad if prop.classify(b[0], b[2], b[3]) not in known]
        if not bad:
            break
        # smallest failing candidate
        bad.sort(key=lambda b: len(json.dumps(b[0])))
        cur = bad[0][0]
    return cur


def main(argv):
    import argparse
    ap = argparse.ArgumentParser()
    ap.add_argument("pid")
    ap.add_argument("--tier", default=os.environ.get("VERIF_TIER", "quick"))
    ap.add_argument("--replay", default=None)
    ap.add_argument("--no-build", action="store_true")
    args = ap.parse_args(argv)
    pid = args.pid
    tier = args.tier if args.tier in ("quick", "thorough") else "quick"
    seed = int(os.environ.get("VERIF_SEED", "0") or 0)
    t0 = time.time()
    prop = importlib.import_module("props." + pid.lower())
    violations = []       # (replay path, suffix)
    known_hit = {}

    # 1. build and audit
    if args.no_build:
        ok, binfo = True, {"theorems": [], "assumptions": {}, "errors": []}
    else:
        ok, binfo = build(pid)
    if not ok:
        path = write_replay(pid, {"property": pid, "kind": "proof-obligation", "errors": binfo["errors"],
                                  "what": "the Coq development (model, theorems or extraction) no longer checks"})
        violations.append((path, " no-failing-input-found"))
        for e in binfo["errors"]:
            log(e)

    findings = load_findings(pid)
    hashseeds = prop.HASHSEEDS[tier]
    case_timeout = getattr(prop, "CASE_TIMEOUT", 30)
    stats = {"evaluations": 0, "distinct": set(), "kinds": {}, "samples": []}
    corr_ok = True

    cases = []
    if args.replay:
        payload = json.load(open(args.replay))
        if "case" in payload:
            cases = [payload["case"]]
            if "hashseed" in payload:
                hashseeds = [payload["hashseed"]]
    else:
        # 2. corpus first
        cdir = os.path.join(VERIF, "corpus", pid)
        if os.path.isdir(cdir):
            for f in sorted(os.listdir(cdir)):
                if f.endswith(".json"):
                    payload = json.load(open(os.path.join(cdir, f)))
                    cases.append(payload["case"] if "case" in payload else payload)
        # 3. generated cases
        rng = random.Random(seed * 1000003 + 17)
        cases += prop.gen(rng, tier)

    if os.path.isfile(os.path.join(VERIF, "build", pid, "driver")) and cases:
        try:
            bad, model_obs, impl_by_seed = evaluate(prop, cases, hashseeds, case_timeout)
        except Exception as e:  # the correspondence itself could not be evaluated
            corr_ok = False
            path = write_replay(pid, {"property": pid, "kind": "correspondence-not-evaluable", "error": repr(e)[:2000]})
            violations.append((path, " no-failing-input-found"))
            bad, model_obs, impl_by_seed = [], [], {}
        for c, mo in zip(cases, model_obs):
            stats["evaluations"] += 1
            k = c.get("kind", "case")
            stats["kinds"][k] = stats["kinds"].get(k, 0) + 1
            if prop.nontrivial(c, mo):
                stats["distinct"].add(digest(c))
        stats["samples"] = [prop.describe(c, mo) for c, mo in list(zip(cases, model_obs))[:3]]
        if hasattr(prop, "extra_coverage"):
            stats["extra"] = prop.extra_coverage(cases, model_obs)
        # if everything crashed the API has moved: not evaluable
        if cases and impl_by_seed and all(isinstance(o, dict) and ("crash" in o or "hang" in o)
                                          for obs in impl_by_seed.values() for o in obs):
            path = write_replay(pid, {"property": pid, "kind": "correspondence-not-evaluable",
                                      "error": "the implementation runner failed on every case",
                                      "first": impl_by_seed[hashseeds[0]][0]})
            violations.append((path, " no-failing-input-found"))
            bad = []
        seen_min = set()
        unexplained = 0
        shrink_budget = 240 if tier == "quick" else 900
        shrink_t0 = [0]
        for (c, hs, io, mo) in bad:
            cl0 = prop.classify(c, io, mo)
            if cl0 is not None and cl0 in findings:
                # explained by a recorded defect: no need to minimise it again
                known_hit.setdefault(cl0, prop.describe(c, mo))
                continue
            unexplained += 1
            if unexplained > 25:
                continue
            # minimisation shares one time budget per run: a broken tree must still be reported quickly
            left = shrink_budget - (time.time() - shrink_t0[0]) if shrink_t0[0] else shrink_budget
            if args.replay or left < 10 or (hasattr(prop, "should_shrink") and not prop.should_shrink(c, io, mo)):
                small = c
            else:
                if not shrink_t0[0]:
                    shrink_t0[0] = time.time()
                small = shrink(prop, c, hs, case_timeout, budget_s=min(left, 120))
            if small is not c:
                b2, mo2, ib2 = evaluate(prop, [small], [hs], case_timeout)
                if b2:
                    _, _, io, mo = b2[0]
                else:
                    small = c
            d = digest(small)
            if d in seen_min:
                continue
            seen_min.add(d)
            cl = prop.classify(small, io, mo)
            if cl is not None and cl in findings:
                known_hit.setdefault(cl, prop.describe(small, mo))
                continue
            path = write_replay(pid, {"property": pid, "kind": "counterexample", "case": small, "hashseed": hs,
                                      "implementation": io, "model": mo, "theorem": prop.theorem_for(small),
                                      "describe": prop.describe(small, mo),
                                      "replay_cmd": "./check %s --replay <this file>" % pid})
            violations.append((path, ""))
        if unexplained > 25:
            log("(%d further disagreements not minimised)" % (unexplained - 25))
    elif not args.replay and not violations:
        path = write_replay(pid, {"property": pid, "kind": "correspondence-not-evaluable", "error": "no driver or no cases"})
        violations.append((path, " no-failing-input-found"))

    # 4. evidence
    wall = round(time.time() - t0, 2)
    nthm = len(binfo["theorems"])
    discharged = len([t for t in binfo["theorems"] if t in binfo["assumptions"]
                      and all(a in ALLOWED_AXIOMS for a in binfo["assumptions"][t])]) if ok else 0
    axioms = sorted({a for l in binfo["assumptions"].values() for a in l})
    ev = {
        "property_id": pid, "tier": tier, "seed": seed, "level": "proof",
        "coverage": {
            "obligations": max(nthm, 1), "discharged": discharged if nthm else 0,
            "checker_cmd": "make -C /verif driver ID=%s && cd /verif/coq && coqc -R theories PS theories/Props/%s.v" % (pid, pid),
            "trusted_base": ["Coq 8.16.1 kernel (coqc; vm_compute in Examples)",
                             "axioms reported by Print Assumptions: " + (", ".join(axioms) if axioms else "none (closed under the global context)"),
                             "extraction (ExtrOcamlBasic only) + OCaml 4.13.1 + ocaml/driver.ml",
                             "hand-written Gallina model tied to /repo by this run's correspondence check",
                             "Python harness (generators, runners, comparison), CPython 3.12"],
            "theorems": binfo["theorems"],
            "evaluations": stats["evaluations"] * max(1, len(hashseeds)),
            "distinct_nontrivial": len(stats["distinct"]),
            "rule": getattr(prop, "RULE", ""),
            "samples": stats["samples"] or ["(no case run)"],
            "input_distribution": stats["kinds"],
            "hashseeds": hashseeds,
            "disagreements": len(violations),
            "known_findings_hit": sorted(known_hit),
            **stats.get("extra", {}),
        },
        "assumptions": getattr(prop, "ASSUMPTIONS", []),
        "wall_s": wall,
        "violations": len(violations),
    }
    if not args.replay:
        os.makedirs(os.path.join(VERIF, "evidence"), exist_ok=True)
        # runs against a scratch copy of the repository (VERIF_REPO) never touch the committed evidence
        suffix = ".json" if ("VERIF_REPO" not in os.environ and not args.no_build) else ".scratch.json"
        with open(os.path.join(VERIF, "evidence", pid + suffix), "w") as f:
            json.dump(ev, f, indent=1)
    for cl, d in sorted(known_hit.items()):
        print("KNOWN-FINDING: property=%s %s: %s" % (pid, cl, findings[cl]["description"]))
    for path, suffix in violations:
        print("VIOLATION property=%s replay=%s%s" % (pid, path, suffix))
    print("%s %s: %d theorems checked, %d cases x %d hash seeds, %d violations, %d known findings, %.1fs"
          % (pid, tier, nthm, stats["evaluations"], len(hashseeds), len(violations), len(known_hit), wall))
    return 1 if violations else 0
