"""Random abstract DSLs (wire form) and an independent brute-force enumerator
of applicative terms, used to build candidate programs for the grammar
properties.  Primitive ids >= 100 are printed "p<id>"; base types are ids
0 (int), 1 (bool), 10, 11 ("t10", "t11")."""
from lib import semantics as S

BASES = [S.INT, S.BOOL, [0, 10], [0, 11]]


def arrow_parts(t):
    args = []
    while t[0] == 1:
        args.append(t[1])
        t = t[2]
    return args, t


def ends_with(t, target):
    """Mirror of Type.ends_with: arguments consumed so that the rest equals target."""
    acc = []
    while True:
        if t == target:
            return acc
        if t[0] == 1:
            acc.append(t[1])
            t = t[2]
        else:
            return None


def gen_dsl(rng, family=None):
    """Returns dict(prims=[[id, type]], forbidden=[[[id, idx], [ids]]], request, const_types)."""
    family = family or rng.choice(["F1", "F2", "F2", "F3", "F4", "F5", "F6", "F6"])
    nb = {"F1": 1}.get(family, rng.randint(2, 3))
    bases = rng.sample(BASES, nb)
    prims = []
    pid = 100

    def add(t):
        nonlocal pid
        prims.append([pid, t])
        pid += 1

    def rand_arg(ho):
        r = rng.random()
        if ho and r < 0.3:
            return S.ARROW(rng.choice(bases), rng.choice(bases))
        if family == "F6" and r < 0.4:
            return S.LIST(rng.choice(bases))
        return rng.choice(bases)

    ho = family in ("F3", "F4", "F6")
    # make sure every base has a constant (except in F5 where one base is uninhabited)
    inhabited = bases[:] if family != "F5" else bases[:-1]
    for b in inhabited:
        for _ in range(rng.randint(1, 2)):
            add(b)
    for _ in range(rng.randint(2, 5)):
        ar = rng.choice([1, 1, 2, 2, 3])
        args = [rand_arg(ho) for _ in range(ar)]
        ret = rng.choice(bases) if rng.random() < 0.85 else rng.choice(inhabited)
        add(S.ARROW(*args, ret))
    if ho:
        # primitives usable as values of arrow type
        for _ in range(rng.randint(1, 2)):
            add(S.ARROW(rng.choice(bases), rng.choice(bases)))
    if family == "F5":
        # a primitive whose later argument has no inhabitant
        add(S.ARROW(inhabited[0], bases[-1], inhabited[0]))
    rng.shuffle(prims)
    # request
    nargs = rng.randint(0, 3)
    rargs = []
    for _ in range(nargs):
        if family in ("F4", "F6") and rng.random() < 0.35:
            rargs.append(S.ARROW(rng.choice(bases), rng.choice(bases)))
        else:
            rargs.append(rng.choice(bases))
    request = S.ARROW(*rargs, rng.choice(inhabited))
    # forbidden patterns
    forbidden = []
    funs = [p for p in prims if p[1][0] == 1]
    if funs and rng.random() < 0.7:
        used = set()
        for _ in range(rng.randint(1, 3)):
            f = rng.choice(funs)
            i = rng.randrange(len(arrow_parts(f[1])[0]))
            if (f[0], i) in used:
                continue
            used.add((f[0], i))
            k = rng.randint(1, 3)
            forbidden.append([[f[0], i], sorted(set(rng.choice(prims)[0] for _ in range(k)))])
    const_types = [b for b in bases if rng.random() < 0.3]
    return {"family": family, "prims": prims, "forbidden": forbidden, "request": request, "const_types": const_types}


def terms(dsl, target, depth, rng, cap, relaxed=True, allow_const=True):
    """Independent enumeration (randomly thinned to about cap) of applicative
    terms of type target with nesting at most depth.  relaxed: ignores
    forbidden patterns and the minimum variable depth."""
    rargs, _ = arrow_parts(dsl["request"])
    memo = {}

    def go(t, d):
        key = (repr(t), d)
        if key in memo:
            return memo[key]
        out = []
        if d >= 1:
            for i, a in enumerate(rargs):
                if a == t:
                    out.append([0, [1, i, a]])
            if allow_const and t in dsl["const_types"]:
                out.append([0, [2, t]])
            for n, pt in dsl["prims"]:
                if pt == t:
                    out.append([0, [0, n, pt]])
        if d >= 2:
            heads = [[0, n, pt] for n, pt in dsl["prims"]] + [[1, i, a] for i, a in enumerate(rargs)]
            for h in heads:
                ht = h[2]
                args = ends_with(ht, t)
                if not args:
                    continue
                subs = [go(a, d - 1) for a in args]
                if any(not s for s in subs):
                    continue
                combos = [[]]
                for s in subs:
                    nxt = []
                    for c in combos:
                        for x in (s if len(s) <= 6 else rng.sample(s, 6)):
                            nxt.append(c + [x])
                    combos = nxt if len(nxt) <= 60 else rng.sample(nxt, 60)
                for c in combos:
                    out.append([1, h] + c)
        if len(out) > cap:
            out = rng.sample(out, cap)
        memo[key] = out
        return out

    return go(target, depth)


def mutants(rng, progs, dsl, k):
    """Near-miss candidates: partial/over-applications, bare heads, swapped heads."""
    out = []
    rargs, _ = arrow_parts(dsl["request"])
    heads = [[0, n, pt] for n, pt in dsl["prims"]] + [[1, i, a] for i, a in enumerate(rargs)]
    apps = [p for p in progs if p[0] == 1]
    for _ in range(k):
        if not apps:
            break
        p = rng.choice(apps)
        r = rng.random()
        if r < 0.25 and len(p) > 3:
            out.append(p[:-1])                       # drop last argument
        elif r < 0.25:
            out.append([0, p[1]])                    # bare head
        elif r < 0.5:
            out.append(p + [rng.choice(p[2:])])      # one argument too many
        elif r < 0.75:
            out.append([1, rng.choice(heads)] + p[2:])   # other head, same arguments
        else:
            q = list(p)
            i = rng.randrange(2, len(q))
            q[i] = [0, rng.choice(heads)]            # replace an argument by a random leaf
            out.append(q)
    return out
