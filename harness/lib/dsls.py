"""Random abstract DSLs (wire form) and an independent brute-force enumerator
of applicative terms, used to build candidate programs for the grammar
properties.  Primitive ids >= 100 are printed "p<id>"; base types are ids
0 (int), 1 (bool), 10, 11 ("t10", "t11")."""
from lib import semantics as S

BASES = [S.INT, S.BOOL, [0, 10], [0, 11]]


def arrow_parts(t):
    args = []
    while t[0] == 1:
        args.append(t[1])
        t = t[2]
    return args, t


def ends_with(t, target):
    """Mirror of Type.ends_with: arguments consumed so that the rest equals target."""
    acc = []
    while True:
        if t == target:
            return acc
        if t[0] == 1:
            acc.append(t[1])
            t = t[2]
        else:
            return None


def gen_dsl(rng, family=None):
    """Returns dict(prims=[[id, type]], forbidden=[[[id, idx], [ids]]], request, const_types)."""
    family = family or rng.choice(["F1", "F2", "F2", "F3", "F4", "F5", "F6", "F6"])
    nb = {"F1": 1}.get(family, rng.randint(2, 3))
    bases = rng.sample(BASES, nb)
    prims = []
    pid = 100

    def add(t):
        nonlocal pid
        prims.append([pid, t])
        pid += 1

    def rand_arg(ho):
        r = rng.random()
        if ho and r < 0.3:
            return S.ARROW(rng.choice(bases), rng.choice(bases))
        if family == "F6" and r < 0.4:
            return S.LIST(rng.choice(bases))
        return rng.choice(bases)

    ho = family in ("F3", "F4", "F6")
    # make sure every base has a constant (except in F5 where one base is uninhabited)
    inhabited = bases[:] if family != "F5" else bases[:-1]
    for b in inhabited:
        for _ in range(rng.randint(1, 2)):
            add(b)
    for _ in range(rng.randint(2, 5)):
        ar = rng.choice([1, 1, 2, 2, 3])
        args = [rand_arg(ho) for _ in range(ar)]
        ret = rng.choice(bases) if rng.random() < 0.85 else rng.choice(inhabited)
        add(S.ARROW(*args, ret))
    if ho:
        # primitives usable as values of arrow type
        for _ in range(rng.randint(1, 2)):
            add(S.ARROW(rng.choice(bases), rng.choice(bases)))
    if family == "F5":
        # a primitive whose later argument has no inhabitant
        add(S.ARROW(inhabited[0], bases[-1], inhabited[0]))
    rng.shuffle(prims)
    # request
    nargs = rng.randint(0, 3)
    rargs = []
    for _ in range(nargs):
        if family in ("F4", "F6") and rng.random() < 0.35:
            rargs.append(S.ARROW(rng.choice(bases), rng.choice(bases)))
        else:
            rargs.append(rng.choice(bases))
    request = S.ARROW(*rargs, rng.choice(inhabited))
    # forbidden patterns
    forbidden = []
    funs = [p for p in prims if p[1][0] == 1]
    if funs and rng.random() < 0.7:
        used = set()
        for _ in range(rng.randint(1, 3)):
            f = rng.choice(funs)
            i = rng.randrange(len(arrow_parts(f[1])[0]))
            if (f[0], i) in used:
                continue
            used.add((f[0], i))
            k = rng.randint(1, 3)
            forbidden.append([[f[0], i], sorted(set(rng.choice(prims)[0] for _ in range(k)))])
    const_types = [b for b in bases if rng.random() < 0.3]
    return {"family": family, "prims": prims, "forbidden": forbidden, "request": request, "const_types": const_types}


def terms(dsl, target, depth, rng, cap, relaxed=True, allow_const=True):
    """Independent enumeration (randomly thinned to about cap) of applicative
    terms of type target with nesting at most depth.  relaxed: ignores
    forbidden patterns and the minimum variable depth."""
    rargs, _ = arrow_parts(dsl["request"])
    memo = {}

    def go(t, d):
        key = (repr(t), d)
        if key in memo:
            return memo[key]
        out = []
        if d >= 1:
            for i, a in enumerate(rargs):
                if a == t:
                    out.append([0, [1, i, a]])
            if allow_const and t in dsl["const_types"]:
                out.append([0, [2, t]])
            for n, pt in dsl["prims"]:
                if pt == t:
                    out.append([0, [0, n, pt]])
        if d >= 2:
            heads = [[0, n, pt] for n, pt in dsl["prims"]] + [[1, i, a] for i, a in enumerate(rargs)]
            for h in heads:
                ht = h[2]
                args = ends_with(ht, t)
                if not args:
                    continue
                subs = [go(a, d - 1) for a in args]
                if any(not s for s in subs):
                    continue
                combos = [[]]
                for s in subs:
                    nxt = []
                    for c in combos:
                        for x in (s if len(s) <= 6 else rng.sample(s, 6)):
                            nxt.append(c + [x])
                    combos = nxt if len(nxt) <= 60 else rng.sample(nxt, 60)
                for c in combos:
                    out.append([1, h] + c)
        if len(out) > cap:
            out = rng.sample(out, cap)
        memo[key] = out
        return out

    return go(target, depth)


def mutants(rng, progs, dsl, k):
    """Near-miss candidates: partial/over-applications, bare heads, swapped heads."""
    out = []
    rargs, _ = arrow_parts(dsl["request"])
    heads = [[0, n, pt] for n, pt in dsl["prims"]] + [[1, i, a] for i, a in enumerate(rargs)]
    apps = [p for p in progs if p[0] == 1]
    for _ in range(k):
        if not apps:
            break
        p = rng.choice(apps)
        r = rng.random()
        if r < 0.25 and len(p) > 3:
            out.append(p[:-1])                       # drop last argument
        elif r < 0.25:
            out.append([0, p[1]])                    # bare head
        elif r < 0.5:
            out.append(p + [rng.choice(p[2:])])      # one argument too many
        elif r < 0.75:
            out.append([1, rng.choice(heads)] + p[2:])   # other head, same arguments
        else:
            q = list(p)
            i = rng.randrange(2, len(q))
            q[i] = [0, rng.choice(heads)]            # replace an argument by a random leaf
            out.append(q)
    return out


# ----------------------------------------------------------------------------
# additions for the size / occurrence bounded grammars (C13)
# ----------------------------------------------------------------------------
def heads_of(dsl):
    rargs, _ = arrow_parts(dsl["request"])
    return [[0, n, pt] for n, pt in dsl["prims"]] + [[1, i, a] for i, a in enumerate(rargs)]


def term_size(w):
    if w[0] == 0:
        return 1
    return 1 + sum(term_size(a) for a in w[2:])


def count_sized(dsl, target, size):
    """Number of applicative terms (variables may be applied) of type target
    with at most size nodes, forbidden patterns ignored."""
    heads = heads_of(dsl)
    memo = {}

    def exact(t, n):
        key = (repr(t), n)
        if key in memo:
            return memo[key]
        memo[key] = 0
        tot = 0
        for h in heads:
            args = ends_with(h[2], t)
            if args is None:
                continue
            if not args:
                tot += 1 if n == 1 else 0
            elif n - 1 >= len(args):
                tot += seq(tuple(repr(a) for a in args), args, n - 1)
        memo[key] = tot
        return tot

    smemo = {}

    def seq(key, args, n):
        k = (key, n)
        if k in smemo:
            return smemo[k]
        if len(args) == 1:
            r = exact(args[0], n)
        else:
            r = 0
            for m in range(1, n - len(args) + 2):
                c = exact(args[0], m)
                if c:
                    r += c * seq(key[1:], args[1:], n - m)
        smemo[k] = r
        return r

    return sum(exact(target, n) for n in range(1, size + 1))


def terms_sized(dsl, target, size, rng, cap):
    """Independent enumeration (randomly thinned) of the applicative terms of
    type target with at most size nodes; forbidden patterns are ignored."""
    heads = heads_of(dsl)
    memo = {}

    def exact(t, n):
        key = (repr(t), n)
        if key in memo:
            return memo[key]
        memo[key] = []
        out = []
        for h in heads:
            args = ends_with(h[2], t)
            if args is None:
                continue
            if not args:
                if n == 1:
                    out.append([0, h])
            elif n - 1 >= len(args):
                for c in seqs(args, n - 1):
                    out.append([1, h] + c)
        if len(out) > cap:
            out = rng.sample(out, cap)
        memo[key] = out
        return out

    def seqs(args, n):
        if len(args) == 1:
            return [[x] for x in exact(args[0], n)]
        out = []
        for m in range(1, n - len(args) + 2):
            first = exact(args[0], m)
            if not first:
                continue
            rest = seqs(args[1:], n - m)
            if not rest:
                continue
            if len(first) * len(rest) > 4 * cap:
                first = rng.sample(first, min(len(first), 12))
                rest = rng.sample(rest, min(len(rest), max(1, 4 * cap // len(first))))
            for x in first:
                for r in rest:
                    out.append([x] + r)
        if len(out) > 4 * cap:
            out = rng.sample(out, 4 * cap)
        return out

    out = []
    for n in range(1, size + 1):
        out += exact(target, n)
    return out


def type_cycle(dsl, skip_prim):
    """A primitive id lying on a cycle of the "type t needs an argument of type a"
    graph reachable from the request's return type when primitive skip_prim is
    not used (variables included as heads), or None when that graph is acyclic:
    then the terms with a bounded number of skip_prim are finitely many and
    TTCFG.clean terminates."""
    heads = [h for h in heads_of(dsl) if not (h[0] == 0 and h[1] == skip_prim)]
    _, ret = arrow_parts(dsl["request"])
    state = {}

    def visit(t):
        k = repr(t)
        if state.get(k) == 1:
            return True
        if state.get(k) == 2:
            return None
        state[k] = 1
        for h in heads:
            args = ends_with(h[2], t)
            if not args:
                continue
            for a in args:
                r = visit(a)
                if r is not None:
                    return h if r is True else r
        state[k] = 2
        return None

    # the skipped primitive's arguments are reachable as well
    todo = [ret]
    for n, pt in dsl["prims"]:
        if n == skip_prim:
            todo += arrow_parts(pt)[0]
    for rargs in arrow_parts(dsl["request"])[0]:
        todo += arrow_parts(rargs)[0]
    for t in todo:
        r = visit(t)
        if r is not None:
            return r
    return None


def terms_occ(dsl, target, prim, k, rng, cap, limit=4000):
    """All applicative terms of type target with at most k occurrences of
    primitive prim (requires type_cycle(dsl, prim) is None), thinned to cap per
    (type, budget); returns None when more than limit terms would be built."""
    heads = heads_of(dsl)
    memo = {}
    built = [0]

    class TooBig(Exception):
        pass

    def go(t, budget, depth):
        key = (repr(t), budget)
        if key in memo:
            return memo[key]
        if depth > 40:
            raise TooBig()
        out = []
        for h in heads:
            args = ends_with(h[2], t)
            if args is None:
                continue
            isp = h[0] == 0 and h[1] == prim
            if isp and budget == 0:
                continue
            b = budget - (1 if isp else 0)
            if not args:
                out.append((([0, h]), 1 if isp else 0))
                continue
            combos = [([], 0)]
            for a in args:
                nxt = []
                for c, used in combos:
                    for (x, u) in go(a, b - used, depth + 1):
                        if used + u <= b:
                            nxt.append((c + [x], used + u))
                combos = nxt
                built[0] += len(combos)
                if built[0] > limit * 20:
                    raise TooBig()
                if len(combos) > 4 * cap:
                    combos = rng.sample(combos, 4 * cap)
            for c, used in combos:
                out.append(([1, h] + c, used + (1 if isp else 0)))
        if len(out) > limit:
            raise TooBig()
        if len(out) > cap:
            out = rng.sample(out, cap)
        memo[key] = out
        return out

    try:
        return [x for x, _ in go(target, k, 0)]
    except TooBig:
        return None


def count_occ(dsl, target, prim, k, limit=20000):
    """Exact number of terms of type target with at most k occurrences of prim
    (None when above limit); requires type_cycle(dsl, prim) is None."""
    heads = heads_of(dsl)
    memo = {}

    def exact(t, j, depth):
        """number of terms of type t with exactly j occurrences"""
        key = (repr(t), j)
        if key in memo:
            return memo[key]
        if depth > 60:
            raise OverflowError()
        tot = 0
        for h in heads:
            args = ends_with(h[2], t)
            if args is None:
                continue
            isp = 1 if (h[0] == 0 and h[1] == prim) else 0
            if j < isp:
                continue
            if not args:
                tot += 1 if j == isp else 0
                continue
            # distribute j - isp occurrences over the arguments
            dist = {0: 1}
            for a in args:
                nd = {}
                for used, c in dist.items():
                    for u in range(0, j - isp - used + 1):
                        e = exact(a, u, depth + 1)
                        if e:
                            nd[used + u] = nd.get(used + u, 0) + c * e
                dist = nd
            tot += dist.get(j - isp, 0)
        if tot > limit:
            raise OverflowError()
        memo[key] = tot
        return tot

    try:
        return sum(exact(target, j, 0) for j in range(k + 1))
    except OverflowError:
        return None
