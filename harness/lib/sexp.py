"""S-expressions of hexadecimal integers: the wire format between the harness
and the extracted Coq models.  A case is a nested Python list of ints."""


def dumps(x):
    out = []

    def go(v):
        if isinstance(v, bool):
            out.append("1" if v else "0")
        elif isinstance(v, int):
            out.append(format(v, "x"))
        else:
            out.append("(")
            first = True
            for y in v:
                if not first:
                    out.append(" ")
                first = False
                go(y)
            out.append(")")

    go(x)
    return "".join(out)


def loads(s):
    pos = 0
    n = len(s)
    stack = [[]]
    while pos < n:
        c = s[pos]
        if c == "(":
            stack.append([])
            pos += 1
        elif c == ")":
            top = stack.pop()
            stack[-1].append(top)
            pos += 1
        elif c in " \t\r\n":
            pos += 1
        else:
            st = pos
            while pos < n and s[pos] not in " ()\t\r\n":
                pos += 1
            stack[-1].append(int(s[st:pos], 16))
    assert len(stack) == 1 and len(stack[0]) == 1, "malformed sexp: %r" % s[:200]
    return stack[0][0]
