"""Serialisation of ProgSynth grammar objects (rule tables, weights, states)
into the wire format of coq/theories/Gram/Det.v.  Implementation side only
(needs synth)."""
from fractions import Fraction

from synth.syntax.grammars.grammar import NGram
from synth.syntax.program import Constant, Primitive, Variable
from synth.syntax.type_system import Type
from lib import objs as O


def enc_state(x):
    """Injective encoding of the opaque state components as nested int lists."""
    if x is None:
        return [0]
    if isinstance(x, bool):
        return [7, 1 if x else 0]
    if isinstance(x, int):
        return [1, x]
    if isinstance(x, str):
        return [2] + [ord(c) for c in x]
    if isinstance(x, NGram):
        return [4, x.n] + [[O.sym_wire(p), i] for (p, i) in x.predecessors]
    if isinstance(x, (tuple, list)):
        return [3] + [enc_state(y) for y in x]
    if isinstance(x, (Primitive, Variable, Constant)):
        return [5, O.sym_wire(x)]
    if isinstance(x, Type):
        return [6, O.ty_wire(x)]
    raise TypeError("cannot encode state %r" % (x,))


def enc_nt(S):
    # S = (type, (S-state, T-state))
    return [O.ty_wire(S[0]), enc_state(S[1][0]), enc_state(S[1][1])]


def enc_det_table(g):
    """rules of a TTCFG/CFG: {nt: {P: (args, state)}}"""
    out = []
    for S in g.rules:
        rs = []
        for P in g.rules[S]:
            args, st = g.rules[S][P]
            rs.append([O.sym_wire(P), [[[O.ty_wire(a[0]), enc_state(a[1])] for a in args], enc_state(st)]])
        out.append([enc_nt(S), rs])
    return out


def q_of_float(x):
    f = Fraction(x)
    return [f.numerator, f.denominator]


def enc_weights(tags, conv=q_of_float):
    out = []
    for S in tags:
        out.append([enc_nt(S), [[O.sym_wire(P), conv(tags[S][P])] for P in tags[S]]])
    return out
