"""Random well-typed programs and inputs over the fixed semantic DSL
(lib/semantics.py), all in wire form."""
from lib import semantics as S


def arrow_parts(t):
    args = []
    while t[0] == 1:
        args.append(t[1])
        t = t[2]
    return args, t


def candidates(target, prim_ids, var_types, allow_partial=True):
    """[(head sym wire, [argument types])] whose application has type target."""
    out = []
    for i, vt in enumerate(var_types):
        args, r = arrow_parts(vt)
        for j in range(len(args) + 1):
            if S.ARROW(*args[j:], r) == target and (j == 0 or allow_partial or j == len(args)):
                out.append(([1, i, vt], args[:j]))
    for n in prim_ids:
        pt = S.PRIMS[n][2]
        args, r = arrow_parts(pt)
        for j in range(len(args) + 1):
            if S.ARROW(*args[j:], r) == target:
                if j == len(args) or j == 0 or allow_partial:
                    out.append(([0, n, pt], args[:j]))
    return out


def gen_prog(rng, target, depth, prim_ids, var_types, const_p=0.1):
    """Random program of type target and depth <= depth, or None."""
    if target == S.INT and rng.random() < const_p:
        return [0, [3, S.INT, [0, rng.randint(-2, 9)]]]
    cands = candidates(target, prim_ids, var_types)
    leaves = [c for c in cands if not c[1]]
    if depth <= 1:
        cands = leaves
    elif leaves and rng.random() < 0.25:
        cands = leaves
    if not cands:
        return None
    for _ in range(6):
        head, args = rng.choice(cands)
        if not args:
            return [0, head]
        subs = [gen_prog(rng, a, depth - 1, prim_ids, var_types, const_p) for a in args]
        if all(s is not None for s in subs):
            return [1, head] + subs
    return None


def gen_value(rng, t):
    if t == S.INT:
        return [0, rng.choice([-3, -1, 0, 0, 1, 2, 3, 5])]
    if t == S.BOOL:
        return [1, rng.randint(0, 1)]
    if t == S.OPTINT:
        return [3] if rng.random() < 0.4 else [0, rng.randint(-2, 4)]
    if t[0] == 2:
        return [2] + [gen_value(rng, t[2]) for _ in range(rng.choice([0, 0, 1, 2, 3]))]
    if t[0] == 1:
        # a function-typed input: a primitive closure of that type
        opts = [n for n in S.PRIMS if S.PRIMS[n][2] == t]
        return [5, rng.choice(opts)]
    raise ValueError(t)


def show_prog(w):
    def sym(s):
        if s[0] == 0:
            return S.prim_name(s[1])
        if s[0] == 1:
            return "var%d" % s[1]
        if s[0] == 3:
            return repr(S.value_from_wire(s[2]))
        return "<const>"
    if w[0] == 0:
        return sym(w[1])
    return "(" + " ".join([sym(w[1])] + [show_prog(a) for a in w[2:]]) + ")"


def prog_depth(w):
    if w[0] == 0:
        return 1
    return 1 + max([1] + [prog_depth(a) for a in w[2:]])


def subprogs(w):
    yield w
    if w[0] == 1:
        for a in w[2:]:
            yield from subprogs(a)
