"""Case generator shared by the enumerator properties C02/C03/C12."""
from lib import dsls as D

DET_ENUMS = ["hs", "hs_bucket", "bs", "bps", "cd"]
U_ENUMS = ["hs_u", "hs_bucket_u"]
ALL_ENUMS = DET_ENUMS + U_ENUMS
# constraint strings for sharpened multi-start grammars: "(head pattern...)" over the generated primitives



def gen_grammar(rng, small=False):
    """A grammar recipe whose language is expected to be small (the exact size
    is only known after the implementation built it)."""
    fam = rng.choice(["F1", "F2", "F2", "F3"])
    dsl = D.gen_dsl(rng, fam)
    kind = "cfg" if (small or rng.random() < 0.8) else "size"
    g = {"kind": kind, "prims": dsl["prims"], "forbidden": dsl["forbidden"], "request": dsl["request"],
         "n_gram": rng.choice([1, 2, 2, 3]), "const_types": []}
    if kind == "cfg":
        g["max_depth"] = rng.choice([2, 2, 3]) if small else rng.choice([2, 3, 3, 4])
        g["min_var"] = rng.choice([0, 1, 1])
    else:
        # the size builder is only right on first-order DSLs (property C13): keep those
        g["prims"] = [p for p in dsl["prims"] if all(a[0] != 1 for a in D.arrow_parts(p[1])[0])]
        g["forbidden"] = []
        g["max_size"] = rng.choice([3, 4, 5])
    return g


def fuel_of(g):
    return (g["max_size"] if g["kind"] == "size" else g["max_depth"]) + 2


def gen_u_grammar(rng):
    g = gen_grammar(rng, small=True)
    g["kind"] = "ucfg"
    g.setdefault("max_depth", 3)
    g.setdefault("min_var", 1)
    g.pop("max_size", None)
    g["forbidden"] = []
    funs = [p for p in g["prims"] if p[1][0] == 1]
    leaves = [p for p in g["prims"] if p[1][0] != 1]
    if funs and leaves and rng.random() < 0.5:
        # sharpen: forbid one leaf as first argument of one function (gives several start states)
        f = rng.choice(funs)
        nargs = len(D.arrow_parts(f[1])[0])
        allowed = [p for p in leaves if p[0] != rng.choice(leaves)[0]]
        pat = "^" + ",".join("p%d" % p[0] for p in leaves if p not in allowed) if len(allowed) < len(leaves) else "_"
        g["kind"] = "udfta"
        g["constraints"] = ["(p%d %s)" % (f[0], " ".join([pat] + ["_"] * (nargs - 1)))]
        g["u_ngram"] = rng.choice([0, 0, 2])
        g["min_var"] = 0
    return g


def gen_case(rng, enum=None, small=False):
    enum = enum or rng.choice(DET_ENUMS)
    if enum in U_ENUMS:
        g = gen_u_grammar(rng)
        w = {"kind": rng.choice(["uniform", "random", "random", "skewed", "ties"]), "seed": rng.randrange(10 ** 6)}
        params = {"bucket_size": rng.choice([2, 3, 5])} if enum == "hs_bucket_u" else {}
        return {"kind": enum + "/" + g["kind"] + "/" + w["kind"], "grammar": g, "weights": w, "enum": enum,
                "params": params, "limit": 4000, "max_lang": 600}
    g = gen_grammar(rng, small=small or enum == "bs")
    if enum in ("bs", "bps", "cd"):
        g["kind"] = "cfg"
        g.setdefault("max_depth", 2)
        g.setdefault("min_var", 1)
    w = {"kind": rng.choice(["uniform", "random", "random", "skewed", "ties"]), "seed": rng.randrange(10 ** 6)}
    if g["kind"] == "cfg":
        g["rule_order"] = rng.choice(["asis", "asis", "reversed", "shuffled"])
        if enum != "bs" and rng.random() < (0.45 if enum == "cd" else 0.12):
            # the cost spread sits on the deepest non-terminals only, rule table not stored parents-first
            w["kind"] = "deep_spread"
            g["rule_order"] = rng.choice(["reversed", "shuffled"])
            g["max_depth"] = max(3, g["max_depth"])
    params = {}
    if enum == "hs_bucket":
        params["bucket_size"] = rng.choice([2, 3, 5, 8])
    if enum == "bs":
        params["threshold"] = rng.choice([1, 2])
    if enum == "cd":
        params["k"], params["precision"] = rng.choice([(10, 1e-5), (2, 1e-2), (40, 1e-3), (5, 1e-4)])
    return {"kind": enum + "/" + g["kind"] + "/" + w["kind"], "grammar": g, "weights": w, "enum": enum,
            "params": params, "limit": 4000}


def gen_deep_case(rng, enum):
    """A depth-4 grammar over one base type, small enough to be enumerated in full,
    stored deepest non-terminals first (or shuffled), uniform except for a
    1 : 10^3 : 10^6 spread on the deepest non-terminals: a bound computed on the
    deepest level has to travel through three levels to reach the start symbol."""
    t = [0, 10]
    while True:
        nl, nu, nb, nv = rng.choice([1, 2, 2, 3]), rng.choice([0, 1, 1, 2]), rng.choice([0, 1, 1]), rng.choice([0, 0, 1])
        if nu + nb == 0 or nl + nv < 2:
            continue
        f = nl + nv
        for _ in range(3):
            f = nl + nv + nu * f + nb * f * f
        if 20 <= f <= 1400:
            break
    prims = [[100 + i, t] for i in range(nl)] + [[103 + i, [1, t, t]] for i in range(nu)] + [[105 + i, [1, t, [1, t, t]]] for i in range(nb)]
    rng.shuffle(prims)
    g = {"kind": "cfg", "prims": prims, "forbidden": [], "request": [1, t, t] if nv else t, "n_gram": 2, "const_types": [],
         "max_depth": 4, "min_var": 0, "rule_order": rng.choice(["reversed", "reversed", "shuffled"])}
    w = {"kind": "deep_spread", "seed": rng.randrange(10 ** 6)}
    params = {}
    if enum == "hs_bucket":
        params["bucket_size"] = rng.choice([2, 3, 5, 8])
    if enum == "cd":
        params["k"], params["precision"] = rng.choice([(10, 1e-5), (4, 1e-5), (40, 1e-3), (5, 1e-4)])
    return {"kind": enum + "/cfg-depth4/deep_spread", "grammar": g, "weights": w, "enum": enum, "params": params, "limit": 4000}


def gen_arity3_case(rng, enum):
    """A context-dependent (n_gram 2) grammar with a primitive of arity 3 whose 2nd and 3rd
    argument positions are different non-terminals with different weights."""
    I, B = [0, 10], [0, 11]
    prims = [[100, I], [101, I], [102, B], [105, [1, B, [1, I, [1, I, I]]]]]
    if rng.random() < 0.5:
        prims.append([103, [1, I, I]])
    if rng.random() < 0.4:
        prims.append([106, [1, I, [1, I, [1, I, B]]]])
    rng.shuffle(prims)
    g = {"kind": "cfg", "prims": prims, "forbidden": [], "request": rng.choice([I, [1, I, I], [1, B, I]]), "n_gram": 2,
         "const_types": [], "max_depth": rng.choice([2, 3, 3]), "min_var": 0, "rule_order": "asis"}
    w = {"kind": rng.choice(["random", "random", "skewed"]), "seed": rng.randrange(10 ** 6)}
    params = {}
    if enum == "hs_bucket":
        params["bucket_size"] = rng.choice([2, 3, 5, 8])
    if enum == "cd":
        params["k"], params["precision"] = rng.choice([(10, 1e-5), (40, 1e-3), (5, 1e-4)])
    return {"kind": enum + "/cfg-arity3/" + w["kind"], "grammar": g, "weights": w, "enum": enum, "params": params, "limit": 4000}


def gen_inf_case(rng, enum):
    """A recursive grammar (CFG.depth_constraint with a negative bound): only a prefix of the output is taken."""
    dsl = D.gen_dsl(rng, rng.choice(["F1", "F2", "F2", "F2"]))
    # conversions between the base types make cycles through several non-terminals likely
    bases = sorted({repr(D.arrow_parts(p[1])[1]) for p in dsl["prims"]})
    g = {"kind": "inf", "prims": dsl["prims"], "forbidden": dsl["forbidden"], "request": dsl["request"],
         "n_gram": rng.choice([1, 1, 2]), "const_types": [], "max_depth": 12}
    w = {"kind": rng.choice(["random", "skewed", "skewed", "ties", "uniform"]), "seed": rng.randrange(10 ** 6)}
    params = {}
    if enum == "hs_bucket":
        params["bucket_size"] = rng.choice([2, 3, 5])
    if enum == "cd":
        params["k"], params["precision"] = rng.choice([(10, 1e-5), (5, 1e-4)])
    return {"kind": enum + "/inf/" + w["kind"], "grammar": g, "weights": w, "enum": enum, "params": params,
            "limit": rng.choice([60, 150, 300])}


def gen_inf_cycle_case(rng, enum):
    """Recursive 1-gram grammar whose base types form a cycle of unary conversions, one type
    having only a very improbable leaf: the cheapest program of that type goes round the
    cycle, which the cost re-evaluation of the enumerators must discover."""
    k = rng.choice([3, 3, 4])
    bases = [[0, 0], [0, 1], [0, 10], [0, 11]][:k]
    prims, pid = [], 100
    rare = []
    for i, b in enumerate(bases):
        r = rng.random()
        if i > 0 and r < 0.4:
            continue                      # no leaf at all: only reachable round the cycle
        prims.append([pid, b])
        if i > 0 and r < 0.8:
            rare.append("p%d" % pid)
        pid += 1
    for i in range(k):
        prims.append([pid, [1, bases[i], bases[(i + 1) % k]]])
        pid += 1
    prims.append([pid, [1, bases[0], [1, bases[0], bases[0]]]])
    rng.shuffle(prims)
    order = list(range(k))
    request = [1, bases[rng.randrange(k)], bases[0]]
    g = {"kind": "inf", "prims": prims, "forbidden": [], "request": request, "n_gram": 1, "const_types": [], "max_depth": 12}
    w = {"kind": "rare_leaf", "seed": rng.randrange(10 ** 6), "rare": rare}
    params = {"k": 10, "precision": 1e-5} if enum == "cd" else {}
    return {"kind": enum + "/inf-cycle/rare_leaf", "grammar": g, "weights": w, "enum": enum, "params": params,
            "limit": rng.choice([40, 80])}
