"""Python mirror of coq/theories/Sem/Semantics.v (the fixed DSL semantics of
the correspondence checks).  Keep the two files in step: same ids, arities,
results and exception classes."""

# wire types
INT = [0, 0]
BOOL = [0, 1]
OPTINT = [0, 3]


def LIST(t):
    return [2, 2, t]


def ARROW(*ts):
    ts = list(ts)
    r = ts.pop()
    while ts:
        r = [1, ts.pop(), r]
    return r


TYPE_NAMES = {0: "int", 1: "bool", 2: "list", 3: "optint", 4: "unit", 5: "string"}

EXC_IDS = {ZeroDivisionError: 0, IndexError: 1, ValueError: 2, TypeError: 3}
EXC_BY_ID = {v: k for k, v in EXC_IDS.items()}


def _checked(a):
    if a < 0:
        raise ValueError("negative")
    return a


def _head(l):
    return l[0]


def _sum(l):
    s = 0
    for x in l:
        s = x + s
    return s


def _concat(l):
    r = []
    for x in l:
        if not isinstance(x, list):
            raise TypeError("concat")
        r = r + x
    return r


# id: (name, arity, type, function)
PRIMS = {
    0: ("add", 2, ARROW(INT, INT, INT), lambda a, b: a + b),
    1: ("sub", 2, ARROW(INT, INT, INT), lambda a, b: a - b),
    2: ("mul", 2, ARROW(INT, INT, INT), lambda a, b: a * b),
    3: ("div", 2, ARROW(INT, INT, INT), lambda a, b: a // b),
    4: ("neg", 1, ARROW(INT, INT), lambda a: -a),
    5: ("zero", 0, INT, 0),
    6: ("one", 0, INT, 1),
    7: ("two", 0, INT, 2),
    8: ("lt", 2, ARROW(INT, INT, BOOL), lambda a, b: a < b),
    9: ("eq", 2, ARROW(INT, INT, BOOL), lambda a, b: a == b),
    10: ("not", 1, ARROW(BOOL, BOOL), lambda a: not a),
    11: ("and", 2, ARROW(BOOL, BOOL, BOOL), lambda a, b: a and b),
    12: ("ite", 3, ARROW(BOOL, INT, INT, INT), lambda c, x, y: x if c else y),
    13: ("nil", 0, LIST(INT), []),
    14: ("cons", 2, ARROW(INT, LIST(INT), LIST(INT)), lambda x, l: [x] + l),
    15: ("head", 1, ARROW(LIST(INT), INT), _head),
    16: ("tail", 1, ARROW(LIST(INT), LIST(INT)), lambda l: l[1:]),
    17: ("len", 1, ARROW(LIST(INT), INT), lambda l: len(l)),
    18: ("sum", 1, ARROW(LIST(INT), INT), _sum),
    19: ("map", 2, ARROW(ARROW(INT, INT), LIST(INT), LIST(INT)), lambda f, l: [f(x) for x in l]),
    20: ("inc", 1, ARROW(INT, INT), lambda a: a + 1),
    21: ("dbl", 1, ARROW(INT, INT), lambda a: 2 * a),
    22: ("safe_head", 1, ARROW(LIST(INT), OPTINT), lambda l: l[0] if l else None),
    23: ("isnone", 1, ARROW(OPTINT, BOOL), lambda x: x is None),
    24: ("default", 2, ARROW(OPTINT, INT, INT), lambda o, d: d if o is None else o),
    25: ("wrap", 1, ARROW(LIST(INT), LIST(LIST(INT))), lambda x: [x]),
    26: ("concat", 1, ARROW(LIST(LIST(INT)), LIST(INT)), _concat),
    27: ("checked", 1, ARROW(INT, INT), _checked),
    28: ("range", 1, ARROW(INT, LIST(INT)), lambda a: list(range(min(max(a, 0), 5)))),
    29: ("apply2", 3, ARROW(ARROW(INT, INT, INT), INT, INT, INT), lambda g, a, b: g(a)(b)),
    30: ("compose", 3, ARROW(ARROW(INT, INT), ARROW(INT, INT), INT, INT), lambda g, h, x: g(h(x))),
    31: ("true", 0, BOOL, True),
    32: ("false", 0, BOOL, False),
}


def prim_name(n):
    return PRIMS[n][0] if n in PRIMS else "p%d" % n


class Clos:
    """Primitive n applied to args, waiting for more (VClos in the model)."""

    __slots__ = ("n", "args")

    def __init__(self, n, args=()):
        self.n = n
        self.args = tuple(args)

    def __call__(self, v):
        args = self.args + (v,)
        if len(args) < PRIMS[self.n][1]:
            return Clos(self.n, args)
        return PRIMS[self.n][3](*args)

    def __eq__(self, o):
        return isinstance(o, Clos) and o.n == self.n and o.args == self.args

    def __hash__(self):
        return hash((self.n, len(self.args)))

    def __repr__(self):
        return "Clos(%s,%r)" % (PRIMS[self.n][0], self.args)


def prim_value(n):
    name, ar, ty, f = PRIMS[n]
    if ar == 0:
        return list(f) if isinstance(f, list) else f
    return Clos(n)


# values <-> wire
def value_to_wire(v):
    if v is None:
        return [3]
    if isinstance(v, bool):
        return [1, 1 if v else 0]
    if isinstance(v, int):
        return [0, v]
    if isinstance(v, (list, tuple)):
        return [2] + [value_to_wire(x) for x in v]
    if isinstance(v, Clos):
        return [5, v.n] + [value_to_wire(x) for x in v.args]
    raise TypeError("unencodable value %r" % (v,))


def value_from_wire(w):
    t = w[0]
    if t == 0:
        return w[1]
    if t == 1:
        return bool(w[1])
    if t == 2:
        return [value_from_wire(x) for x in w[1:]]
    if t == 3:
        return None
    if t == 5:
        return Clos(w[1], [value_from_wire(x) for x in w[2:]])
    raise ValueError(w)
