"""Wire (nested int lists, DESIGN appendix C) <-> ProgSynth objects.  Imported
only by the implementation runners (needs PYTHONPATH=/repo)."""
from synth.syntax.type_system import (
    Arrow, FixedPolymorphicType, Generic, PolymorphicType, PrimitiveType, Sum, UnknownType, Type,
)
from synth.syntax.program import Constant, Function, Primitive, Program, Variable
from lib import semantics as S


def type_name(n):
    return S.TYPE_NAMES.get(n, "t%d" % n)


_TYPE_IDS = {v: k for k, v in S.TYPE_NAMES.items()}


def type_id(name):
    if name in _TYPE_IDS:
        return _TYPE_IDS[name]
    assert name[0] == "t", name
    return int(name[1:])


def ty(w):
    t = w[0]
    if t == 0:
        return PrimitiveType(type_name(w[1]))
    if t == 1:
        return Arrow(ty(w[1]), ty(w[2]))
    if t == 2:
        return Generic(type_name(w[1]), *[ty(x) for x in w[2:]])
    if t == 3:
        return PolymorphicType("'v%d" % w[1])
    if t == 4:
        return FixedPolymorphicType("'v%d" % w[1], *[ty(x) for x in w[2:]])
    if t == 5:
        return Sum(*[ty(x) for x in w[1:]])
    if t == 6:
        return UnknownType()
    raise ValueError(w)


def ty_wire(t):
    if isinstance(t, PrimitiveType):
        return [0, type_id(t.type_name)]
    if isinstance(t, Arrow):
        return [1, ty_wire(t.type_in), ty_wire(t.type_out)]
    if isinstance(t, Generic):
        return [2, type_id(t.name)] + [ty_wire(x) for x in t.types]
    if isinstance(t, FixedPolymorphicType):
        return [4, int(t.name[2:])] + [ty_wire(x) for x in t.types]
    if isinstance(t, PolymorphicType):
        return [3, int(t.name[2:])]
    if isinstance(t, Sum):
        return [5] + [ty_wire(x) for x in t.types]
    if isinstance(t, UnknownType):
        return [6]
    raise ValueError(t)


_PRIM_IDS = {v[0]: k for k, v in S.PRIMS.items()}


def prim_id(name):
    if name in _PRIM_IDS:
        return _PRIM_IDS[name]
    assert name[0] == "p", name
    return int(name[1:])


def sym(w):
    t = w[0]
    if t == 0:
        return Primitive(S.prim_name(w[1]), ty(w[2]))
    if t == 1:
        return Variable(w[1], ty(w[2]))
    if t == 2:
        return Constant(ty(w[1]))
    if t == 3:
        return Constant(ty(w[1]), S.value_from_wire(w[2]), True)
    raise ValueError(w)


def prog(w):
    if w[0] == 0:
        return sym(w[1])
    return Function(sym(w[1]), [prog(x) for x in w[2:]])


def sym_wire(p):
    if isinstance(p, Primitive):
        return [0, prim_id(p.primitive), ty_wire(p.type)]
    if isinstance(p, Variable):
        return [1, p.variable, ty_wire(p.type)]
    if isinstance(p, Constant):
        if p.has_value():
            return [3, ty_wire(p.type), S.value_to_wire(p.value)]
        return [2, ty_wire(p.type)]
    raise ValueError(p)


def prog_wire(p):
    if isinstance(p, Function):
        return [1, sym_wire(p.function)] + [prog_wire(a) for a in p.arguments]
    return [0, sym_wire(p)]


def semantics_dict(prim_ids):
    """Semantics dictionary {Primitive: value} for the given primitive ids."""
    return {Primitive(S.PRIMS[n][0], ty(S.PRIMS[n][2])): S.prim_value(n) for n in prim_ids}
