"""Runs <module>.impl(case) for every case of a JSON file, one result per line
("R <json>").  Each case runs under signal.alarm; an exception escaping impl()
is a result ({"crash": ...}), not a harness failure."""
import importlib
import json
import signal
import sys
import traceback


class CaseTimeout(BaseException):
    pass


def _alarm(signum, frame):
    raise CaseTimeout()


def main():
    module, path, limit = sys.argv[1], sys.argv[2], int(sys.argv[3])
    cases = json.load(open(path))
    mod = importlib.import_module(module)
    signal.signal(signal.SIGALRM, _alarm)
    print("READY", flush=True)
    for c in cases:
        try:
            signal.alarm(limit)
            try:
                r = mod.impl(c)
            finally:
                signal.alarm(0)
        except CaseTimeout:
            r = {"hang": True}
        except RecursionError as e:
            r = {"crash": "RecursionError"}
        except BaseException as e:
            r = {"crash": "%s: %s" % (type(e).__name__, str(e)[:300]), "tb": traceback.format_exc()[-1500:]}
        print("R " + json.dumps(r), flush=True)


if __name__ == "__main__":
    sys.setrecursionlimit(3000)
    main()
