"""Helpers shared by the generator side and the implementation runner of C06
(no synth import): tree enumeration over a serialised automaton.

automaton wire = [rules, finals], rules = [[letter sym wire, [argument states], destination state], ...]
state wire     = int | [0, type wire] | [1, item, ...]      (Type object / tuple)
program wire   = [0, sym] | [1, sym, arg, ...]               (harness/lib/objs.py)"""
import json


def key(x):
    return json.dumps(x, sort_keys=True)


def alphabet(aut):
    """[(letter wire, arity)] in first-occurrence order (a letter used at two arities appears twice)"""
    seen = {}
    for l, args, _ in aut[0]:
        seen.setdefault((key(l), len(args)), (l, len(args)))
    return list(seen.values())


def run(aut_index, p):
    """bottom-up run of a program wire; aut_index = {(letter key, (state keys...)): state}"""
    if p[0] == 0:
        return aut_index.get((key(p[1]), ()))
    qs = []
    for a in p[2:]:
        q = run(aut_index, a)
        if q is None:
            return None
        qs.append(key(q))
    return aut_index.get((key(p[1]), tuple(qs)))


def index(aut):
    return {(key(l), tuple(key(a) for a in args)): d for l, args, d in aut[0]}


def prog_of(l, args):
    return [0, l] if not args else [1, l] + list(args)


def depth(p):
    if p[0] == 0:
        return 1
    return 1 + max(depth(a) for a in p[2:])


def accepted_by_state(aut, cap, rng):
    """{state key: [programs whose run is that state]} by a fix-point over the rules (acyclic
    automata: terminates after depth rounds); every list is thinned to cap."""
    lang = {}
    changed = True
    rounds = 0
    while changed and rounds < 12:
        changed = False
        rounds += 1
        new = {}
        for l, args, d in aut[0]:
            subs = [lang.get(key(a), []) for a in args]
            if any(not s for s in subs):
                continue
            combos = [[]]
            for s in subs:
                nxt = [c + [x] for c in combos for x in s]
                combos = nxt if len(nxt) <= cap else rng.sample(nxt, cap)
            new.setdefault(key(d), []).extend(prog_of(l, c) for c in combos)
        for k, ps in new.items():
            uniq = {}
            for p in ps:
                uniq.setdefault(key(p), p)
            ps = list(uniq.values())
            if len(ps) > cap:
                ps = rng.sample(ps, cap)
            if len(ps) != len(lang.get(k, [])):
                changed = True
            lang[k] = ps
    return lang


def all_trees(aut, maxdepth, cap, rng):
    """trees over the ranked alphabet of the automaton, nesting <= maxdepth, thinned to about cap"""
    alpha = alphabet(aut)
    level = [prog_of(l, []) for l, a in alpha if a == 0]
    pool = list(level)
    for _ in range(maxdepth - 1):
        new = []
        for l, a in alpha:
            if a == 0:
                continue
            n = len(pool) ** a
            if n <= cap:
                import itertools
                for c in itertools.product(pool, repeat=a):
                    new.append(prog_of(l, list(c)))
            else:
                for _ in range(cap):
                    new.append(prog_of(l, [rng.choice(pool) for _ in range(a)]))
        uniq = {}
        for p in pool + new:
            uniq.setdefault(key(p), p)
        pool = list(uniq.values())
        if len(pool) > 4 * cap:
            pool = rng.sample(pool, 4 * cap)
    return pool


def mutants(aut, progs, k, rng):
    """ill-ranked near misses: dropped / extra argument, bare head, leaf applied to arguments"""
    alpha = alphabet(aut)
    apps = [p for p in progs if p[0] == 1]
    leaves = [l for l, a in alpha if a == 0]
    out = []
    for _ in range(k):
        if not apps:
            break
        p = rng.choice(apps)
        r = rng.random()
        if r < 0.3 and len(p) > 3:
            out.append(p[:-1])
        elif r < 0.5:
            out.append([0, p[1]])
        elif r < 0.75:
            out.append(p + [rng.choice(p[2:])])
        elif leaves:
            out.append([1, rng.choice(leaves)] + p[2:3])
    return out


def candidate_programs(aut, cap, rng, maxdepth=4):
    """every accepted tree (thinned to cap), a stream of other trees over the alphabet, and mutants"""
    idx = index(aut)
    fin = {key(q) for q in aut[1]}
    lang = accepted_by_state(aut, cap, rng)
    acc = []
    for k, ps in lang.items():
        if k in fin:
            acc += ps
    if len(acc) > cap:
        acc = rng.sample(acc, cap)
    d = max([depth(p) for p in acc] + [1])
    others = all_trees(aut, min(maxdepth, d + 1), cap, rng)
    rej = [p for p in others if (lambda q: q is None or key(q) not in fin)(run(idx, p))]
    if len(rej) > cap // 2:
        rej = rng.sample(rej, cap // 2)
    out = acc + rej
    out += mutants(aut, out, 12, rng)
    uniq = {}
    for p in out:
        uniq.setdefault(key(p), p)
    return list(uniq.values())
