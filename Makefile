# Build of the verification framework (offline).
#   make setup          full .vo build + every extracted driver
#   make driver ID=C20  development up to date + driver of one property
IDS := $(patsubst coq/extract/%.v,%,$(wildcard coq/extract/*.v))
VFILES := $(shell find coq/theories -name '*.v' -not -path '*/Props/*')

.PHONY: setup coq drivers driver clean

setup: coq drivers

# _CoqProject is generated: every .v under theories/ except Props/ (those are
# re-checked by each check run).  The whole Coq build is serialised by a lock
# so that concurrent checks do not race on .vo files.
coq:
	@mkdir -p build
	flock build/.coq.lock sh -c '( echo "-R theories PS"; cd coq && find theories -name "*.v" -not -path "*/Props/*" | LC_ALL=C sort ) > build/_CoqProject.new; \
	  cmp -s build/_CoqProject.new coq/_CoqProject || cp build/_CoqProject.new coq/_CoqProject; \
	  cd coq && ( [ -f Makefile ] && [ Makefile -nt _CoqProject ] || coq_makefile -f _CoqProject -o Makefile ) && timeout 3000 $(MAKE) -j16 --no-print-directory'

drivers: coq
	for id in $(IDS); do $(MAKE) --no-print-directory build/$$id/driver || exit 1; done

driver: coq
	flock build/.drv.$(ID).lock $(MAKE) --no-print-directory build/$(ID)/driver

build/%/driver: coq/extract/%.v ocaml/driver.ml $(VFILES)
	mkdir -p build/$*
	cd build/$* && timeout 600 coqc -R ../../coq/theories PS ../../coq/extract/$*.v > extract.log 2>&1 || (cat extract.log; exit 1)
	cp ocaml/driver.ml build/$*/driver.ml
	cd build/$* && timeout 600 ocamlfind ocamlopt -w -a -O3 model.mli model.ml driver.ml -o driver

clean:
	rm -rf build; cd coq && [ -f Makefile ] && $(MAKE) clean || true
