"""Evaluate red-team seeded defects: for every m<k>.diff in an output directory
confirm the demonstration (fails with the change, passes without), run the
property's check against a scratch worktree with the change, and store
everything under /verif/seeded/<ID>-<k>/ (patch.diff, demo.py, meta.json).
usage: seedeval.py <ID> <outdir> [check ids...]"""
import glob, json, os, shutil, subprocess, sys, time

pid, out = sys.argv[1], sys.argv[2]
checks = sys.argv[3:] or [pid]
V = "/verif"


def sh(cmd, timeout=3000, env=None):
    p = subprocess.run(cmd, shell=True, stdout=subprocess.PIPE, stderr=subprocess.STDOUT, text=True, timeout=timeout, env=env)
    return p.returncode, p.stdout


def run_demo(repo, demo):
    env = dict(os.environ, PYTHONPATH=repo, PYTHONHASHSEED="0")
    try:
        rc, o = sh("cd /tmp && timeout 600 /venv/bin/python %s" % demo, env=env)
    except subprocess.TimeoutExpired:
        return 124, "timeout"
    return rc, "\n".join(l for l in o.splitlines() if not l.startswith("WARNING"))[-600:]


if out == "seeded":
    # re-evaluate what is stored under /verif/seeded/<ID>-m*/ (copied to a scratch directory first)
    out = "/tmp/seval_src_%s" % pid
    shutil.rmtree(out, ignore_errors=True)
    os.makedirs(out)
    for d in sorted(glob.glob(os.path.join(V, "seeded", pid + "-*m[0-9]"))):
        k = os.path.basename(d).split("-", 1)[1]
        shutil.copy(os.path.join(d, "patch.diff"), os.path.join(out, k + ".diff"))
        shutil.copy(os.path.join(d, "demo.py"), os.path.join(out, k + "_demo.py"))
        shutil.copy(os.path.join(d, "meta.json"), os.path.join(out, k + "_meta.json"))

TAG = os.environ.get("SEED_TAG", "")        # e.g. r2 for a second red-team round: stored as <ID>-r2m<k>
for diff in sorted(glob.glob(os.path.join(out, "*m[0-9].diff"))):
    k = os.path.basename(diff)[:-5]
    demo = os.path.join(out, k + "_demo.py")
    if not os.path.exists(demo):
        print(k, "no demo, skipped")
        continue
    w = "/tmp/seval_%s_%s" % (pid, k)
    sh("git -C /repo worktree remove --force %s" % w)
    rc, o = sh("git -C /repo worktree add -q --detach %s HEAD" % w)
    rc0, o0 = run_demo(w, demo)
    rc, o = sh("git -C %s apply %s" % (w, diff))
    if rc != 0:
        print(k, "PATCH DOES NOT APPLY:", o[:300])
        sh("git -C /repo worktree remove --force %s" % w)
        continue
    rc1, o1 = run_demo(w, demo)
    confirmed = (rc0 == 0 and rc1 != 0)
    results = {}
    for c in checks:
        t = time.time()
        env = dict(os.environ, VERIF_REPO=w)
        rc, o = sh("cd %s && ./check %s --tier quick --no-build" % (V, c), env=env)
        lines = [l for l in o.splitlines() if not l.startswith("WARNING")]
        viol = [l for l in lines if l.startswith("VIOLATION")]
        results[c] = {"exit": rc, "violations": len(viol), "first": viol[:2], "summary": lines[-1][:300] if lines else "", "wall_s": round(time.time() - t, 1)}
        # keep one replay as illustration
        if viol:
            rp = viol[0].split("replay=")[1].split()[0]
            results[c]["replay_excerpt"] = open(rp).read()[:1500] if os.path.exists(rp) else ""
    sh("git -C /repo worktree remove --force %s" % w)
    d = os.path.join(V, "seeded", "%s-%s%s" % (pid, TAG, k))
    os.makedirs(d, exist_ok=True)
    shutil.copy(diff, os.path.join(d, "patch.diff"))
    shutil.copy(demo, os.path.join(d, "demo.py"))
    meta = {}
    mp = os.path.join(out, k + "_meta.json")
    if os.path.exists(mp):
        try:
            meta = json.load(open(mp))
        except Exception:
            meta = {"raw": open(mp).read()[:2000]}
    meta.update({"property": pid, "confirmed_by_us": confirmed,
                 "demo_without_change": {"exit": rc0, "output": o0}, "demo_with_change": {"exit": rc1, "output": o1},
                 "what_we_ran": "tools/seedeval.py: demo in a scratch worktree of /repo HEAD with and without the patch (PYTHONHASHSEED=0); then ./check <ID> --tier quick with VERIF_REPO pointing at the patched worktree",
                 "checks": results,
                 "detected": any(r["violations"] > 0 for r in results.values())})
    json.dump(meta, open(os.path.join(d, "meta.json"), "w"), indent=1)
    print(k, "confirmed" if confirmed else "NOT CONFIRMED (without=%s with=%s)" % (rc0, rc1),
          {c: (r["violations"], r["wall_s"]) for c, r in results.items()})
