"""Prints a markdown table of the seeded defects under /verif/seeded (from their meta.json)."""
import glob, json, os
rows = []
for d in sorted(glob.glob("/verif/seeded/*")):
    m = json.load(open(os.path.join(d, "meta.json")))
    name = os.path.basename(d)
    checks = ", ".join("%s:%d" % (k, v["violations"]) for k, v in m.get("checks", {}).items())
    rows.append("| %s | %s | %s | %s | %s |" % (name, (m.get("summary") or "")[:150].replace("|", "/").replace("\n", " "),
                                                (str(m.get("needs_to_manifest")) or "")[:120].replace("|", "/").replace("\n", " "),
                                                "yes" if m.get("detected") else "**no**", checks))
print("| seeded change | what it does | needs to manifest | detected | violations per check |")
print("|---|---|---|---|---|")
print("\n".join(rows))
