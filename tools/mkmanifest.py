"""Regenerates MANIFEST.json from the table below (kept in one place so the
file stays valid while properties are added)."""
import json, os
V = os.path.dirname(os.path.dirname(os.path.abspath(__file__)))
TB = ("Trusted: Coq 8.16.1 kernel; extraction with ExtrOcamlBasic (no Extract Constant/Inductive of our own) and OCaml 4.13.1; "
      "ocaml/driver.ml; the extracted Gallina sexp decoders/encoders; the Python harness (generators, runners, comparison); "
      "CPython semantics of dict/set/hash.  The Gallina model is hand-written: it is tied to /repo only by the correspondence "
      "run of this check (same inputs through the extracted model and through /repo's code, PYTHONPATH=/repo), so behaviour on "
      "inputs outside the generator families is covered by the theorem only if the model is faithful there. ")
CHECKS = {
 "C20": dict(
   technique="Coq proof of the filter-object model + extracted-model/implementation correspondence",
   text=("Theorems (Props/C20.v, closed under the global context): for every filter expression built with &, |, - and the n-ary "
         "constructors, at any nesting, the flattened object accepts exactly the boolean denotation and reject is its negation "
         "(C20_and/or/neg/flatten/reject); the observational-equivalence filter's answers on every presentation sequence equal the "
         "specification 'has a signature and every previously accepted program of that type and signature is the same program' "
         "(C20_obseq_char), hence accepted programs are pairwise distinguishable, every behaviour seen keeps a representative and "
         "re-presenting an accepted program accepts it (C20_obseq_distinct/represented/again).  Each run re-checks the theorems and "
         "compares the extracted model with synth.filter on generated expressions and presentation sequences under several hash seeds."),
   note=TB + "Program identity inside ObsEqFilter is hash equality in the code and structural equality in the model (hash collisions are outside the model).  Stub filters are pure.",
   design="5/C20"),
}
CHECKS["C01"] = dict(
   technique="Coq proof of the CFG-construction model against an independent typing judgement + extracted-model/implementation correspondence",
   text=("Theorems (Props/C01.v, closed under the global context, all parameters unbounded): membership in the compiled, cleaned grammar equals an "
         "independent typing judgement wt (type via ends_with, depth bound, minimum variable depth, constant types, forbidden (parent, index, child) "
         "patterns for children of any arity) for every program when n_gram >= 2 (C01_language; C01_ngram1_refuted shows the hypothesis is needed); "
         "members have depth <= bound (C01_depth); the language does not depend on n_gram >= 2 (C01_ngram_irrelevant); programs() = length of the "
         "enumerated language, which is duplicate-free and is exactly the set of members (C01_count, C01_count_nodup, C01_count_members); every rule "
         "left at a reachable non-terminal is used by the derivation of some member (C01_rules_useful, C01_reachable, C01_productive).  Each run "
         "re-checks the theorems and compares the extracted model with CFG.depth_constraint / UCFG.depth_constraint on random DSLs: membership of "
         "every candidate term (members, near-misses, ill-typed, partial and over-applications), programs(), the (type, depth, symbol) rule set and "
         "type_request, under several hash seeds.  Compiled without depth bound (CFG.infinite, recursive=False): membership equals the judgement "
         "wt_inf (no depth bound, no minimum variable depth, forbidden patterns at any arity) for every program when n_gram >= 2 "
         "(C01_recursive_language); clean() does not change membership and always terminates (C01_recursive_clean, _clean_total, C01_clean_any, "
         "_cleaned_sets); every remaining rule is used by some member (C01_recursive_rules_useful); the depth-d grammar is exactly the unbounded one "
         "restricted to height <= d and variables at depth >= min_variable_depth (C01_bounded_is_restriction*); programs() of a finite unbounded "
         "language is the size of the enumerated language (C01_recursive_count).  For both grammars derivations exist exactly for members and are "
         "unique, and derive_all / reduce_derivations visit exactly the derivation's rules in pre-order (C01_derivation_exists/_unique, "
         "C01_derive_all, C01_reduce_derivations).  Each run additionally compares CFG.depth_constraint(..., -1) with the extracted model: membership "
         "incl. terms up to depth 6, programs(), the rule set, type_request, and derive_all / reduce_derivations of every member (also for bounded "
         "cases).  Not covered: recursive=True; the builder's work-list and dict order; 'programs() = -1 iff the language is infinite' is proved "
         "only in the finite direction."),
   note=TB + "The model represents the grammar by the function giving a non-terminal's rules and computes cleaning by productivity; the code's work-list and dict order are not modelled (the rule-set comparison ties them).  Types are ground without sums so Python type equality is structural.  Cleaning of the unbounded grammar is computed by rounds with explicit fuel (sufficiency: C01_recursive_clean_total).  Known findings: n_gram < 2 cannot honour forbidden patterns; an empty language makes the constructor raise KeyError; programs()/is_recursive() report -1 for a finite language compiled without a bound.",
   design="5/C01")
CHECKS["C11"] = dict(
   technique="Coq proof of the cached-evaluator model + extracted-model/implementation correspondence",
   text=("Theorems (Props/C11.v, closed under the global context): for every application function, primitive table, skip set, program, input and "
         "history of eval/clear_cache on one evaluator, cache on or off, each evaluation returns observe(eval_ref) = the compositional reference "
         "value (head, then arguments left to right, then curried applications), None for a skipped exception, the exception otherwise "
         "(C11_history_independent, C11_cached_eq_ref, C11_cache_irrelevant, C11_value/skip/raise, C11_compositional*, C11_first_failure).  Each run "
         "re-checks the theorems and compares the extracted model with DSLEvaluator on random histories (5-40 operations, a failing sub-program "
         "evaluated first and then a larger program containing it, 33 primitives incl. partial and higher-order ones) under several hash seeds."),
   note=TB + "Skip set and use_cache are fixed per evaluator.  Program keys are structural equality (see C16).  Inputs equal under Python == share a cache table (1/True), so one history types its inputs alike.  Semantic functions are pure; no primitive missing from the semantics, no Lambda or Function-headed programs.",
   design="5/C11")
CHECKS["C10"] = dict(
   technique="Coq proof of the solver-generator state machine + extracted-model/implementation correspondence",
   text=("Theorems (Props/C10.v, closed, for a clock that never fires): the events of solve() under any next()/send() script are the protocol over "
         "exactly the programs passing all examples, in enumeration order, cut after the first accepted one (C10_yields, C10_passing_exactly, C10_order, "
         "C10_stop/resume/exhausted/reject_all); the 'programs' statistic grows by the rank of an accepted solution and by 0 otherwise (C10_stats*, "
         "C10_tasks); an exception escapes at exactly the first program whose test raises (C10_raise); naive = cut-off whenever no evaluation raises, "
         "and precisely related otherwise (C10_naive_cutoff*, C10_zero_examples); the evaluator cache left by earlier tasks is irrelevant "
         "(C10_cache_irrelevant, via C11).  Each run re-checks them and compares the extracted model with NaivePBESolver/CutoffPBESolver driven by a "
         "replay enumerator over several tasks sharing one evaluator.  RestartPBESolver (model Sem/SolverRestart.v, any restart criterion, scripted "
         "enumerations of the successive clones): the events are the plain-solver protocol over the effective stream (C10_restart_yields / "
         "C10_restart_equals_plain); the effective stream is the concatenation of the uniquely determined consumed prefixes of the successive "
         "enumerations, each starting at that enumeration's first program (C10_restart_effective, _unique, _pieces_are_prefixes); on acceptance "
         "'programs' is the rank in the effective stream and the restarts are exactly the firings of the criterion (C10_restart_stats, _accept_state); "
         "every drawn program is tested exactly once (C10_restart_complete, _drawn_tested); with a criterion that never fires the restart solver is its "
         "sub-solver (C10_restart_never_fires*); C10_restart_exhaustion_refuted exhibits the RuntimeError of the code before fix 73be1da.  Each run "
         "compares the extracted model with the real RestartPBESolver driven by scripted enumerators carrying a real PCFG and by the real heap search "
         "enumerator (recorded streams replayed by the model)."),
   note=TB + "The timeout branch is modelled but neither exercised nor covered by a theorem.  Tasks are sequential on one solver and the first step is next().  A stub replay enumerator is used; program_probability and the time statistic are not compared.  Output equality is modelled on typed outputs.  For RestartPBESolver the grammar re-weighting of _restart_ is outside the model (the pcfg passed to clone() is only checked to be normalised over the same rules); the timeout branch is modelled, not exercised; one solver object per case without reset_stats().",
   design="5/C10")
CHECKS["C14"] = dict(
   technique="Coq proof of the instantiate_polymorphic_types model against a declarative instance specification + extracted-model/implementation correspondence",
   text=("Theorems (Props/C14.v, closed under the global context), for every well-formed syntax (distinct names, one annotation per variable name, "
         "concrete annotations, sums with >= 2 alternatives, one arity per generic name) and every bound: the result has no polymorphic or sum type "
         "(C14_no_poly_no_sum); every result is an admissible ground instance of the same-named declared primitive (C14_sound); every admissible "
         "instance over the documented universe within the bound is present, nothing twice (C14_complete_once); a second call changes nothing "
         "(C14_idempotent).  C14_sound/complete_once/idempotent_refuted exhibit counterexamples for the code as it was before the two fix: commits "
         "(unit argument not first, duplicates).  Each run re-checks the proofs and compares the extracted model with "
         "DSL.instantiate_polymorphic_types on generated syntaxes x bounds 0-6, after one and two calls, as sorted lists, under several hash seeds."),
   note=TB + "Python sets are modelled as duplicate-free lists under structural equality (valid for consistent annotations; hash collisions ignored); list 'in'/'remove' are modelled by the Python type equality ty_eqb_py.  'Base types' are those collected by decompose_type (types named only inside annotations are excluded).  The bound applies to the substituted type.  Sums with fewer than 2 alternatives, inconsistent annotations and variables inside annotations are outside the theorems' hypotheses; the generator stays inside them and the harness asserts the model's wf flag.",
   design="5/C14")
ENUM_NOTE = TB + ("These three properties are PARTIAL: what is proved is the decision procedure that is run on the implementation's output (sound and complete "
   "w.r.t. the declarative specification) and the language/probability layer it relies on (Gram/Det.v); there is no refinement proof from the Python "
   "queue mechanics (heaps, banks, bucket queues) to those specifications, so the property is decided per run, on the generated grammars, not for all "
   "inputs.  The language list L handed to the checker is the model's enumeration of the implementation's own rule table with fuel = bound + 2 "
   "(the harness asserts that one more unit of fuel adds nothing).  Unambiguous-grammar variants (hs_u, hs_bucket_u) are not driven yet. ")
CHECKS["C02"] = dict(
   technique="Coq-verified result checker (sound and complete) run on every enumerator's output + model language of the implementation's rule table",
   text=("PARTIAL.  Theorems (Props/C02.v, closed): for any duplicate-free list L of exactly the members, check_enum member |L| out = true <-> "
         "Permutation out L <-> (NoDup out and In p out <-> member p) (C02_checker_sound_complete, C02_checker_exactly_once).  Each run builds grammars "
         "and weights with the real code, runs heap / bucket / bee / beap / constant-delay search to exhaustion under a time limit, and hands the "
         "grammar's own rule table and the full output to the extracted checker; non-termination = time limit exceeded.  Algorithmic core "
         "(Enum/Frontier.v, FrontierProofs.v, FrontierSched.v; an abstraction of the index-tuple expansion of bee/beap/constant-delay search; tied to "
         "bee search by correspondence: every run records, for the first 300 combinations bee search pops, the combinations it pushes for each "
         "(_add_combination_ wrapped in the harness, no repo hook) and compares them with the extracted Frontier.children; beap and constant-delay "
         "search push inline and are not tied): unique parent, no duplicate push, breadth-first levels list every tuple once (C02_frontier_*), and for EVERY pop "
         "order of the queue (frontier taken up to permutation, any number of steps): nothing pushed or popped twice, nothing lost, and an empty queue "
         "means every tuple of the arity was popped exactly once (C02_frontier_any_order_no_duplicates / _nothing_lost / _exhaustive)."),
   note=ENUM_NOTE + "Known findings: heap/bucket search are incomplete on size-bounded (tree-traversing) grammars; bee search with non-uniform weights blows up exponentially (treated as practical non-termination, prefix still checked).",
   design="5/C02")
CHECKS["C03"] = dict(
   technique="Coq-verified order checkers (chain/StronglySorted, slack-sorted, lexicographic buckets) run on every enumerator's output with exact rational probabilities",
   text=("PARTIAL.  Theorems (Props/C03.v, closed): the consecutive-pair checker on exact probabilities decides StronglySorted non-increasing "
         "(C03_sorted_probabilities, C03_tolerance_zero); the running-maximum checker decides 'no cost more than slack below an earlier one' "
         "(C03_cost_slack_sorted; slack 0 for bee search, 2 integer units for constant delay); the bucket comparison is a total preorder on equal-size "
         "tuples and its chain check decides sortedness (C03_bucket_*, C03_sorted_buckets); in a sorted sequence every element with a strictly "
         "larger key than an already produced one has been produced (C03_prefix_complete, the 'consequently' clause).  Each run computes every "
         "output program's exact probability / integer cost / bucket tuple with the model from the grammar's own weights and applies the checker."),
   note=ENUM_NOTE + "Float rounding inside the enumerators is allowed a relative 2^-40.  The integer rule costs of bee/constant-delay search are validated against -ln(p)*scale within 1.  Recursive (infinite) grammars are not driven by the correspondence; C03_prefix_complete covers them as a statement about sorted sequences only.",
   design="5/C03")
CHECKS["C12"] = dict(
   technique="Coq-verified checkers for filtered enumerations and merge histories run on every enumerator's output",
   text=("PARTIAL.  Theorems (Props/C12.v, closed): check_filtered decides the sandwich specification (nothing twice, nothing rejected or outside "
         "the language, every program all of whose sub-programs are accepted is present) and, for a sub-program-closed filter, equals 'permutation of "
         "the accepted part of the language' (C12_checker_filter, C12_closed_filter); check_merged decides the merge-history specification "
         "(C12_checker_merge).  Each run installs rejected-set filters or merge scripts on the five deterministic-grammar enumerators and checks "
         "their output with the extracted checkers."),
   note=ENUM_NOTE + "Filters are finite rejected sets.  Known findings: bee search never returns once a filter/merge removes a program; heap search yields programs containing a merged program that were already queued; constant-delay search loses unrelated programs after a merge.  Their classifiers are shape-based (no faithful model of the enumerators exists), so another defect with the same symptom on the same enumerator would be attributed to them.",
   design="5/C12")
CHECKS["C09"] = dict(
   technique="Coq proof of the alias-table and sampling models over exact rationals + extracted-model/implementation correspondence (scripted uniforms and scripted samplers); fixed-seed chi-square tests for the native back-end and the real PRNG",
   text=("Theorems (Props/C09.v, closed under the global context): for any n > 0 non-negative weights of positive sum the alias table built by the "
         "fallback sampler induces exactly the normalised weights (C09_alias_exact, C09_alias_exact_sum1), where the induced distribution draw_dist is "
         "the area of the preimage of each index under the draw as a function of its two uniforms (C09_draw_measure); for well-formed deterministic "
         "table grammars with rule-ordered weights the distribution of sample_program over choice streams equals probability on every program, has "
         "total mass 1 and only yields members, and a sample depends only on the choices it consumes (C09_program_distribution, C09_members_only, "
         "C09_deterministic); for unambiguous grammars only replay and total mass 1 are proved (C09_u_distribution_partial, C09_u_deterministic).  "
         "C09_fair_coin_refuted / C09_unnormalised_refuted exhibit the behaviour before the fix: commits.  Each run compares the extracted model with "
         "the code: alias tables for random weight vectors (as induced distributions), scripted (u1,u2) grids straddling every threshold, grammar "
         "sampling with every VoseSampler replaced by a scripted one, seed usage (pairwise distinct sampler seeds), value-sampler wrappers."),
   note=TB + "Ideal independent uniforms are assumed, and distinct integer seeds are assumed to give independent streams.  Long-run frequencies, the native vose extension and the real PRNG are only TESTED (chi-square, fixed seeds, alpha 1e-6) - not proved.  u1*n is computed in floating point; the scripted grid stays 2^-20/n away from column boundaries.  The model gets exact rational weights, the implementation the nearest floats (tolerance 2^-48).  For unambiguous grammars 'mass = reported probability' and members-only are covered by the correspondence only.",
   design="5/C09")
CHECKS["C18"] = dict(
   technique="Coq proof of the task-generator model over oracle streams + extracted-model/implementation correspondence (scripted samplers; real seeded samplers with recorded draws replayed through the model)",
   text=("Theorems (Props/C18.v, closed under the global context, unbounded): for every semantics, validator, skip sets, max_tries, uniques flag and "
         "all sampler streams, every task the modelled generator returns has examples equal to the reference evaluation of its solution on its "
         "inputs (genuinely successful evaluations when the validator rejects None), pairwise distinct outputs accepted by the validator, exactly the "
         "number of examples drawn, a solution taken from the program stream of its request and inputs taken from the streams of its argument types "
         "(C18_task_ok, C18_examples_count, C18_examples_are_evaluations), for every task of a sequence of any length (C18_sequence_ok); the sequence "
         "is a function of the consumed stream prefixes (C18_deterministic, C18_sequence_prefix, C18_stream_local, C18_streams_consumed_in_order); "
         "solutions flagged unique are pairwise distinct (C18_unique_solutions); C18_count_pinned_refuted exhibits the 0 -> 1 example defect fixed in "
         "/repo.  Each run compares the extracted model with synth.pbe.task_generator on scripted sampler streams, and on real seeded samplers and "
         "grammars records every draw, replays the model on it, re-evaluates the examples with the verified reference evaluator, runs two generators "
         "with equal seeds and re-runs under a second PYTHONHASHSEED in a child interpreter."),
   note=TB + "Samplers are observed only through the sequence of values they return.  The cached evaluator is the reference semantics (C11); grammar membership of samples is C09; program/type equality is structural on ground well-typed terms (C16).  Negative counts and negative max_tries are outside the model; termination of the outer while True is not claimed (explicit out-of-fuel result); reproduce_dataset is not modelled; PRNG quality is not a subject.",
   design="5/C18")
CHECKS["C15"] = dict(
   technique="Coq proof of executable models of auto_type (tokenizer + stack machine) and of str(program)/DSL.parse_program + extracted-model/implementation correspondence",
   text=("Theorems (Props/C15.v, closed under the global context, unbounded): every well-formed expression of the documented type notation (names, "
         "'a, 'a[...] restrictions, parentheses incl. redundant ones, postfix generics, optional, unions, right-nested arrows), with any number of "
         "blanks at every allowed place, parses to the type it denotes (C15_type_expr); documented t -> auto_type (show_type style t) = t for every "
         "printing style (C15_type_roundtrip); n-ary arrows are right-nested (C15_function_type); the parser models never run out of fuel "
         "(C15_*_parser_total); for every DSL parse_program (show p) = resolve p, the program with each primitive replaced by the first one of that "
         "name (C15_program_resolved), hence with unique names the round trip returns p with the same type (C15_program_roundtrip), and with repeated "
         "names it fails (C15_same_name_refuted: known finding, type-directed parsing is not a small repair); C15_type_pinned_refuted exhibits the "
         "tokenizer defect fixed in /repo.  Each run compares the extracted models with the code on ~1500 random type expressions, show_type outputs, "
         "malformed texts, and every program of several abstract DSLs and compiled grammars (incl. after instantiate_polymorphic_types / "
         "instantiate_constants), structurally and by == / type."),
   note=TB + "ASCII text only, U+0020 as the blank.  format(value) is modelled for int, bool, None and lists of those; var<i> for digit strings only; names are interned injectively (proved).  Malformed input: only a silently wrong result counts, differing error behaviour does not.  auto_parse_program, infix generics beyond the correspondence, and non-ASCII text are not modelled.",
   design="5/C15")
CHECKS["C07"] = dict(
   technique="Coq proof of the tree-automaton model (reduce, read_product, read_union, map_states, minimise incl. Myhill-Nerode minimality) + extracted-model/implementation correspondence",
   text=("Theorems (Props/C07.v, closed under the global context; any letter/state type with decidable equality, every dict-shaped automaton, every "
         "tree): reduce keeps the language and returns a trim automaton (C07_reduce); read_product's run is the pair of runs and it accepts the "
         "intersection (C07_product); read_union with the default fusion accepts the union and is trim (C07_union); injective map_states preserves "
         "runs and acceptance (C07_map_states); minimise of a reduced automaton is deterministic with the same language (C07_minimise_language), "
         "never runs out of fuel and raises KeyError exactly when a rule argument or final state is unreachable (C07_minimise_total), and has the "
         "least number of states among all functional-table automata with the same language - full Myhill-Nerode argument, also as "
         "len(M.states) <= len(B.states) (C07_minimise_minimal, C07_minimise_minimal_states).  The code before the fix: commit is modelled too: it "
         "keeps the language (C07_pinned_*_language) but its reduce kept unproductive cycles, so reduce-then-minimise was not minimal "
         "(C07_pinned_reduce_minimise_refuted).  Each run compares the extracted model with tree_automaton.py on generated automata (partial tables, "
         "unreachable/unproductive/dead-cycle states, none/all final, cyclic and acyclic) and pairs: acceptance of every tree of a 100-1200 tree set "
         "by the original and the resulting automaton, run states for product/map_states, KeyError behaviour of minimise, and the state count of "
         "minimise against the model and against an independent table-filling Myhill-Nerode count in the harness (a test, not a proof)."),
   note=TB + "Hypothesis of every theorem: the rule table is a dict (pairwise distinct (letter,args) keys) and state/letter equality is structural (hash collisions outside the model).  minimise is modelled with mapping=None, read_union with the default fusion; __mul__, size, alphabet, __str__ are not modelled.  'Reduced' = trim (every state reachable and productive).",
   design="5/C07")
CHECKS["C04"] = dict(
   technique="Coq proof of the rule-table models (Gram/Det.v, Gram/U.v) + correspondence of the extracted model run on the implementation's own serialised rule table and exact float weights",
   text=("Theorems (Props/C04.v, closed under the global context).  For every deterministic / tree-traversing rule table: the stack-threaded "
         "membership traversal equals the structural derivation (C04_det_threading); probability() is the product of the rule weights of the "
         "derivation on members and 0 outside (C04_det_probability, C04_det_product_*, C04_outside_zero); the enumerated language is duplicate-free "
         "and is exactly the members (C04_count) and, for a well-formed weighted table, complete (C04_language_complete) with probabilities summing "
         "to 1 (C04_sum_to_one); uniform()/normalise() yield positive weights summing to 1 (C04_uniform, C04_normalise); learnt tags are normalised "
         "(C04_from_samples_partial).  Unambiguous grammars, PARTIAL: membership/reduce_derivations equal the stack-free derivation list, "
         "probability = its head times the start tag, 0 outside (C04_u_*); sum, count, unambiguity and uniform/normalise of unambiguous grammars are "
         "covered by the correspondence only.  Each run compares membership, probability, programs(), language size, float sum and tags on "
         "CFG.depth_constraint, TTCFG.size_constraint, UCFG.from_CFG and UCFG.from_DFTA (several start symbols) with uniform / random / hand / learnt "
         "weights under several hash seeds."),
   note=TB + "Float tolerance (k(m+2)+2)*2^-52 on probabilities and 1e-9 on sums; finite grammars of at most 2500 programs; no Function(P,[]); U rules have >= 1 alternative, all of equal length; the exact model sum is only computed for languages of <= 300 programs (<= 1200 for TTCFG); samples given to pcfg_from_samples are members; grammar construction itself is not the subject of this check (C01/C13).  Known finding c04_unproductive_rules: size_constraint/clean keep rules with an uninhabited argument type, so a normalised grammar can sum to less than 1.",
   design="5/C04")
CHECKS["C17"] = dict(
   technique="Coq proof of the constant-instantiation model on rule and weight tables + extracted-model/implementation correspondence",
   text=("Theorems (Props/C17.v, closed) for deterministic / tree-traversing tables with duplicate-free value lists: the language of the instantiated "
         "table is exactly all instantiations of the original programs (C17_language), each exactly once (C17_exactly_once: NoDup + Permutation); "
         "the mass of a template equals the sum over its instantiations when no slot type has an empty list (C17_mass); well-formedness and sum = 1 "
         "are preserved (C17_normalised); Program.all_constants_instantiation agrees with the specification (C17_program_side); "
         "C17_empty_list_refuted / C17_duplicate_value_refuted are witnesses for the empty-list finding and for the duplicate-value defect fixed in "
         "/repo.  Unambiguous grammars: the same instantiation function, correspondence only.  Each run compares instantiated rule tables, tags, "
         "membership of instantiations and near misses, probabilities, programs(), all_constants_instantiation, mass and sum."),
   note=TB + "Values are ints / bools / lists, never None; TTCFGs with constants are exercised through CFG (size_constraint has no constant slots).  Known finding c17_empty_value_list: an empty value list for a slot type drops the slot's mass (no obviously right repair: raise, renormalise or keep the slot).",
   design="5/C17")
CHECKS["C19"] = dict(
   technique="Coq proof over the reals of the tensor-to-grammar conversion and axiom-free proof of the encoder layout + extracted-model/implementation correspondence (discrete part exact; float arithmetic measured against closed forms in 60-digit arithmetic)",
   text=("Theorems (Props/C19.v).  Over exact reals, for any slice, any finite set of derivable rules, any numbers nv, nc of variables and constants, "
         "0 < v < 1: every converted weight equals its closed form, is positive, the weights sum to 1 - delta with delta = 1e-7*(nv(nv-1)/2 + nv*nc) "
         "(0 with the ordering trick off), variables and constants together receive v - delta (1 - delta when the non-terminal has only those; "
         "primitives 1 - v, or 1 alone); the U conversion sums to exactly 1; start probabilities sum to 1; exp(log_probability p) = probability of "
         "p in the converted grammar = product of exp(tag) along the derivation, for every table and every program of the grammar "
         "(C19_closed_form, C19_positive, C19_normalised*, C19_delta_value, C19_variable_mass, C19_normalised_u, C19_start_normalised, "
         "C19_logprob*, C19_defined_on_language).  Axiom-free: encode marks exactly the primitive rules of the derivation and the layout is a "
         "bijection between distinct (abstraction, primitive) pairs and [0, output_size) (C19_encode, C19_encode_vector, C19_layout, "
         "C19_start_entries, C19_reduce_is_fold).  The float32/float64 arithmetic of the implementation is NOT proved: each run measures it against "
         "the closed forms (tolerance 1e-4 + 3 float32 ulps of the slice's largest |log-softmax|) and compares layout, non-terminals, membership "
         "and encodings exactly with the extracted model, for det and U layers over 1-3 grammars sharing abstractions and tensors up to magnitude 500.  "
         "Unambiguous grammars with SEVERAL alternatives per (non-terminal, symbol) and several start symbols (NN/EncodeU.v, NN/PredictU.v): every "
         "alternative of P gets pmass * exp(x_P) / sum over all (P', alt') of exp(x_P'), variables and constants share v uniformly over their "
         "(symbol, alternative) entries (C19_closed_form_alts, C19_alts_nonvacuous); start probabilities are the softmax of the start entries "
         "(C19_start_softmax); log_probability = start tag + sum of the rule tags of the unique derivation and exp of it is the converted "
         "probability, 0 outside the language (C19_logprob_multi, C19_exp_logprob_multi, C19_u_defined_on_language, C19_u_outside_zero); encode marks "
         "exactly the primitive steps of the derivation with one index per primitive shared by its alternatives (C19_u_derivations, C19_u_encode*, "
         "C19_u_layout, C19_u_start_entries, C19_u_example).  These are driven on hand-built UCFG tables (deterministic bottom-up automata, 1-3 start "
         "symbols) and on UCFG.from_DFTA / from_DFTA_with_ngrams of sharpened automata, the model running on the rule tables the implementation "
         "serialised."),
   note=TB + "Real-number theorems depend on ClassicalDedekindReals.sig_forall_dec, sig_not_dec, FunctionalExtensionality.functional_extensionality_dep and Classical_Prop.classic (standard library reals); the discrete theorems are closed.  Domain of the correspondence: CFG/UCFG.depth_constraint grammars over random abstract DSLs, the four abstractions of abstractions.py plus identity, v in {0.05, 0.2, 0.9}, |x| <= 500 (start entries <= 800); U layers also on hand-built and sharpened-automaton tables with several alternatives and start symbols (sharpening and the DFTA->UCFG conversion themselves belong to C05/C06; a candidate with more than one derivation is skipped; function-typed arguments with the same index have the same type in all grammars of a layer, because Variable.__eq__ ignores the type and the layer would merge their keys); log_probability(p) is specified with the start tag included and variables share v over their derivations (the behaviour after fixes 37df855 and 86dbe25); weights below 1e-280 are only required to be >= 0.  Autograd is not a subject.",
   design="5/C19")
CHECKS["C16"] = dict(
   technique="Coq proof of an object model of eq/hash/pickle (abstract repaired model plus literal model parametrised by repair set) + extracted-model/implementation correspondence, in-process and across processes with different PYTHONHASHSEED",
   text=("Theorems (Props/C16.v, closed under the global context), over all types and programs the constructors can build (any nesting; constant "
         "values None/ints/integer floats/bools/strings): == is reflexive, symmetric and transitive (C16_eq_equivalence); equal objects have equal "
         "hashes for every per-process hash function (C16_eq_hash, C16_key_sound, C16_cached_hash) and are interchangeable as dict/set keys "
         "(C16_interchangeable); objects rebuilt from a pickle in a process with other hash functions are the originals with every cached hash and "
         "computed type recomputed, also inside lists, tuples, dataclasses and dicts, and rebuilt dicts answer lookups as == does "
         "(C16_pickle_roundtrip, C16_pickle_roundtrip_containers, C16_pickle_dict_lookup); a class pickled without its reducer would keep a stale "
         "hash (C16_unregistered_stale).  Eight _refuted witnesses exhibit the eq/hash mismatches of the definitions before the six fix: commits.  "
         "Each run compares the model with synth.syntax on thousands of near-collision pairs and triples (==, hash, dict/set behaviour, in, !=) and "
         "on objects, tasks/datasets, keyed dicts and grammars (CFG, ProbDetGrammar, UCFG, ProbUGrammar) written under one hash seed through pickle, "
         "save_object and Dataset.save and read under another."),
   note=TB + "The repaired model abstracts CPython's set algorithms as mutual inclusion modulo ==; the literal transcription is run beside it on every case and must agree (checked, not proved).  Hash disagreement between unequal objects is judged under 'distinct key trees give distinct hashes'.  Grammar behaviour after loading is compared with a twin built in the reader, not predicted by the model.  NaN, container and user-class constant values are outside the model; grammar __hash__ (str(rules), order dependent) is outside the property.",
   design="5/C16")
CHECKS["C13"] = dict(
   technique="Coq proof of the TTCFG model (membership, product, clean, programs(), saturation builder) + extracted-model/implementation correspondence",
   text=("Theorems (Props/C13.v, closed under the global context): product = intersection for all compatible tables and for built grammars end to "
         "end (C13_product, C13_product_compatible, C13_product_of_builders); clean preserves the language for every table, start symbol and set "
         "iteration order, hence every hash seed (C13_clean_language); size_constraint / at_most_k (build + clean) contain exactly the well-typed, "
         "forbidden-respecting terms within the size / occurrence bound for n_gram >= 2, with no first-order or inhabitedness hypothesis "
         "(C13_size_language, C13_at_most_k, *_rule_function, *_sound_with_shortcut); programs(), memo included, equals the number of distinct "
         "members (C13_count, C13_count_tables, C13_count_memo_transparent); soundness of the dead-end enumeration (C13_dead_end_checker_sound); the "
         "builders report the request they were compiled for (C13_type_request); Det.v is an instance of the generic model and the information stack "
         "is eliminable (C13_det_instance, C13_membership_structural); seven _refuted witnesses for the defects of the tree before the fix: commits.  "
         "Each run compares the extracted model with ttcfg.py on generated DSLs and tables: membership of every candidate, programs(), type request, "
         "and the implementation's own serialised tables (before and after clean, product operands and result) compared by language, count and dead "
         "ends under several hash seeds.  'After cleaning every started derivation completes' is FALSE of clean() as coded (known finding "
         "c13_clean_dead_ends, with C13_clean_complete_refuted); termination is not claimed (explicit fuel)."),
   note=TB + "Assumptions: ground types without sums, distinct (name, type) primitives, no Function(P, []), at_most_k exercised only on finite languages, fuel 300000 with out-of-fuel reported as an error.  Known findings: clean leaves dead ends; the builder never applies function-typed variables; n_gram < 2 cannot honour forbidden patterns.",
   design="5/C13")
CHECKS["C06"] = dict(
   technique="Coq proof of the automaton-to-unambiguous-grammar conversions (state flattening, from_DFTA, from_DFTA_with_ngrams, from_CFG, clean, programs) against the automaton's own run + extracted-model/implementation correspondence",
   text=("Theorems (Props/C06.v, closed under the global context, unbounded): for every deterministic automaton over a ranked alphabet whose "
         "states are flattened injectively, the grammar read off the automaton derives p from the non-terminal of q iff the bottom-up run of p is "
         "q, in exactly one way (C06_from_dfta); membership from the start symbols equals acceptance (C06_from_dfta_language); an accepted program "
         "has exactly one derivation summed over the start symbols, a rejected one none (C06_unambiguous); the conversion never runs out of fuel "
         "(C06_from_dfta_total); the same language, derivation counts, language list and programs() for every n-gram width (C06_ngrams, "
         "C06_ngrams_total); programs() equals the length of the enumerated language, which is duplicate-free and is exactly the set of accepted "
         "programs, for acyclic automata (C06_count); from_CFG preserves membership with one derivation per member (C06_from_cfg); clean() "
         "preserves membership and derivation counts whenever it returns (C06_clean_partial, C06_clean_derivations_partial: termination of clean "
         "is not proved); the flattening is defined and injective on the state shapes of the sharpening pipeline (C06_d2state_injective/_defined); "
         "C06_d2state_collision_refuted / C06_pinned_language_refuted are witnesses for the flattening before the fix: commit (replayed on the "
         "implementation on every run).  Each run compares membership, number of derivations, programs(), start-set and rule-table sizes of "
         "from_DFTA and from_DFTA_with_ngrams (n = 1..3, clean off/on) with the extracted model and with DFTA.read, on random reduced acyclic typed "
         "automata with pipeline-shaped states and on real add_dfta_constraints outputs, and from_CFG on C01-family grammars."),
   note=TB + "Hypotheses: the automaton is a dict (distinct keys); each letter is used at one arity; states are built from Type objects, ints and tuples with (Type, payload) leaves; derivation counts are stated for well-ranked programs; a rank function witnesses acyclicity.  The code's work-list and stack orders are not modelled (a round-based closure with proved fuel is used); clean is modelled with explicit fuel; programs() after clean and 'read_product/minimise outputs have the shape predicate' are covered by the correspondence only.",
   design="5/C06")
CHECKS["C05"] = dict(
   technique="Coq proof of the sharpening model (cfg2dfta, tag/count/filter/process, add_dfta_constraints over the C07 automaton model, constraint parser) + extracted-model/implementation correspondence",
   text=("Theorems (Props/C05.v, 17, closed under the global context, unbounded over every DSL/grammar setting, every token tree of any nesting, "
         "every list of constraints with or without a sketch, every program): process attaches to every state the components [sat tok t] / "
         "saturating counts and leaves acceptance unchanged (C05_process_state, C05_process_count, C05_process_top_sketch/_local); the sharpened "
         "automaton accepts exactly base and every constraint at every occurrence of its head and the sketch at the root, for any dict-shaped base "
         "automaton, discharged by the C07 reduce/product/minimise/map_states theorems (C05_sharpen_automaton); from a grammar this is exactly the "
         "property when min_variable_depth = 0 and there are no forbidden patterns (C05_cfg2dfta, C05_sharpen), otherwise L(spec) is included in "
         "L(automaton) which is included in L(spec over the relaxed grammar), strictly (C05_cfg2dfta_sandwich, C05_sharpen_sandwich, "
         "C05_cfg2dfta_refuted: known finding c05_cfg2dfta_forgets_context); unsupported top-level tokens raise (C05_unsupported_topmost); the model "
         "never runs out of fuel (C05_sharpen_text).  Parser: parse(show p) = documented meaning for every function pattern of any nesting, both "
         "count spellings, sub-tree rules, complements and variables (C05_parser_roundtrip, _rule, _denotation, _unknown_symbol; "
         "C05_parser_pinned_refuted for the silent drops fixed in /repo).  Each run compares the extracted model with parse_specification on 600 "
         "strings and with add_dfta_constraints + DFTA.read + DFTAFilter on 120 generated grammar x constraint-set cases against every relaxed "
         "well-typed term up to the depth bound plus too-deep, ill-typed and mutant terms; the repository's own test examples are in the corpus."),
   note=TB + "Depth-bounded CFGs only; ASCII strings with single spaces.  Rule tables and 'added' are modelled as lists with keys proved distinct.  The number of components a pattern adds is computed from the pattern, not from a final state's tuple length (they agree whenever a final state exists; the base grammar is assumed non-empty).  Constraint order is modelled but not observable.  Nested patterns that repeat the head of an enclosing pattern follow the 'every occurrence' reading (the property leaves them open; test_multi_level_hard fails in the baseline for that reason).  ttcfg_constraints.py is not covered.",
   design="5/C05")
NOT_YET = {}
CHECKS["C08"] = dict(
   technique="Coq proof of the grammar-splitter model (prefix nodes, balance loop, specified fragments) + extracted-model/implementation correspondence against a pinned model of the code as found",
   text=("PARTIAL.  Theorems (Props/C08.v, 17, closed under the global context) about the model: prefix nodes are a partition of the derivations with "
         "probabilities summing to 1 at every step of the node-splitting phase (C08_nodes_partition, C08_split_nodes); the REPAIRED balance loop keeps the "
         "groups a partition with exact masses (C08_groups_partition), returns exactly `splits` non-empty groups (C08_groups_nonempty) and the ratio "
         "heaviest / lightest (C08_ratio); the specified fragments are pairwise disjoint, cover the language, carry conditional probabilities summing to 1 "
         "and are non-empty (C08_fragments_*, C08_language, C08_program_*); the node-splitting phase terminates (C08_terminates_partial).  The code as "
         "found is refuted in the model: C08_ratio_refuted, C08_nonempty_refuted, C08_split_in_group_refuted, C08_groups_partition_refuted.  Why partial: "
         "the repository's splitter violates the property on most inputs (seven recorded known findings; the repairs in proposed_fixes/C08-* are not "
         "applied: the only repair of __pcfg_from__ is a rewrite, and the small balance-loop repairs alone make the repository's own splitter tests fail "
         "because the repaired loop reaches groups the defective reconstruction cannot rebuild).  Each run therefore checks that the implementation's "
         "balance loop is EXACTLY the faithful pinned model of the code as found (groups in order with their nodes, masses, ratio, exception class, "
         "non-return matched against the pinned model running out of 1500 iterations) and accepts a failure of the specified observables (partition of "
         "the language, conditional probabilities, programs(), ratio = heaviest/lightest) only as one of the recorded findings; regression corpus: ~170 cases (25 from generated runs, the rest with desired ratio 1000 so that the balance loop is not entered; tools/c08_okcorpus.py) that the "
         "unchanged tree rebuilds correctly under hash seeds 0-3 must stay correct.  __pcfg_from__ is not modelled: its classifier is symptom-based, so the check has little "
         "power against new defects inside it; termination of the repaired balance loop is not proved."),
   note=TB + "Exact dyadic weights only (uniform()/random() float weights are not exercised: a rounding could change the chosen swap); tolerance 1e-9 on fragment probabilities and on the ratio; split() is given 3 s, pinned-model fuel 1500; groups are observed by wrapping __split_into_nodes__; grammars of at most 160 programs.",
   design="5/C08")
def main():
    props = [json.loads(l) for l in open(os.path.join(V, "properties.jsonl"))]
    ids = [p["id"] for p in props]
    m = {
     "version": 1,
     "setup_cmd": "make -C /verif setup",
     "hooks": {"guard": "PROGSYNTH_VERIF", "enable": "checks run /repo's code with PROGSYNTH_VERIF=1 in the environment (no source hook exists: observation is from outside, PYTHONPATH=/repo)",
               "baseline_off_cmd": "cd /repo && /venv/bin/python -m pytest -ra -q -p no:cacheprovider --timeout=900 --continue-on-collection-errors",
               "source_commits": [], "add_only": True},
     "engines": [{"name": "coq-model+extraction+correspondence", "path": "/verif/check", "serves_properties": sorted(CHECKS),
                  "kind_free_text": "Hand-written Gallina models with machine-checked theorems (coq/theories), extracted to OCaml and run against /repo's implementation on generated cases by harness/lib/core.py"}],
     "checks": [],
     "notes": "See DESIGN.md.  ./check <ID> --tier quick|thorough; replays in /verif/replays/<ID>/; known findings in /verif/known_findings.json.",
     "not_applicable": [],
    }
    for pid in ids:
        if pid in CHECKS:
            c = CHECKS[pid]
            m["checks"].append({
              "property_id": pid, "quick_cmd": "./check %s --tier quick" % pid, "thorough_cmd": "./check %s --tier thorough" % pid,
              "evidence_file": "/verif/evidence/%s.json" % pid, "replay_cmd_template": "./check %s --replay {path}" % pid,
              "engine": "coq-model+extraction+correspondence",
              "level_claimed": {"category": "proof", "text": c["text"], "design_ref": c["design"]},
              "level_note": c["note"], "technique": c["technique"]})
        else:
            m["not_applicable"].append({"property_id": pid, "reason": NOT_YET.get(pid, "not claimed yet: the Coq model and correspondence check for this property are not built at this commit (the technique applies; see DESIGN.md section 5)")})
    json.dump(m, open(os.path.join(V, "MANIFEST.json"), "w"), indent=1)
if __name__ == "__main__":
    main()
