"""Grows the regression corpus of C08: generates splitter cases whose desired ratio is so
large that the (defective) balance loop is never entered, runs them on the CURRENT /repo
under four hash seeds and records those whose fragments are rebuilt correctly (no
difference at all with the specification) as corpus cases flagged expect_ok.  The
classifier of c08_reconstruction_defects refuses these cases, so a later failure of their
fragments is a VIOLATION.  Run by hand on the unchanged tree only; never at check time.
usage: c08_okcorpus.py <number of grammars> <seed>"""
import json, os, random, sys
V = os.path.dirname(os.path.dirname(os.path.abspath(__file__)))
sys.path.insert(0, os.path.join(V, "harness"))
from lib import core          # noqa: E402
from props import c08         # noqa: E402

n, seed = int(sys.argv[1]), int(sys.argv[2])
rng = random.Random(seed)
base = c08.gen(rng, "quick")
seen, cases = set(), []
for c in base:
    gp, wmode, wseed, s, r = c["data"]
    key = json.dumps([gp, wmode, wseed])
    if key in seen:
        continue
    seen.add(key)
    for s2 in rng.sample(range(2, 10), 4):
        cases.append({"kind": c["kind"], "data": [gp, wmode, wseed, s2, 1000.0], "expect_ok": True})
    if len(seen) >= n:
        break
bad, mos, _ = core.evaluate(c08, cases, [0, 1, 2, 3], c08.CASE_TIMEOUT)
badkeys = {core.digest(b[0]) for b in bad}
kept = 0
for c, mo in zip(cases, mos):
    if core.digest(c) in badkeys or not c08.nontrivial(c, mo):
        continue
    s = c08._CACHE.get(core.digest(c), {})
    if s.get("diffs") or not s.get("groups") or len(s.get("groups")) < 2:
        continue
    name = "ok_r1000_%s.json" % core.digest(c)[:10]
    json.dump({"case": c, "why": "recorded as rebuilt correctly by the unchanged tree (desired ratio 1000: the balance loop is not "
               "entered), hash seeds 0-3; tools/c08_okcorpus.py"}, open(os.path.join(V, "corpus", "C08", name), "w"))
    kept += 1
print("candidates", len(cases), "failing or trivial", len(cases) - kept, "kept", kept)
