"""Runs the repository's pinned test-suite (guard off) and reports every test of
BASELINE.json's stable_pass list that did not pass."""
import json, os, subprocess, sys, tempfile
import xml.etree.ElementTree as ET
repo = sys.argv[1] if len(sys.argv) > 1 else "/repo"
base = json.load(open("/root/.vp/BASELINE.json"))
out = tempfile.mktemp(suffix=".xml")
env = dict(os.environ); env.pop("PROGSYNTH_VERIF", None)
p = subprocess.run("cd %s && /venv/bin/python -m pytest -ra -q -p no:cacheprovider --timeout=900 --continue-on-collection-errors --junitxml=%s 2>&1 | tail -5" % (repo, out),
                   shell=True, env=env, stdout=subprocess.PIPE, text=True)
print(p.stdout)
passed = set()
for tc in ET.parse(out).getroot().iter("testcase"):
    if not list(tc):
        passed.add(tc.get("classname") + "::" + tc.get("name"))
missing = [t for t in base["stable_pass"] if t not in passed]
print("stable_pass:", len(base["stable_pass"]), "passed now:", len(base["stable_pass"]) - len(missing))
for m in missing: print("NOT PASSING:", m)
os.unlink(out)
sys.exit(1 if missing else 0)
