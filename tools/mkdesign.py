"""Rebuilds the AS-BUILT block at the top of DESIGN.md from tools/asbuilt.md,
the seeded-change table (seeded/*/meta.json) and tools/asbuilt_late.md."""
import glob, json, os, subprocess
V = os.path.dirname(os.path.dirname(os.path.abspath(__file__)))


def table():
    rows = []
    for d in sorted(glob.glob(os.path.join(V, "seeded", "*-*m[0-9]"))):
        m = json.load(open(os.path.join(d, "meta.json")))
        name = os.path.basename(d)
        checks = ", ".join("%s: %d" % (k, v["violations"]) for k, v in m.get("checks", {}).items())
        clean = lambda x, n: (str(x or ""))[:n].replace("|", "/").replace("\n", " ")
        rows.append("| %s | %s | %s | %s | %s |" % (name, clean(m.get("summary"), 230), clean(m.get("needs_to_manifest"), 200),
                                                    "yes" if m.get("detected") else "**no**", checks))
    head = ["| seeded change | what it does | needs to manifest | detected (quick tier) | VIOLATION lines per check |", "|---|---|---|---|---|"]
    det = sum(1 for r in rows if "| yes |" in r)
    return "\n".join(head + rows) + "\n\n%d of %d kept seeded changes are detected by the quick tier of the listed checks.\n" % (det, len(rows))


def main():
    s = open(os.path.join(V, "DESIGN.md")).read()
    a = s.index("## AS-BUILT STATUS")
    a = s.rfind("\n", 0, s.rfind("-----", 0, a)) + 1
    b = s.index("## 0. One-page summary")
    b = s.rfind("\n", 0, s.rfind("-----", 0, b)) + 1
    block = open(os.path.join(V, "tools", "asbuilt.md")).read()
    late = open(os.path.join(V, "tools", "asbuilt_late.md")).read() if os.path.exists(os.path.join(V, "tools", "asbuilt_late.md")) else "(none)"
    t = table()
    open(os.path.join(V, "seeded", "TABLE.md"), "w").write(t)
    block = block.replace("@@SEEDTABLE@@", t).replace("@@LATE@@", late)
    open(os.path.join(V, "DESIGN.md"), "w").write(s[:a] + block + s[b:])


if __name__ == "__main__":
    main()
