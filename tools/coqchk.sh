#!/bin/sh
# Independent re-check of every compiled property file (and everything it depends on)
# with coqchk; prints the axioms the whole context relies on.  Writes coq/COQCHK.txt.
# Requires a finished build (make -C /verif setup; ./check <ID> compiles Props/<ID>.vo).
cd /verif/coq || exit 2
MODS=""
for f in theories/Props/C*.v; do b=$(basename "$f" .v); [ -f "theories/Props/$b.vo" ] && MODS="$MODS PS.Props.$b"; done
{ echo "coqchk -silent -o -R theories PS$MODS"; date -u; timeout 7200 coqchk -silent -o -R theories PS $MODS 2>&1; echo "exit=$?"; } > COQCHK.txt
tail -25 COQCHK.txt
