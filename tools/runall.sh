#!/bin/sh
# Runs every claimed check (quick tier) sequentially on /repo and prints one line per check.
cd /verif
for id in $(/venv/bin/python -c "import json;print(' '.join(c['property_id'] for c in json.load(open('MANIFEST.json'))['checks']))"); do
  ./check $id --tier ${1:-quick} 2>&1 | grep -v '^WARNING' | grep -v '^KNOWN' | cut -c1-200 | tail -2
done
