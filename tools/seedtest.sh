#!/bin/sh
# usage: tools/seedtest.sh <ID> <patch.diff> [tier]
# Runs ./check <ID> against a scratch worktree of /repo with the patch applied
# (VERIF_REPO), then removes the worktree.  Exit code = the check's.
ID=$1; PATCH=$2; TIER=${3:-quick}
W=/tmp/mut_$$_$ID
git -C /repo worktree add -q --detach "$W" HEAD || exit 3
if ! git -C "$W" apply "$PATCH"; then echo "PATCH DOES NOT APPLY"; git -C /repo worktree remove --force "$W"; exit 4; fi
cd /verif && VERIF_REPO="$W" ./check "$ID" --tier "$TIER" --no-build 2>&1 | grep -v '^WARNING' | cut -c1-300 | tail -6
RC=$?
git -C /repo worktree remove --force "$W"
exit $RC
