"""Re-validates the expect_ok corpus cases of a property on the CURRENT /repo under hash seeds 0-7
and deletes those that do not pass under every seed (or are seed-fragile by construction:
heap search on size-bounded or recursive grammars).  Run by hand on the unchanged tree only."""
import glob, importlib, json, os, sys
V = os.path.dirname(os.path.dirname(os.path.abspath(__file__)))
sys.path.insert(0, os.path.join(V, "harness"))
from lib import core          # noqa: E402
pid = sys.argv[1]
prop = importlib.import_module("props." + pid.lower())
files = sorted(glob.glob(os.path.join(V, "corpus", pid, "ok_*.json")))
cases, keep = [], []
for f in files:
    c = json.load(open(f))["case"]
    g = c.get("grammar", {})
    if isinstance(g, dict) and g.get("kind") in ("size", "inf") and c.get("enum") in ("hs", "hs_bucket"):
        os.remove(f)
        continue
    cases.append(c)
    keep.append(f)
bad, mos, _ = core.evaluate(prop, cases, list(range(8)), prop.CASE_TIMEOUT)
badkeys = {core.digest(b[0]) for b in bad}
n = 0
for f, c in zip(keep, cases):
    if core.digest(c) in badkeys:
        os.remove(f)
        n += 1
print(pid, "validated", len(cases), "removed", n + len(files) - len(keep))
