"""Grows the regression corpus of a property whose known-finding classifiers are shape based
(C02, C03, C12): generates cases, runs them on the CURRENT /repo under hash seeds 0-3 and
records those that pass and are non-trivial, for the enumerators that have recorded findings,
as corpus cases flagged expect_ok.  classify() refuses expect_ok cases, so a later failure on
them is a VIOLATION whatever its shape.  Run by hand on the unchanged tree only, never at check
time.   usage: okcorpus.py <ID> <max cases kept> <seed> [enumerators...]"""
import importlib, json, os, random, sys
V = os.path.dirname(os.path.dirname(os.path.abspath(__file__)))
sys.path.insert(0, os.path.join(V, "harness"))
from lib import core          # noqa: E402

pid, keep_max, seed = sys.argv[1], int(sys.argv[2]), int(sys.argv[3])
enums = set(sys.argv[4:])
prop = importlib.import_module("props." + pid.lower())
rng = random.Random(seed * 7919 + 3)
cases = [c for c in prop.gen(rng, "quick") if not enums or c.get("enum") in enums]
for c in cases:
    c["expect_ok"] = True
bad, mos, _ = core.evaluate(prop, cases, [0, 1, 2, 3], int(os.environ.get("OK_TIMEOUT", prop.CASE_TIMEOUT)))
badkeys = {core.digest(b[0]) for b in bad}
os.makedirs(os.path.join(V, "corpus", pid), exist_ok=True)
kept = 0
per = {}
for c, mo in zip(cases, mos):
    if core.digest(c) in badkeys or mo is None or not prop.nontrivial(c, mo):
        continue
    k = c.get("kind", "")
    if per.get(k, 0) >= 4 or kept >= keep_max:
        continue
    per[k] = per.get(k, 0) + 1
    json.dump({"case": c, "why": "recorded as handled correctly by the unchanged tree under hash seeds 0-3 (tools/okcorpus.py)"},
              open(os.path.join(V, "corpus", pid, "ok_%s.json" % core.digest(c)[:10]), "w"))
    kept += 1
print("candidates", len(cases), "failing", len(badkeys), "kept", kept, per)
