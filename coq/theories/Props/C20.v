(** Property C20: filters compose as predicates; the observational-equivalence
    filter keeps one representative.  Statements only; proofs are in
    Sem/FiltersProofs.v. *)
From Coq Require Import List Bool.
From PS Require Import Base.Prog Sem.Filters Sem.FiltersProofs.
Import ListNotations.

(** Intersection, union, complement on filter objects of any shape. *)
Theorem C20_and : forall env a b, accept env (f_inter a b) = accept env a && accept env b.
Proof. exact accept_inter. Qed.
Print Assumptions C20_and.

Theorem C20_or : forall env a b, accept env (f_union a b) = accept env a || accept env b.
Proof. exact accept_union. Qed.
Print Assumptions C20_or.

Theorem C20_neg : forall env a, accept env (f_neg a) = negb (accept env a).
Proof. exact accept_neg. Qed.
Print Assumptions C20_neg.

(** Any nesting of the operators and of the n-ary constructors. *)
Theorem C20_flatten : forall env e, accept env (build e) = denote env e.
Proof. exact accept_build. Qed.
Print Assumptions C20_flatten.

Theorem C20_reject : forall env e, reject env (build e) = negb (denote env e).
Proof. exact reject_build. Qed.
Print Assumptions C20_reject.

(** The filter's answers on any presentation sequence are those of the
    specification: accepted iff it has a signature and every previously
    accepted program of the same type and signature is the same program. *)
Theorem C20_obseq_char : forall l, obseq_run [] l = spec_run [] l.
Proof. exact obseq_characterisation. Qed.
Print Assumptions C20_obseq_char.

(** Accepted programs are pairwise distinguishable. *)
Theorem C20_obseq_distinct : forall l, Distinct (accepted_after [] l).
Proof. intros l. exact (proj1 (after_invariants l [] Distinct_nil Keyed_nil)). Qed.
Print Assumptions C20_obseq_distinct.

(** Every behaviour seen has an accepted representative. *)
Theorem C20_obseq_represented : forall l p k, In p l -> key_of p = Some k ->
  exists q, In q (accepted_after [] l) /\ key_of q = Some k.
Proof. intros l. exact (after_represented l []). Qed.
Print Assumptions C20_obseq_represented.

(** Presenting an accepted program again accepts it again. *)
Theorem C20_obseq_again : forall l p, In p (accepted_after [] l) -> spec_accept (accepted_after [] l) p = true.
Proof.
  intros l p Hp. destruct (after_invariants l [] Distinct_nil Keyed_nil) as [HD HK].
  exact (spec_accept_again _ p HD Hp (HK p Hp)).
Qed.
Print Assumptions C20_obseq_again.
