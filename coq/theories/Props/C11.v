(** Property C11: program evaluation is compositional and independent of the
    cache and its history.  Statements only; proofs are in Sem/EvalProofs.v.
    All statements are generic in the application function [vapp] (total or
    partial, higher-order), in the table of primitive values and in the set of
    skippable exception classes [skip]. *)
From Coq Require Import NArith List Bool.
From PS Require Import Base.Value Base.Prog Sem.Semantics Sem.Eval Sem.EvalProofs.
Import ListNotations.

(** The reference semantics unfolds as: a leaf is read from the primitive
    table / the input / the constant; an application evaluates its head, then
    its arguments left to right (each innermost first), the first failure
    winning, then applies the head value to the argument values one at a time
    (curried), left to right. *)
Theorem C11_compositional : forall vapp prim_value, compositional_statement vapp prim_value.
Proof. exact compositional. Qed.
Print Assumptions C11_compositional.

(** Head and arguments have values: the result is the curried application. *)
Theorem C11_compositional_values : forall vapp prim_value f args inp fv vs,
  eval_sym prim_value f inp = Ok fv ->
  Forall2 (fun a v => eval_ref vapp prim_value a inp = Ok v) args vs ->
  eval_ref vapp prim_value (PFun f args) inp = apply_all vapp fv vs.
Proof. exact eval_ref_values. Qed.
Print Assumptions C11_compositional_values.

(** The leftmost failing argument (all arguments before it having values)
    decides the outcome; nothing is applied. *)
Theorem C11_first_failure : forall vapp prim_value f l1 a l2 inp fv vs e,
  eval_sym prim_value f inp = Ok fv ->
  Forall2 (fun a v => eval_ref vapp prim_value a inp = Ok v) l1 vs ->
  eval_ref vapp prim_value a inp = Exc e ->
  eval_ref vapp prim_value (PFun f (l1 ++ a :: l2)) inp = Exc e.
Proof. exact eval_ref_first_failure. Qed.
Print Assumptions C11_first_failure.

(** One call of DSLEvaluator.eval on any cache whose tables are correct
    returns the observation of the reference semantics and leaves such a cache. *)
Theorem C11_cached_eq_ref : forall vapp prim_value skip use_cache c p inp,
  cache_inv vapp prim_value skip c ->
  fst (eval_cached vapp prim_value skip use_cache c p inp) = observe skip (eval_ref vapp prim_value p inp) /\
  cache_inv vapp prim_value skip (snd (eval_cached vapp prim_value skip use_cache c p inp)).
Proof. exact eval_cached_correct. Qed.
Print Assumptions C11_cached_eq_ref.

(** Any history of evaluations and cache clearings on a fresh evaluator, cache
    on or off: every evaluation returns what the reference semantics gives for
    that program and input alone. *)
Theorem C11_history_independent : forall vapp prim_value skip use_cache h,
  run_history vapp prim_value skip use_cache [] h = spec_history vapp prim_value skip h.
Proof. exact history_independent. Qed.
Print Assumptions C11_history_independent.

Theorem C11_cache_irrelevant : forall vapp prim_value skip h,
  run_history vapp prim_value skip true [] h = run_history vapp prim_value skip false [] h.
Proof. exact cache_irrelevant. Qed.
Print Assumptions C11_cache_irrelevant.

(** After any history: a value is returned as such, ... *)
Theorem C11_value : forall vapp prim_value skip use_cache h p inp v,
  eval_ref vapp prim_value p inp = Ok v ->
  run_history vapp prim_value skip use_cache [] (h ++ [OEval p inp]) =
  spec_history vapp prim_value skip h ++ [Some (Returned v)].
Proof. exact after_history_value. Qed.
Print Assumptions C11_value.

(** ... a skippable exception gives None, ... *)
Theorem C11_skip : forall vapp prim_value skip use_cache h p inp e,
  eval_ref vapp prim_value p inp = Exc e -> In e skip ->
  run_history vapp prim_value skip use_cache [] (h ++ [OEval p inp]) =
  spec_history vapp prim_value skip h ++ [Some (Returned VNone)].
Proof. exact after_history_skip. Qed.
Print Assumptions C11_skip.

(** ... any other exception propagates. *)
Theorem C11_raise : forall vapp prim_value skip use_cache h p inp e,
  eval_ref vapp prim_value p inp = Exc e -> ~ In e skip ->
  run_history vapp prim_value skip use_cache [] (h ++ [OEval p inp]) =
  spec_history vapp prim_value skip h ++ [Some (Raised e)].
Proof. exact after_history_raise. Qed.
Print Assumptions C11_raise.
