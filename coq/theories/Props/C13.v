(** Property C13: size/occurrence-bounded grammars and products denote the
    stated languages (synth/syntax/grammars/ttcfg.py, det_grammar.py).

    Model: Gram/Ttcfg.v, generic in the state types S (stored in rules) and T
    (threaded through a derivation); Det.v is the instance S = T = sexp
    (C13_det_instance).  Proofs: Gram/TtcfgProofs.v; concrete witnesses:
    Gram/TtcfgWitness.v.  [fixes] selects which of the proposed repairs are
    applied; [pinned] is the unrepaired tree.  Every fuelled function returns
    None when out of fuel; the theorems are about the runs that return. *)
From Coq Require Import ZArith NArith List Bool.
From PS Require Import Base.ListX Base.Sexp Base.Ty Base.Value Base.Prog Gram.Det Gram.Ttcfg Gram.TtcfgProofs Gram.TtcfgWitness.
Import ListNotations.

(** Det.v's membership is the generic one at S = T = sexp, so every theorem
    below applies to Det.v tables. *)
Theorem C13_det_instance : forall tbl (start : gnt sexp sexp) p,
    Det.contains tbl start p = gcontains sexp sexp (of_table sexp sexp sexp_eqb sexp_eqb tbl) start p.
Proof. exact det_contains_generic. Qed.
Print Assumptions C13_det_instance.

(** The information stack of DetGrammar.__contains_rec__ / TTCFG.derive can be
    eliminated: membership is the structural threading [run] of the T state. *)
Theorem C13_membership_structural : forall S T (R : oracle S T) start p,
    gcontains S T R start p = match run S T R start p with Some _ => true | None => false end.
Proof. exact gcontains_run. Qed.
Print Assumptions C13_membership_structural.

(** PRODUCT.  g1 * g2 (paired states, rules paired by symbol, argument lists
    zipped, then clean) contains exactly the programs common to both, for every
    pair of tables with the same start type whose same-symbol rules take
    arguments of the same types ([compat]; decided by [compatb], true of grammars
    compiled from one DSL - the check evaluates it on every pair it multiplies). *)
Theorem C13_product :
  forall (S1 T1 S2 T2 : Type) (seqb1 : S1 -> S1 -> bool) (teqb1 : T1 -> T1 -> bool)
         (seqb2 : S2 -> S2 -> bool) (teqb2 : T2 -> T2 -> bool),
    (forall a b, seqb1 a b = true <-> a = b) -> (forall a b, teqb1 a b = true <-> a = b) ->
    (forall a b, seqb2 a b = true <-> a = b) -> (forall a b, teqb2 a b = true <-> a = b) ->
    forall fuel ord g1 (x1 : gnt S1 T1) g2 (x2 : gnt S2 T2) g p,
      compat S1 T1 S2 T2 (of_table S1 T1 seqb1 teqb1 g1) (of_table S2 T2 seqb2 teqb2 g2) ->
      fst (fst x1) = fst (fst x2) ->
      gmul S1 T1 S2 T2 seqb1 teqb1 seqb2 teqb2 fuel ord g1 x1 g2 x2 = Some g ->
      gcontains (S1 * S2) (T1 * T2) (of_table (S1 * S2) (T1 * T2) (pair_eqb seqb1 seqb2) (pair_eqb teqb1 teqb2) g)
                (mul_start S1 T1 S2 T2 x1 x2) p =
      gcontains S1 T1 (of_table S1 T1 seqb1 teqb1 g1) x1 p && gcontains S2 T2 (of_table S2 T2 seqb2 teqb2 g2) x2 p.
Proof. exact product_language. Qed.
Print Assumptions C13_product.

Theorem C13_product_compatible :
  forall (S1 T1 S2 T2 : Type) (seqb1 : S1 -> S1 -> bool) (teqb1 : T1 -> T1 -> bool)
         (seqb2 : S2 -> S2 -> bool) (teqb2 : T2 -> T2 -> bool),
    (forall a b, seqb1 a b = true <-> a = b) -> (forall a b, teqb1 a b = true <-> a = b) ->
    (forall a b, seqb2 a b = true <-> a = b) -> (forall a b, teqb2 a b = true <-> a = b) ->
    forall g1 g2, compatb S1 T1 S2 T2 g1 g2 = true ->
                  compat S1 T1 S2 T2 (of_table S1 T1 seqb1 teqb1 g1) (of_table S2 T2 seqb2 teqb2 g2).
Proof. exact compatb_sound. Qed.
Print Assumptions C13_product_compatible.

(** ... in particular size_constraint * at_most_k (repaired builders) over one DSL
    and request contains exactly the terms that are sized and have at most k
    occurrences (the compatibility hypothesis is proved for built grammars). *)
Theorem C13_product_of_builders :
  forall (fx : fixes) (P : bparams),
    fx_forbid fx = true -> 2 <= b_ngram P -> fx_taken fx = true -> fx_confkey fx = true ->
    forall fuel ord m prim k g1 g2 g p,
      size_constraint fx fuel ord P m = Some g1 -> at_most_k fx fuel ord P prim k = Some g2 ->
      gmul ctx (nat * nat) ctx nat ctx_eqb nat2_eqb ctx_eqb Nat.eqb fuel ord g1 (size_start P) g2 (occ_start P k) = Some g ->
      (gcontains (ctx * ctx) ((nat * nat) * nat)
                 (of_table (ctx * ctx) ((nat * nat) * nat) (pair_eqb ctx_eqb ctx_eqb) (pair_eqb nat2_eqb Nat.eqb) g)
                 (mul_start ctx (nat * nat) ctx nat (size_start P) (occ_start P k)) p = true <->
       sized (fx_varapp fx) P m p /\ at_most (fx_varapp fx) P prim k p).
Proof. exact size_times_occurrences. Qed.
Print Assumptions C13_product_of_builders.

(** CLEAN preserves the language, for every table, every start symbol and every
    iteration order [ord] of the sets it walks (i.e. every PYTHONHASHSEED). *)
Theorem C13_clean_language :
  forall (S T : Type) (seqb : S -> S -> bool) (teqb : T -> T -> bool),
    (forall a b, seqb a b = true <-> a = b) -> (forall a b, teqb a b = true <-> a = b) ->
    forall (tbl : gtable S T) fuel ord start g' p,
      gclean S T seqb teqb fuel ord tbl start = Some g' ->
      gcontains S T (of_table S T seqb teqb g') start p = gcontains S T (of_table S T seqb teqb tbl) start p.
Proof. exact clean_language. Qed.
Print Assumptions C13_clean_language.

(** "After cleaning every derivation that can be started can be completed" is
    FALSE of clean() as coded (recorded finding c13_clean_dead_ends): DSL
    {q : int -> U -> int, 1 : int}, size 3: the rule q of the start symbol
    survives although no member of the language has head q. *)
Theorem C13_clean_complete_refuted :
  exists P m g q,
    size_constraint all_fixed 200 idord P m = Some g /\
    (exists r, grule_of ctx (nat * nat) (of_table ctx (nat * nat) ctx_eqb nat2_eqb g) (size_start P) q = Some r) /\
    (forall ps, gcontains ctx (nat * nat) (of_table ctx (nat * nat) ctx_eqb nat2_eqb g) (size_start P) (PFun q ps) = false) /\
    gcontains ctx (nat * nat) (of_table ctx (nat * nat) ctx_eqb nat2_eqb g) (size_start P) (PLeaf q) = false /\
    gcomplete ctx (nat * nat) 200 (of_table ctx (nat * nat) ctx_eqb nat2_eqb g) (size_start P) = false.
Proof. exact clean_complete_refuted. Qed.
Print Assumptions C13_clean_complete_refuted.

(** The observable the check uses for that clause is sound: when the dead-end
    enumeration [gdead] of a rule source is empty, every rule applicable at every
    configuration reachable from the start leads to the end marker or to a
    configuration from which the end marker can be reached. *)
Theorem C13_dead_end_checker_sound :
  forall (S T : Type) (R : oracle S T) fuel start,
    gdead S T fuel R start = [] -> complete_from S T R (start, []).
Proof. exact gdead_sound. Qed.
Print Assumptions C13_dead_end_checker_sound.

(** COUNT.  The repaired programs() (pending arguments popped from the left, a
    missing non-terminal counts zero; [gprograms true]: the end-state
    propagation with its memo, as coded) returns the number of distinct members
    of the language - dead ends or not - for every rule source with one entry per
    symbol.  (Members are compared among proper terms: no empty application
    Function(P, []).) *)
Theorem C13_count :
  forall (S T : Type) (seqb : S -> S -> bool) (teqb : T -> T -> bool),
    (forall a b, seqb a b = true <-> a = b) -> (forall a b, teqb a b = true <-> a = b) ->
    forall (R : oracle S T) fuel x n,
      nodup_rules S T R -> gprograms S T seqb teqb true fuel R x = Some n ->
      exists L, NoDup L /\ (forall p, properb p = true -> (In p L <-> gcontains S T R x p = true)) /\
                n = N.of_nat (length L).
Proof. exact programs_language. Qed.
Print Assumptions C13_count.

Theorem C13_count_tables :
  forall (S T : Type) (seqb : S -> S -> bool) (teqb : T -> T -> bool),
    (forall a b, seqb a b = true <-> a = b) -> (forall a b, teqb a b = true <-> a = b) ->
    forall (g : gtable S T) fuel x n,
      table_nodupb S T seqb teqb g = true ->
      count_of S T seqb teqb true fuel (of_table S T seqb teqb g) x = Some n ->
      exists L, NoDup L /\
                (forall p, properb p = true -> (In p L <-> gcontains S T (of_table S T seqb teqb g) x p = true)) /\
                n = N.of_nat (length L).
Proof. exact programs_language_table. Qed.
Print Assumptions C13_count_tables.

(** the memo of __compute__ is a transparent cache: with or without it the same number *)
Theorem C13_count_memo_transparent :
  forall (S T : Type) (seqb : S -> S -> bool) (teqb : T -> T -> bool),
    (forall a b, seqb a b = true <-> a = b) -> (forall a b, teqb a b = true <-> a = b) ->
    forall (R : oracle S T) fuel x n,
      gprograms S T seqb teqb true fuel R x = Some n -> exists f', gcount S T teqb f' R x = Some n.
Proof. exact gprograms_memo_free. Qed.
Print Assumptions C13_count_memo_transparent.

(** ... and the pinned counter does not: 2 for a language of 1 (dead end counted),
    12 for 16 (arity-3 primitive), 1 for the empty language. *)
Theorem C13_count_refuted :
  (exists P m, lang_size pinned P m = Some 1 /\ size_programs pinned false P m = Some 2%N /\
               size_programs all_fixed true P m = Some 1%N) /\
  (exists P m, lang_size pinned P m = Some 16 /\ size_programs pinned false P m = Some 12%N /\
               size_programs all_fixed true P m = Some 16%N) /\
  (exists P m, lang_size pinned P m = Some 0 /\ size_programs pinned false P m = Some 1%N /\
               size_programs all_fixed true P m = Some 0%N).
Proof. exact count_refuted. Qed.
Print Assumptions C13_count_refuted.

(** SIZE.  TTCFG.size_constraint with the proposed repairs (forbidden sets
    compared by name, arguments actually taken charged, visited set keyed by
    configurations; then clean as coded) contains exactly the well-typed terms
    with at most max_size nodes that respect the forbidden patterns, for every
    DSL, forbidden table, request, bound, n_gram >= 2.  [fx_varapp] says whether
    function-typed variables may be applied: the code does not (recorded finding
    c13_no_variable_application), the theorem covers both. *)
Theorem C13_size_language :
  forall (fx : fixes) (P : bparams),
    fx_forbid fx = true -> 2 <= b_ngram P -> fx_taken fx = true -> fx_confkey fx = true ->
    forall fuel ord m g p,
      size_constraint fx fuel ord P m = Some g ->
      (gcontains ctx (nat * nat) (of_table ctx (nat * nat) ctx_eqb nat2_eqb g) (size_start P) p = true <->
       sized (fx_varapp fx) P m p).
Proof. exact size_constraint_language. Qed.
Print Assumptions C13_size_language.

(** OCCURRENCES.  Same for TTCFG.at_most_k. *)
Theorem C13_at_most_k :
  forall (fx : fixes) (P : bparams),
    fx_forbid fx = true -> 2 <= b_ngram P -> fx_confkey fx = true ->
    forall fuel ord prim k g p,
      at_most_k fx fuel ord P prim k = Some g ->
      (gcontains ctx nat (of_table ctx nat ctx_eqb Nat.eqb g) (occ_start P k) p = true <->
       at_most (fx_varapp fx) P prim k p).
Proof. exact at_most_k_language. Qed.
Print Assumptions C13_at_most_k.

(** the rules as a function of the non-terminal (what the builders saturate
    towards) denote the same languages: the model the check compares with *)
Theorem C13_size_rule_function :
  forall (fx : fixes) (P : bparams),
    fx_forbid fx = true -> 2 <= b_ngram P -> fx_taken fx = true ->
    forall m p, gcontains ctx (nat * nat) (size_oracle fx P m) (size_start P) p = true <-> sized (fx_varapp fx) P m p.
Proof. exact size_oracle_language. Qed.
Print Assumptions C13_size_rule_function.

Theorem C13_at_most_k_rule_function :
  forall (fx : fixes) (P : bparams),
    fx_forbid fx = true -> 2 <= b_ngram P ->
    forall prim k p, gcontains ctx nat (occ_oracle fx P prim) (occ_start P k) p = true <-> at_most (fx_varapp fx) P prim k p.
Proof. exact occ_oracle_language. Qed.
Print Assumptions C13_at_most_k_rule_function.

(** with the visited-rule shortcut of the pinned builder (a non-terminal reached
    again with another pending stack is skipped) the grammars are still sound ... *)
Theorem C13_size_sound_with_shortcut :
  forall (fx : fixes) (P : bparams),
    fx_forbid fx = true -> 2 <= b_ngram P -> fx_taken fx = true ->
    forall fuel ord m g p,
      size_constraint fx fuel ord P m = Some g ->
      gcontains ctx (nat * nat) (of_table ctx (nat * nat) ctx_eqb nat2_eqb g) (size_start P) p = true ->
      sized (fx_varapp fx) P m p.
Proof. exact size_constraint_sound. Qed.
Print Assumptions C13_size_sound_with_shortcut.

Theorem C13_at_most_k_sound_with_shortcut :
  forall (fx : fixes) (P : bparams),
    fx_forbid fx = true -> 2 <= b_ngram P ->
    forall fuel ord prim k g p,
      at_most_k fx fuel ord P prim k = Some g ->
      gcontains ctx nat (of_table ctx nat ctx_eqb Nat.eqb g) (occ_start P k) p = true ->
      at_most (fx_varapp fx) P prim k p.
Proof. exact at_most_k_sound. Qed.
Print Assumptions C13_at_most_k_sound_with_shortcut.

(** ... but not complete: f, h : A -> B -> R, g : T -> A, x : T, b : B, size 4 (and
    at most one g): (f (g x) b) is missing, with every other repair applied and
    on the pinned tree. *)
Theorem C13_shortcut_refuted :
  exists P m p, sized true P m p /\ size_in shortcut_only P m p = Some false /\ size_in pinned P m p = Some false /\
                size_in all_fixed P m p = Some true.
Proof. exact shortcut_refuted. Qed.
Print Assumptions C13_shortcut_refuted.

Theorem C13_shortcut_at_most_k_refuted :
  exists P prim k p, at_most true P prim k p /\ occ_in shortcut_only P prim k p = Some false /\
                     occ_in all_fixed P prim k p = Some true.
Proof. exact shortcut_occ_refuted. Qed.
Print Assumptions C13_shortcut_at_most_k_refuted.

(** the pinned builders ignore forbidden patterns ('derivation in forbidden_set'
    compares a Primitive with strings): (+ 1 0) with ("+", 1) forbidding "0" *)
Theorem C13_forbidden_refuted :
  exists P m prim k p, ~ forb_free P None p /\ 2 <= b_ngram P /\
                       size_in pinned P m p = Some true /\ occ_in pinned P prim k p = Some true /\
                       size_in all_fixed P m p = Some false /\ occ_in all_fixed P prim k p = Some false.
Proof. exact forbidden_refuted. Qed.
Print Assumptions C13_forbidden_refuted.

(** the pinned size transition charges a primitive used as a value for the
    arguments it does not take: (map inc 1) has 3 nodes and is not in the size-3 grammar *)
Theorem C13_higher_order_refuted :
  exists P m p, sized true P m p /\ size_in pinned P m p = Some false /\ size_in all_fixed P m p = Some true.
Proof. exact higher_order_refuted. Qed.
Print Assumptions C13_higher_order_refuted.

(** TYPE REQUEST.  The repaired builders report the request they were compiled
    for; the pinned ones the guessed one (bool -> int -> int reported as int). *)
Theorem C13_type_request : forall S T (P : bparams) (raw : gtable S T), reported_request true P raw = b_request P.
Proof. exact @type_request_recorded. Qed.
Print Assumptions C13_type_request.

Theorem C13_type_request_refuted :
  exists P m raw, size_raw pinned 200 P m = Some raw /\ reported_request false P raw <> b_request P /\
                  reported_request true P raw = b_request P.
Proof. exact type_request_refuted. Qed.
Print Assumptions C13_type_request_refuted.
