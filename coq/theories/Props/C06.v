(** Property C06: turning a deterministic tree automaton (or a deterministic
    grammar) into an unambiguous grammar preserves the language and is
    unambiguous.  Statements only; proofs are in Gram/Ucfg*.v.

    Vocabulary (Gram/Ucfg.v, Gram/U.v, Auto/Dfta.v):
    - an automaton [A : dfta sym pst] has primitives/variables as letters and
      Python values (Type objects, ints, tuples) as states; [deterministic A]
      = its rule dict has pairwise distinct keys; [ranked ar A] = every rule of
      letter l has [ar l] arguments (a typed alphabet: ar = arity of the type);
      [mentioned A] = the states occurring in A;
    - [from_DFTA A] / [from_DFTA_ngrams n A] = GOk (starts, tbl): the start
      symbols and rule table that UCFG.from_DFTA / from_DFTA_with_ngrams build
      with the repaired __d2state__ ([from_DFTA_pinned]: with the flattening as
      it is in the code); GFuel = the model's fuel ran out, GErr = the code raises;
    - [ucontains tbl starts p] = [p in ucfg] (stack-threaded, with arity test),
      [uderivations tbl x p] = len(ucfg.reduce_derivations(.., p, start=x)),
      [ucount fuel tbl starts] = ucfg.programs(), [ulanguage] = the list of the
      programs derivable within the fuel, one entry per derivation;
    - [runP A p] / [acceptsP A p] = bottom-up run / acceptance of program p. *)
From Coq Require Import ZArith NArith List Bool.
From PS Require Import Base.ListX Base.Sexp Base.Ty Base.Prog Gram.Det Gram.U Auto.Dfta Auto.DftaBase
  Gram.Ucfg Gram.UcfgBase Gram.UcfgProofs Gram.UcfgLang Gram.UcfgMore Gram.UcfgFinal Gram.UcfgClean.
From PS Require Gram.Cfg Gram.CfgSpec.
Import ListNotations.

(** If the flattening is injective on the states of A, the non-terminal of
    state q derives exactly the programs whose run is q, each (being well
    ranked) in exactly one way. *)
Theorem C06_from_dfta : forall (A : dfta sym pst) (ar : sym -> nat) starts tbl,
  deterministic A -> ranked ar A -> inj_on d2state (mentioned A) ->
  from_DFTA A = GOk (starts, tbl) ->
  forall q x, In q (mentioned A) -> d2state q = Some x -> urules_of tbl x <> None ->
  forall p, ucontains_at tbl x p = option_eqb pst_eqb (runP A p) (Some q)
            /\ (well_ranked ar p = true -> uderivations tbl x p = one_if (option_eqb pst_eqb (runP A p) (Some q))).
Proof. exact c06_from_dfta. Qed.
Print Assumptions C06_from_dfta.

(** Corollary: the grammar contains exactly the programs the automaton accepts;
    its start symbols are the flattened final states, without repetition. *)
Theorem C06_from_dfta_language : forall (A : dfta sym pst) (ar : sym -> nat) starts tbl,
  deterministic A -> ranked ar A -> inj_on d2state (mentioned A) ->
  from_DFTA A = GOk (starts, tbl) ->
  (forall p, ucontains tbl starts p = acceptsP A p)
  /\ NoDup starts /\ (forall x, In x starts <-> exists q, In q (finals A) /\ d2state q = Some x).
Proof. exact c06_from_dfta_language. Qed.
Print Assumptions C06_from_dfta_language.

(** Unambiguity: summed over the start symbols, an accepted program has
    exactly one derivation and a rejected (well ranked) one has none; accepted
    programs are well ranked. *)
Theorem C06_unambiguous : forall (A : dfta sym pst) (ar : sym -> nat) starts tbl,
  deterministic A -> ranked ar A -> inj_on d2state (mentioned A) ->
  from_DFTA A = GOk (starts, tbl) ->
  forall p, (acceptsP A p = true -> well_ranked ar p = true)
            /\ (well_ranked ar p = true ->
                sumnat (map (fun x => uderivations tbl x p) starts) = one_if (acceptsP A p)).
Proof. exact c06_unambiguous. Qed.
Print Assumptions C06_unambiguous.

(** The conversion never runs out of fuel. *)
Theorem C06_from_dfta_total : forall (A : dfta sym pst), from_DFTA A <> GFuel.
Proof. exact c06_from_dfta_total. Qed.
Print Assumptions C06_from_dfta_total.

(** The repaired flattening is injective on the state shapes of the pipeline:
    leaves (Type, payload) whose payload contains no Type object, and, level by
    level, non-empty tuples whose first component is a state of the previous
    level (read_product pairs, minimise classes); it is defined on them. *)
Theorem C06_d2state_injective : forall n q1 q2,
  pshape n q1 -> pshape n q2 -> d2state q1 = d2state q2 -> q1 = q2.
Proof. exact d2state_injective_shapes. Qed.
Print Assumptions C06_d2state_injective.

Theorem C06_d2state_defined : forall n q, pshape n q -> d2state q <> None.
Proof. exact pshape_defined. Qed.
Print Assumptions C06_d2state_defined.

(** The flattening as it is in the code merges two distinct states of such a
    shape (three nested products/minimisations) ... *)
Theorem C06_d2state_collision_refuted :
  exists q1 q2, pshape 5 q1 /\ pshape 5 q2 /\ q1 <> q2
                /\ d2state_pinned q1 = d2state_pinned q2 /\ d2state_pinned q1 <> None.
Proof. exact c06_collision. Qed.
Print Assumptions C06_d2state_collision_refuted.

(** ... and then the grammar contains a program the automaton rejects (the
    repaired conversion does not). *)
Theorem C06_pinned_language_refuted :
  exists (A : dfta sym pst) p, deterministic A /\ acceptsP A p = false
    /\ match from_DFTA_pinned A with GOk g => ucontains (snd g) (fst g) p | _ => false end = true
    /\ match from_DFTA A with GOk g => ucontains (snd g) (fst g) p | _ => true end = false.
Proof. exact c06_pinned_language. Qed.
Print Assumptions C06_pinned_language_refuted.

(** n-gram contexts: for every width the grammar has the same language, the
    same derivation counts (per context-decorated non-terminal and summed over
    the start symbols) and the same enumerated language / programs() as the
    automaton dictates - hence as the plain conversion.  The number of rounds of
    the work-list is the model's fuel; see C06_ngrams_total. *)
Theorem C06_ngrams : forall (A : dfta sym pst) (ar : sym -> nat) n fuel starts tbl,
  deterministic A -> ranked ar A -> inj_on d2state (mentioned A) ->
  from_DFTA_ngrams_with d2state n fuel A = GOk (starts, tbl) ->
  (forall p, ucontains tbl starts p = acceptsP A p)
  /\ (forall p, well_ranked ar p = true ->
                sumnat (map (fun x => uderivations tbl x p) starts) = one_if (acceptsP A p))
  /\ (forall g q x p, In q (mentioned A) -> d2state q = Some x -> urules_of tbl (enc_nnt (g, x)) <> None ->
                      ucontains_at tbl (enc_nnt (g, x)) p = option_eqb pst_eqb (runP A p) (Some q)
                      /\ (well_ranked ar p = true ->
                          uderivations tbl (enc_nnt (g, x)) p = one_if (option_eqb pst_eqb (runP A p) (Some q))))
  /\ (forall (rk : pst -> nat) fuel', acyclic_by rk A -> (forall q, In q (mentioned A) -> rk q < fuel') ->
      ucount fuel' tbl starts = N.of_nat (length (ulanguage fuel' tbl starts))
      /\ NoDup (ulanguage fuel' tbl starts)
      /\ forall p, In p (ulanguage fuel' tbl starts) <-> acceptsP A p = true /\ normal p = true).
Proof. exact c06_ngrams. Qed.
Print Assumptions C06_ngrams.

(** On an acyclic automaton the n-gram work-list never runs out of fuel once the
    fuel exceeds the ranks of the final states (the conversion of the model uses
    number of rules + 2 rounds). *)
Theorem C06_ngrams_total : forall (A : dfta sym pst) (rk : pst -> nat) n fuel,
  inj_on d2state (mentioned A) -> acyclic_by rk A -> (forall q, In q (finals A) -> rk q < fuel) ->
  from_DFTA_ngrams_with d2state n fuel A <> GFuel.
Proof. exact c06_ngrams_total. Qed.
Print Assumptions C06_ngrams_total.

(** from_CFG: same membership as the deterministic grammar, one derivation per member. *)
Theorem C06_from_cfg : forall (P : Cfg.params), CfgSpec.wf_params P = true ->
  forall p, ucontains (snd (from_CFG P)) (fst (from_CFG P)) p = Cfg.contains P p
            /\ (Cfg.contains P p = true ->
                sumnat (map (fun x => uderivations (snd (from_CFG P)) x p) (fst (from_CFG P))) = 1).
Proof. exact from_cfg_correct. Qed.
Print Assumptions C06_from_cfg.

(** Counting: for an acyclic automaton (rank function rk, fuel above every
    rank; programs() uses the number of non-terminals + 1) programs() is the
    length of the enumerated language, which has no repetition and consists of
    exactly the accepted programs (in normal form: no empty application). *)
Theorem C06_count : forall (A : dfta sym pst) (ar : sym -> nat) starts tbl,
  deterministic A -> ranked ar A -> inj_on d2state (mentioned A) ->
  from_DFTA A = GOk (starts, tbl) ->
  forall (rk : pst -> nat) fuel, acyclic_by rk A -> (forall q, In q (mentioned A) -> rk q < fuel) ->
  ucount fuel tbl starts = N.of_nat (length (ulanguage fuel tbl starts))
  /\ NoDup (ulanguage fuel tbl starts)
  /\ forall p, In p (ulanguage fuel tbl starts) <-> acceptsP A p = true /\ normal p = true.
Proof. exact c06_count. Qed.
Print Assumptions C06_count.

(** clean(): whenever the exploration of (stack, non-terminal) pairs returns,
    membership from the (remaining) start symbols is unchanged, for every
    grammar in which every rule has at least one alternative (true of the
    conversions: C06_conversions_nonempty).  PARTIAL: termination of the
    exploration (it does not terminate on recursive grammars) and the
    preservation of programs() by clean are not proved; the correspondence
    compares them on every case. *)
Theorem C06_clean_partial : forall fuel starts tbl starts' tbl', alts_nonempty tbl ->
  clean fuel (starts, tbl) = GOk (starts', tbl') ->
  forall p, ucontains tbl' starts' p = ucontains tbl starts p.
Proof. exact clean_preserves_membership_gen. Qed.
Print Assumptions C06_clean_partial.

(** ... and so is the number of derivations from every start symbol
    (reduce_derivations).  PARTIAL in the same sense (termination not proved). *)
Theorem C06_clean_derivations_partial : forall fuel starts tbl starts' tbl',
  clean fuel (starts, tbl) = GOk (starts', tbl') ->
  forall x p, In x starts -> uderivations tbl' x p = uderivations tbl x p.
Proof. exact clean_preserves_derivations. Qed.
Print Assumptions C06_clean_derivations_partial.

Theorem C06_conversions_nonempty : forall (A : dfta sym pst) n fuel starts tbl,
  (from_DFTA A = GOk (starts, tbl) \/ from_DFTA_ngrams_with d2state n fuel A = GOk (starts, tbl)) -> alts_nonempty tbl.
Proof. exact c06_conversions_nonempty. Qed.
Print Assumptions C06_conversions_nonempty.

(** The hypotheses are satisfiable: a product-shaped acyclic automaton. *)
Theorem C06_instance :
  deterministic Example.aut /\ ranked Example.ar Example.aut /\ inj_on d2state (mentioned Example.aut)
  /\ acyclic_by Example.rk Example.aut /\ from_DFTA Example.aut <> GErr.
Proof. exact c06_instance. Qed.
Print Assumptions C06_instance.
