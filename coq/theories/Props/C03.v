(** Property C03 (best-first order): statements only. *)
From Coq Require Import ZArith QArith List Bool Sorted Permutation.
From PS Require Import Base.Prog Enum.Checker Enum.CheckerProofs.
Import ListNotations.

(** The order checker on exact probabilities decides "non-increasing". *)
Theorem C03_sorted_probabilities : forall l : list Q,
  chain q_ge l = true <-> StronglySorted (fun a b => (b <= a)%Q) l.
Proof. exact sorted_probabilities. Qed.
Print Assumptions C03_sorted_probabilities.

(** The tolerance version used on floating-point enumerators coincides with it at tolerance 0. *)
Theorem C03_tolerance_zero : forall a b, q_ge_tol 0 a b = q_ge a b.
Proof. exact q_ge_tol_zero. Qed.
Print Assumptions C03_tolerance_zero.

(** Integer costs: the checker decides "no element is more than [slack] below an earlier one"
    (slack 0: non-decreasing cost, bee search; slack 2: constant-delay search). *)
Theorem C03_cost_slack_sorted : forall slack l,
  slack_sorted slack None l = true <-> ForallOrdPairs (fun a b => (a <= b + slack)%Z) l.
Proof. exact slack_sorted_spec. Qed.
Print Assumptions C03_cost_slack_sorted.

(** Bucket tuples of one size: the lexicographic comparison is a total preorder
    and the checker decides "non-decreasing". *)
Theorem C03_bucket_refl : forall a, lex_le a a = true.
Proof. exact lex_le_refl. Qed.
Print Assumptions C03_bucket_refl.

Theorem C03_bucket_trans : forall a b c, length a = length b -> length b = length c ->
  lex_le a b = true -> lex_le b c = true -> lex_le a c = true.
Proof. exact lex_le_trans. Qed.
Print Assumptions C03_bucket_trans.

Theorem C03_bucket_total : forall a b, lex_le a b = true \/ lex_le b a = true.
Proof. exact lex_le_total. Qed.
Print Assumptions C03_bucket_total.

Theorem C03_sorted_buckets : forall n (l : list (list Z)),
  Forall (fun v => length v = n) l ->
  chain lex_le l = true <-> StronglySorted (fun a b => lex_le a b = true) l.
Proof. exact sorted_buckets. Qed.
Print Assumptions C03_sorted_buckets.

(** The "consequently" clause: in a sequence sorted by non-increasing key, once
    an element of key k has been produced every element (of the whole
    sequence, e.g. of the language when the sequence is a complete
    enumeration) with a strictly larger key has already been produced. *)
Theorem C03_prefix_complete : forall (X : Type) (key : X -> Q) (out : list X),
  StronglySorted (fun a b => (key b <= key a)%Q) out ->
  forall n p q, In p (firstn n out) -> In q out -> (key p < key q)%Q -> In q (firstn n out).
Proof. exact @prefix_complete. Qed.
Print Assumptions C03_prefix_complete.
