(** Property C19: prediction layers turn any tensor into a normalised,
    consistent grammar.  Statements only; proofs are in NN/PredictProofs.v
    (real-number model, classical reals of the standard library) and
    NN/EncodeProofs.v (discrete layout and encoder, axiom free).

    The theorems are about exact real arithmetic.  The implementation computes
    in float32 (torch) and float64 (numpy): that gap is MEASURED on every run by
    the correspondence check harness/props/c19.py against these closed forms
    evaluated in 60-digit decimal arithmetic; it is not proved. *)
From Coq Require Import Reals List Bool Arith.
From PS Require Import Base.Sexp Base.Prog Gram.Det NN.Encode NN.EncodeProofs NN.Predict NN.PredictProofs.
Import ListNotations.
Local Open Scope R_scope.

(** One non-terminal S, any slice of real logits, any list of derivable
    primitive rules (any finite number, positions in the slice; for a U grammar
    one entry per alternative), nv variables, nc constants, variable
    probability 0 < v < 1, epsilon >= 0 (1e-7 in the code, [eps7]).
    [conf_ok c] = these side conditions plus: S has at least one rule, and
    nv * epsilon < v' / (nv + nc) when S has variables or constants and the
    total_variable_order trick is on (v' = v, or 1 when S has no primitive rule).

    Every weight of the converted grammar, in closed form: primitive rule i gets
    pmass * exp(x_i) / sum_{j derivable} exp(x_j)  (the slice-wise log-softmax
    cancels), the k-th variable v'/(nv+nc) - k*epsilon, every constant
    v'/(nv+nc) - nv*epsilon. *)
Theorem C19_closed_form : forall c, conf_ok c -> weights c = closed c.
Proof. exact weights_closed. Qed.
Print Assumptions C19_closed_form.

Theorem C19_positive : forall c, conf_ok c -> Forall (fun w => 0 < w) (weights c).
Proof. exact weights_positive. Qed.
Print Assumptions C19_positive.

(** sum over all rules of exp(tag) = 1 - delta, where delta is what the epsilon
    trick removes: epsilon * (nv(nv-1)/2 + nv*nc), and 0 when the trick is off
    or S has neither variables nor constants. *)
Theorem C19_normalised : forall c, conf_ok c -> sumR (weights c) = 1 - delta c.
Proof. exact weights_sum. Qed.
Print Assumptions C19_normalised.

Theorem C19_delta_value : forall c,
  delta c = if negb (Nat.eqb (nv c + nc c) 0) && tvo c
            then eps c * (INR (nv c) * (INR (nv c) - 1) / 2 + INR (nv c) * INR (nc c)) else 0.
Proof. exact delta_value. Qed.
Print Assumptions C19_delta_value.

(** without the trick the side condition on v is automatic *)
Theorem C19_normalised_no_trick : forall c,
  0 < vprob c < 1 -> 0 <= eps c -> Forall (fun i => (i < length (slice c))%nat) (idx c) ->
  (idx c <> [] \/ (0 < nv c + nc c)%nat) -> tvo c = false ->
  sumR (weights c) = 1 /\ Forall (fun w => 0 < w) (weights c).
Proof. exact normalised_no_trick. Qed.
Print Assumptions C19_normalised_no_trick.

(** Variables and constants together receive v (minus delta) whenever primitive
    rules exist, the whole mass 1 (minus delta) when S has only variables and
    constants; the primitive rules receive 1 - v, or 1 when S has only primitives. *)
Theorem C19_variable_mass : forall c, conf_ok c ->
  sumR (vc_weights c) = vmass c - delta c /\ sumR (prim_weights c) = pmass c /\
  (idx c <> [] -> (0 < nv c + nc c)%nat -> vmass c = vprob c /\ pmass c = 1 - vprob c) /\
  (idx c = [] -> vmass c = 1 /\ pmass c = 0) /\
  ((nv c + nc c = 0)%nat -> vmass c = 0 /\ pmass c = 1).
Proof. exact variable_mass_cases. Qed.
Print Assumptions C19_variable_mass.

(** U layer: to_prob_u_grammar renormalises after exp, so the weights sum to 1
    exactly, stay positive, and the variable mass becomes (v' - delta)/(1 - delta). *)
Theorem C19_normalised_u : forall c, conf_ok c ->
  sumR (u_weights c) = 1 /\ Forall (fun w => 0 < w) (u_weights c) /\
  u_weights c = map (fun w => w / (1 - delta c)) (closed c) /\
  sumR (map (fun w => w / sumR (weights c)) (vc_weights c)) = (vmass c - delta c) / (1 - delta c).
Proof. exact normalised_u. Qed.
Print Assumptions C19_normalised_u.

(** start symbols of a U grammar *)
Theorem C19_start_normalised : forall zs, zs <> [] ->
  sumR (map exp (start_tags zs)) = 1 /\ Forall (fun w => 0 < w) (map exp (start_tags zs)).
Proof. exact start_normalised. Qed.
Print Assumptions C19_start_normalised.

(** the hypotheses are satisfiable with the code's constants *)
Theorem C19_nonvacuous : conf_ok example_conf /\ sumR (weights example_conf) = 1 - 3 * eps7.
Proof. exact nonvacuous. Qed.
Print Assumptions C19_nonvacuous.

(** Programs.  For any rule table (Gram/Det.v: CFG, TTCFG, any DetGrammar), any
    tags, any program: the log-probability is the sum of the tags along the
    derivation, and exp of it is the probability in the grammar converted with
    exp (both are undefined, None = KeyError, on the same programs). *)
Theorem C19_logprob : forall tbl start (tag : nt -> sym -> R) p,
  option_map exp (log_probability tbl start tag p) = probability tbl start (fun x s => exp (tag x s)) p.
Proof. exact exp_log_probability. Qed.
Print Assumptions C19_logprob.

Theorem C19_logprob_sum : forall tbl start (tag : nt -> sym -> R) p,
  log_probability tbl start tag p =
  option_map (fun d => sumR (map (fun xs => tag (fst xs) (snd xs)) d)) (derivation tbl start p).
Proof. exact log_probability_sum. Qed.
Print Assumptions C19_logprob_sum.

(** U layer: the converted grammar divides the weights of S by Z(S) = 1 - delta(S) *)
Theorem C19_logprob_u : forall tbl start (tag : nt -> sym -> R) (Zs : nt -> R) p,
  (forall x, Zs x <> 0) ->
  probability tbl start (fun x s => exp (tag x s) / Zs x) p =
  option_map (fun d => exp (sumR (map (fun xs => tag (fst xs) (snd xs)) d)) / prodR (map (fun xs => Zs (fst xs)) d))
             (derivation tbl start p).
Proof. exact exp_log_probability_u. Qed.
Print Assumptions C19_logprob_u.

(** reduce_derivations is the left fold over the derivation, for any operator *)
Theorem C19_reduce_is_fold : forall (T : Type) (f : T -> nt -> sym -> T) tbl start init p,
  reduce_derivations f tbl start init p =
  option_map (fun d => fold_left (fun a xs => f a (fst xs) (snd xs)) d init) (derivation tbl start p).
Proof. exact @reduce_is_fold. Qed.
Print Assumptions C19_reduce_is_fold.

(** ... and the derivation exists for every program of the grammar (membership
    as modelled in Gram/Det.v), so none of the statements above is vacuous on the language. *)
Theorem C19_defined_on_language : forall tbl start p,
  Det.contains tbl start p = true -> exists d, derivation tbl start p = Some d.
Proof. exact derivation_defined. Qed.
Print Assumptions C19_defined_on_language.

(** The encoder.  For any abstraction function, any set of grammars of the
    layer, any grammar tbl among them and any program with a derivation d:
    encode sets exactly the indices of the primitive rules of d; each of them
    has an index; variables and constants have none. *)
Theorem C19_encode : forall (abs : nt -> akey) gs tbl start p d,
  In tbl gs -> derivation tbl start p = Some d ->
  exists m, encode abs gs tbl start p = Some m /\
    (forall i, In i m <-> exists x s, In (x, s) d /\ is_prim s = true /\
                                       index_in (layout abs gs) (abs x) s = Some i) /\
    (forall x s, In (x, s) d -> is_prim s = true ->
                 exists i, index_in (layout abs gs) (abs x) s = Some i /\ In i m) /\
    (forall x s, In (x, s) d -> is_prim s = false -> index_in (layout abs gs) (abs x) s = None).
Proof. exact encode_exact. Qed.
Print Assumptions C19_encode.

Theorem C19_encode_vector : forall (abs : nt -> akey) gs tbl start p m,
  encode abs gs tbl start p = Some m ->
  exists v, encode_vec abs gs tbl start p = Some v /\ length v = output_size abs gs /\
            forall i, (i < output_size abs gs)%nat -> (nth_error v i = Some true <-> In i m).
Proof. exact encode_vec_spec. Qed.
Print Assumptions C19_encode_vector.

(** The layout: each (abstraction, primitive) pair has its own index, indices
    fill [0, output_size), a pair has an index iff some non-terminal with that
    abstraction derives the primitive in some grammar of the layer, and the
    output size is the number of distinct pairs. *)
Theorem C19_layout : forall (abs : nt -> akey) gs,
  (forall k s k' s' i, index_in (layout abs gs) k s = Some i -> index_in (layout abs gs) k' s' = Some i ->
                       k = k' /\ s = s') /\
  (forall k s i, index_in (layout abs gs) k s = Some i -> (i < output_size abs gs)%nat) /\
  (forall i, (i < output_size abs gs)%nat -> exists k s, index_in (layout abs gs) k s = Some i) /\
  (forall k s, (exists i, index_in (layout abs gs) k s = Some i) <-> In (k, s) (raw_pairs abs gs)) /\
  (forall l, NoDup l -> (forall ks, In ks l <-> In ks (raw_pairs abs gs)) -> output_size abs gs = length l).
Proof. exact layout_bijection. Qed.
Print Assumptions C19_layout.

(** U layers: one extra entry per distinct abstraction of a start symbol, after the slices *)
Theorem C19_start_entries : forall (abs : nt -> akey) gs starts x,
  In x starts ->
  exists i, start_index abs gs starts x = Some i /\
            (output_size abs gs <= i < u_output_size abs gs starts)%nat /\
            nth_error (start_keys abs starts) (i - output_size abs gs) = Some (abs x).
Proof. exact start_entries. Qed.
Print Assumptions C19_start_entries.
