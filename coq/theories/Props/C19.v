(** Property C19: prediction layers turn any tensor into a normalised,
    consistent grammar.  Statements only; proofs are in NN/PredictProofs.v
    (real-number model, classical reals of the standard library) and
    NN/EncodeProofs.v (discrete layout and encoder, axiom free).

    The theorems are about exact real arithmetic.  The implementation computes
    in float32 (torch) and float64 (numpy): that gap is MEASURED on every run by
    the correspondence check harness/props/c19.py against these closed forms
    evaluated in 60-digit decimal arithmetic; it is not proved. *)
From Coq Require Import Reals List Bool Arith.
From PS Require Import Base.Sexp Base.Prog Gram.Det Gram.U NN.Encode NN.EncodeProofs NN.Predict NN.PredictProofs
     NN.EncodeU NN.EncodeUProofs NN.PredictU NN.PredictUProofs.
Import ListNotations.
Local Open Scope R_scope.

(** One non-terminal S, any slice of real logits, any list of derivable
    primitive rules (any finite number, positions in the slice; for a U grammar
    one entry per alternative), nv variables, nc constants, variable
    probability 0 < v < 1, epsilon >= 0 (1e-7 in the code, [eps7]).
    [conf_ok c] = these side conditions plus: S has at least one rule, and
    nv * epsilon < v' / (nv + nc) when S has variables or constants and the
    total_variable_order trick is on (v' = v, or 1 when S has no primitive rule).

    Every weight of the converted grammar, in closed form: primitive rule i gets
    pmass * exp(x_i) / sum_{j derivable} exp(x_j)  (the slice-wise log-softmax
    cancels), the k-th variable v'/(nv+nc) - k*epsilon, every constant
    v'/(nv+nc) - nv*epsilon. *)
Theorem C19_closed_form : forall c, conf_ok c -> weights c = closed c.
Proof. exact weights_closed. Qed.
Print Assumptions C19_closed_form.

Theorem C19_positive : forall c, conf_ok c -> Forall (fun w => 0 < w) (weights c).
Proof. exact weights_positive. Qed.
Print Assumptions C19_positive.

(** sum over all rules of exp(tag) = 1 - delta, where delta is what the epsilon
    trick removes: epsilon * (nv(nv-1)/2 + nv*nc), and 0 when the trick is off
    or S has neither variables nor constants. *)
Theorem C19_normalised : forall c, conf_ok c -> sumR (weights c) = 1 - delta c.
Proof. exact weights_sum. Qed.
Print Assumptions C19_normalised.

Theorem C19_delta_value : forall c,
  delta c = if negb (Nat.eqb (nv c + nc c) 0) && tvo c
            then eps c * (INR (nv c) * (INR (nv c) - 1) / 2 + INR (nv c) * INR (nc c)) else 0.
Proof. exact delta_value. Qed.
Print Assumptions C19_delta_value.

(** without the trick the side condition on v is automatic *)
Theorem C19_normalised_no_trick : forall c,
  0 < vprob c < 1 -> 0 <= eps c -> Forall (fun i => (i < length (slice c))%nat) (idx c) ->
  (idx c <> [] \/ (0 < nv c + nc c)%nat) -> tvo c = false ->
  sumR (weights c) = 1 /\ Forall (fun w => 0 < w) (weights c).
Proof. exact normalised_no_trick. Qed.
Print Assumptions C19_normalised_no_trick.

(** Variables and constants together receive v (minus delta) whenever primitive
    rules exist, the whole mass 1 (minus delta) when S has only variables and
    constants; the primitive rules receive 1 - v, or 1 when S has only primitives. *)
Theorem C19_variable_mass : forall c, conf_ok c ->
  sumR (vc_weights c) = vmass c - delta c /\ sumR (prim_weights c) = pmass c /\
  (idx c <> [] -> (0 < nv c + nc c)%nat -> vmass c = vprob c /\ pmass c = 1 - vprob c) /\
  (idx c = [] -> vmass c = 1 /\ pmass c = 0) /\
  ((nv c + nc c = 0)%nat -> vmass c = 0 /\ pmass c = 1).
Proof. exact variable_mass_cases. Qed.
Print Assumptions C19_variable_mass.

(** U layer: to_prob_u_grammar renormalises after exp, so the weights sum to 1
    exactly, stay positive, and the variable mass becomes (v' - delta)/(1 - delta). *)
Theorem C19_normalised_u : forall c, conf_ok c ->
  sumR (u_weights c) = 1 /\ Forall (fun w => 0 < w) (u_weights c) /\
  u_weights c = map (fun w => w / (1 - delta c)) (closed c) /\
  sumR (map (fun w => w / sumR (weights c)) (vc_weights c)) = (vmass c - delta c) / (1 - delta c).
Proof. exact normalised_u. Qed.
Print Assumptions C19_normalised_u.

(** start symbols of a U grammar *)
Theorem C19_start_normalised : forall zs, zs <> [] ->
  sumR (map exp (start_tags zs)) = 1 /\ Forall (fun w => 0 < w) (map exp (start_tags zs)).
Proof. exact start_normalised. Qed.
Print Assumptions C19_start_normalised.

(** the hypotheses are satisfiable with the code's constants *)
Theorem C19_nonvacuous : conf_ok example_conf /\ sumR (weights example_conf) = 1 - 3 * eps7.
Proof. exact nonvacuous. Qed.
Print Assumptions C19_nonvacuous.

(** Programs.  For any rule table (Gram/Det.v: CFG, TTCFG, any DetGrammar), any
    tags, any program: the log-probability is the sum of the tags along the
    derivation, and exp of it is the probability in the grammar converted with
    exp (both are undefined, None = KeyError, on the same programs). *)
Theorem C19_logprob : forall tbl start (tag : nt -> sym -> R) p,
  option_map exp (log_probability tbl start tag p) = probability tbl start (fun x s => exp (tag x s)) p.
Proof. exact exp_log_probability. Qed.
Print Assumptions C19_logprob.

Theorem C19_logprob_sum : forall tbl start (tag : nt -> sym -> R) p,
  log_probability tbl start tag p =
  option_map (fun d => sumR (map (fun xs => tag (fst xs) (snd xs)) d)) (derivation tbl start p).
Proof. exact log_probability_sum. Qed.
Print Assumptions C19_logprob_sum.

(** U layer: the converted grammar divides the weights of S by Z(S) = 1 - delta(S) *)
Theorem C19_logprob_u : forall tbl start (tag : nt -> sym -> R) (Zs : nt -> R) p,
  (forall x, Zs x <> 0) ->
  probability tbl start (fun x s => exp (tag x s) / Zs x) p =
  option_map (fun d => exp (sumR (map (fun xs => tag (fst xs) (snd xs)) d)) / prodR (map (fun xs => Zs (fst xs)) d))
             (derivation tbl start p).
Proof. exact exp_log_probability_u. Qed.
Print Assumptions C19_logprob_u.

(** reduce_derivations is the left fold over the derivation, for any operator *)
Theorem C19_reduce_is_fold : forall (T : Type) (f : T -> nt -> sym -> T) tbl start init p,
  reduce_derivations f tbl start init p =
  option_map (fun d => fold_left (fun a xs => f a (fst xs) (snd xs)) d init) (derivation tbl start p).
Proof. exact @reduce_is_fold. Qed.
Print Assumptions C19_reduce_is_fold.

(** ... and the derivation exists for every program of the grammar (membership
    as modelled in Gram/Det.v), so none of the statements above is vacuous on the language. *)
Theorem C19_defined_on_language : forall tbl start p,
  Det.contains tbl start p = true -> exists d, derivation tbl start p = Some d.
Proof. exact derivation_defined. Qed.
Print Assumptions C19_defined_on_language.

(** The encoder.  For any abstraction function, any set of grammars of the
    layer, any grammar tbl among them and any program with a derivation d:
    encode sets exactly the indices of the primitive rules of d; each of them
    has an index; variables and constants have none. *)
Theorem C19_encode : forall (abs : nt -> akey) gs tbl start p d,
  In tbl gs -> derivation tbl start p = Some d ->
  exists m, encode abs gs tbl start p = Some m /\
    (forall i, In i m <-> exists x s, In (x, s) d /\ is_prim s = true /\
                                       index_in (layout abs gs) (abs x) s = Some i) /\
    (forall x s, In (x, s) d -> is_prim s = true ->
                 exists i, index_in (layout abs gs) (abs x) s = Some i /\ In i m) /\
    (forall x s, In (x, s) d -> is_prim s = false -> index_in (layout abs gs) (abs x) s = None).
Proof. exact encode_exact. Qed.
Print Assumptions C19_encode.

Theorem C19_encode_vector : forall (abs : nt -> akey) gs tbl start p m,
  encode abs gs tbl start p = Some m ->
  exists v, encode_vec abs gs tbl start p = Some v /\ length v = output_size abs gs /\
            forall i, (i < output_size abs gs)%nat -> (nth_error v i = Some true <-> In i m).
Proof. exact encode_vec_spec. Qed.
Print Assumptions C19_encode_vector.

(** The layout: each (abstraction, primitive) pair has its own index, indices
    fill [0, output_size), a pair has an index iff some non-terminal with that
    abstraction derives the primitive in some grammar of the layer, and the
    output size is the number of distinct pairs. *)
Theorem C19_layout : forall (abs : nt -> akey) gs,
  (forall k s k' s' i, index_in (layout abs gs) k s = Some i -> index_in (layout abs gs) k' s' = Some i ->
                       k = k' /\ s = s') /\
  (forall k s i, index_in (layout abs gs) k s = Some i -> (i < output_size abs gs)%nat) /\
  (forall i, (i < output_size abs gs)%nat -> exists k s, index_in (layout abs gs) k s = Some i) /\
  (forall k s, (exists i, index_in (layout abs gs) k s = Some i) <-> In (k, s) (raw_pairs abs gs)) /\
  (forall l, NoDup l -> (forall ks, In ks l <-> In ks (raw_pairs abs gs)) -> output_size abs gs = length l).
Proof. exact layout_bijection. Qed.
Print Assumptions C19_layout.

(** U layers: one extra entry per distinct abstraction of a start symbol, after the slices *)
Theorem C19_start_entries : forall (abs : nt -> akey) gs starts x,
  In x starts ->
  exists i, start_index abs gs starts x = Some i /\
            (output_size abs gs <= i < u_output_size abs gs starts)%nat /\
            nth_error (start_keys abs starts) (i - output_size abs gs) = Some (abs x).
Proof. exact start_entries. Qed.
Print Assumptions C19_start_entries.

(** ======== U layers on unambiguous grammars with several alternatives per
    (non-terminal, primitive) and several start symbols (rule tables of
    Gram/U.v: UCFG.from_DFTA, from_DFTA_with_ngrams, hand-built UCFG) ======== *)

(** The layer tags every alternative of a primitive P of S with the same slice
    entry: [idx c = alts_idx l] lists the position of P once per alternative
    (l = (position, number of alternatives) per primitive rule of S).  Every
    alternative of P gets  pmass * exp(x_P) / sum over ALL derivable
    (P', alternative') of exp(x_P')  (the normaliser counts a primitive once per
    alternative), variables and constants as in C19_closed_form with nv / nc =
    the numbers of (variable, alternative) / (constant, alternative) entries of S
    (a function-typed variable can have several); these sum to pmass; the
    converted grammar divides by 1 - delta.  C19_positive, C19_normalised,
    C19_variable_mass, C19_normalised_u hold as they are (any idx, nv, nc). *)
Theorem C19_closed_form_alts : forall c l, conf_ok c -> idx c = alts_idx l ->
  weights c = closed_alts c l ++ closed_vc c /\
  u_weights c = map (fun w => w / (1 - delta c)) (closed_alts c l ++ closed_vc c) /\
  sumR (closed_alts c l) = pmass c /\
  alts_sum (slice c) l = sumR (map (fun i => exp (nth i (slice c) 0)) (idx c)).
Proof. exact closed_form_alts. Qed.
Print Assumptions C19_closed_form_alts.

(** satisfiable: S -> + (two alternatives) | 1 | var0, v = 1/4, slice [1; 7; -2] *)
Theorem C19_alts_nonvacuous :
  (conf_ok example_conf_alts /\ idx example_conf_alts = [0; 0; 2]%nat) /\
  nth 0 (weights example_conf_alts) 0 = (3 / 4) * exp 1 / (2 * exp 1 + exp (-2)) /\
  nth 3 (weights example_conf_alts) 0 = 1 / 4.
Proof. exact alts_nonvacuous. Qed.
Print Assumptions C19_alts_nonvacuous.

(** several start symbols: exp of the start tags, also after to_prob_u_grammar's
    normalise, is the softmax of the start entries selected for the grammar *)
Theorem C19_start_softmax : forall zs, zs <> [] ->
  map exp (start_tags zs) = softmax zs /\ normalise (map exp (start_tags zs)) = softmax zs /\
  sumR (softmax zs) = 1 /\ Forall (fun w => 0 < w) (softmax zs).
Proof. exact start_softmax. Qed.
Print Assumptions C19_start_softmax.

(** Programs.  x = the first start symbol that derives p, d = its first derivation
    from x (steps (S, P, alternative) in pre-order; the only derivation when the
    grammar is unambiguous).  log_probability(p) = start tag of x + sum of the
    tags along d (repaired code, see NN/PredictU.v); the grammar converted with
    exp and renormalised by Z(S) gives exp(start tag) * prod exp(tag)/Z(S);
    with an explicit start symbol the start tag is left out on both sides. *)
Theorem C19_logprob_multi :
  forall tbl (stag : unt -> R) (tag : unt -> sym -> ualt -> R) (Zs : unt -> R) starts p x d rest,
  (forall y, Zs y <> 0) ->
  find (fun y => ucontains_at tbl y p) starts = Some x ->
  uderivations_from tbl x p = d :: rest ->
  ulog_probability tbl stag tag starts p = Some (stag x + sumR (map (tag_of tag) d)) /\
  uprobability_R tbl (fun y => exp (stag y)) (fun y s a => exp (tag y s a) / Zs y) starts p
  = exp (stag x + sumR (map (tag_of tag) d)) / prodR (map (fun st => Zs (nt_of_step st)) d) /\
  uprobability_at_R tbl (fun y s a => exp (tag y s a)) x p = exp (sumR (map (tag_of tag) d)) /\
  ulog_probability_at tbl tag x p = Some (sumR (map (tag_of tag) d)).
Proof. exact ulogprob_multi. Qed.
Print Assumptions C19_logprob_multi.

Theorem C19_exp_logprob_multi :
  forall tbl (stag : unt -> R) (tag : unt -> sym -> ualt -> R) starts p x d rest,
  find (fun y => ucontains_at tbl y p) starts = Some x ->
  uderivations_from tbl x p = d :: rest ->
  option_map exp (ulog_probability tbl stag tag starts p)
  = Some (uprobability_R tbl (fun y => exp (stag y)) (fun y s a => exp (tag y s a)) starts p).
Proof. exact uexp_log_probability. Qed.
Print Assumptions C19_exp_logprob_multi.

(** not vacuous on the language: a program of the grammar (membership of
    Gram/U.v, arities agreeing with the rules) has such an x and d; outside the
    language the probability is 0 *)
Theorem C19_u_defined_on_language : forall tbl starts p,
  ucontains tbl starts p = true -> (forall y, In y starts -> shape_ok tbl y p = true) ->
  exists x d rest, find (fun y => ucontains_at tbl y p) starts = Some x /\ uderivations_from tbl x p = d :: rest.
Proof. exact ulogprob_defined. Qed.
Print Assumptions C19_u_defined_on_language.

Theorem C19_u_outside_zero : forall tbl sw w starts p,
  ucontains tbl starts p = false -> uprobability_R tbl sw w starts p = 0.
Proof. exact uprobability_R_outside. Qed.
Print Assumptions C19_u_outside_zero.

(** the derivations: as many as Gram/U.v counts, made of rules and alternatives
    of the table; reduce_derivations is one left fold per derivation *)
Theorem C19_u_derivations : forall tbl starts x p,
  length (uderivations_from tbl x p) = uderivations tbl x p /\
  (forall d, In d (uderivations_all tbl starts p) -> Forall (step_ok tbl) d) /\
  (forall (T : Type) (f : T -> unt -> sym -> ualt -> T) init,
      ureduce f tbl starts init p = map (ufold f init) (uderivations_all tbl starts p)).
Proof. exact u_derivations_facts. Qed.
Print Assumptions C19_u_derivations.

(** The encoder of the U layer: marks exactly the primitive steps of the
    derivations; every primitive step has an index (the same for all the
    alternatives of the primitive); variables and constants have none. *)
Theorem C19_u_encode : forall (abs : unt -> akey) gs tbl starts p,
  In tbl gs ->
  (forall i, In i (uencode abs gs tbl starts p) <->
             exists d x s alt, In d (uderivations_all tbl starts p) /\ In (x, s, alt) d /\ is_prim s = true /\
                               uindex abs gs x s = Some i) /\
  (forall d x s alt, In d (uderivations_all tbl starts p) -> In (x, s, alt) d -> is_prim s = true ->
                     exists i, uindex abs gs x s = Some i /\ In i (uencode abs gs tbl starts p)) /\
  (forall x s, is_prim s = false -> uindex abs gs x s = None).
Proof. exact uencode_exact. Qed.
Print Assumptions C19_u_encode.

Theorem C19_u_encode_unique : forall (abs : unt -> akey) gs tbl starts p d,
  In tbl gs -> uderivations_all tbl starts p = [d] ->
  forall i, In i (uencode abs gs tbl starts p) <->
            exists x s alt, In (x, s, alt) d /\ is_prim s = true /\ uindex abs gs x s = Some i.
Proof. exact uencode_unique. Qed.
Print Assumptions C19_u_encode_unique.

(** The layout of the U layer: one index per (abstraction, primitive) pair of the
    tables, whatever the number of alternatives; indices fill [0, slice size). *)
Theorem C19_u_layout : forall (abs : unt -> akey) gs,
  (forall k s k' s' i, index_in (ulayout abs gs) k s = Some i -> index_in (ulayout abs gs) k' s' = Some i ->
                       k = k' /\ s = s') /\
  (forall k s i, index_in (ulayout abs gs) k s = Some i -> (i < uslice_size abs gs)%nat) /\
  (forall i, (i < uslice_size abs gs)%nat -> exists k s, index_in (ulayout abs gs) k s = Some i) /\
  (forall k s, (exists i, index_in (ulayout abs gs) k s = Some i) <->
               exists tbl x rs alts, In tbl gs /\ In (x, rs) tbl /\ In (s, alts) rs /\ is_prim s = true /\ k = abs x).
Proof. exact ulayout_bijection. Qed.
Print Assumptions C19_u_layout.

(** one extra entry per distinct abstraction of a start symbol (all the start
    symbols of all the grammars of the layer), after the slices *)
Theorem C19_u_start_entries : forall (abs : unt -> akey) gs starts x,
  In x starts ->
  exists i, ustart_index abs gs starts x = Some i /\
            (uslice_size abs gs <= i < uoutput_size abs gs starts)%nat /\
            nth_error (ustart_keys abs starts) (i - uslice_size abs gs) = Some (abs x).
Proof. exact ustart_entries. Qed.
Print Assumptions C19_u_start_entries.

(** the grammar of the regression that escaped the previous version of this
    check (S -> + | C0 V1 | V0 C1): one derivation per program, both
    alternatives of + share one index *)
Theorem C19_u_example :
  uderivations_all UEncExample.tbl [UEncExample.root] UEncExample.p1
  = [[(UEncExample.root, UEncExample.plus, [UEncExample.C0; UEncExample.V1]);
      (UEncExample.C0, UEncExample.one, []); (UEncExample.V1, UEncExample.var0, [])]] /\
  uencode abs_bigram_u [UEncExample.tbl] UEncExample.tbl [UEncExample.root] UEncExample.p1 = [0; 2]%nat /\
  uencode abs_bigram_u [UEncExample.tbl] UEncExample.tbl [UEncExample.root] UEncExample.p2 = [0; 4; 6]%nat.
Proof. exact u_example. Qed.
Print Assumptions C19_u_example.
