(** Property C15: textual types and programs parse to the objects they denote.
    Statements only; proofs are in Syn/TypeParserProofs.v and Syn/ProgParserProofs.v. *)
From Coq Require Import NArith List Bool Arith.
From PS Require Import Base.Ty Base.Value Base.Prog Syn.TypeParser Syn.TypeParserProofs
  Syn.ProgParser Syn.ProgResolve Syn.ProgParserProofs.
Import ListNotations.

(** Every well-formed expression of the documented notation (names, 'a, 'a[...],
    parentheses, postfix generics and optional, unions, right-nested arrows), with
    any number of blanks wherever the notation allows them and around the whole
    text, parses to the type it denotes. *)
Theorem C15_type_expr : forall e k1 k2, wf e = true ->
  auto_type (spaces k1 ++ render e ++ spaces k2) = Ok (denote e).
Proof. exact auto_type_expr. Qed.
Print Assumptions C15_type_expr.

(** Every documented type object, printed under any style (blanks, redundant
    parentheses), parses back to itself. *)
Theorem C15_type_roundtrip : forall sy t k1 k2, documented t = true ->
  auto_type (spaces k1 ++ show_type sy t ++ spaces k2) = Ok t.
Proof. exact show_type_roundtrip. Qed.
Print Assumptions C15_type_roundtrip.

(** a1 -> a2 -> ... -> an -> r  is  Arrow a1 (Arrow a2 (... (Arrow an r))). *)
Theorem C15_function_type : forall args r k1 k2,
  forallb (fun x => wf (fst x) && (level (fst x) <=? 1)%nat) args = true -> wf r = true ->
  auto_type (spaces k1 ++ render (arrow_chain args r) ++ spaces k2)
  = Ok (function_type (map (fun x => denote (fst x)) args) (denote r)).
Proof. exact auto_type_function. Qed.
Print Assumptions C15_function_type.

(** The fuel the model gives itself is always enough (every failure of the model
    is a failure of the parser, never an artefact of the fuel). *)
Theorem C15_type_parser_total : forall fx el, auto_type_gen fx el <> OutOfFuel.
Proof. exact auto_type_gen_fuel. Qed.
Print Assumptions C15_type_parser_total.

(** The tokenizer as pinned (before proposed fix C15-1) returns a wrong type,
    silently, on documented notation. *)
Theorem C15_type_pinned_refuted :
  exists e, wf e = true /\ auto_type_pinned (render e) <> Ok (denote e) /\ auto_type_pinned (render e) <> Err.
Proof. exact pinned_refuted. Qed.
Print Assumptions C15_type_pinned_refuted.

(** ** Programs *)

(** The printed form of a well-formed applicative program (any arity, partial
    applications, function-typed variables, valued constants whose printed form
    is one token that is neither a primitive name nor var<i>), parsed with the
    type request and a table of constants keyed by printed form, is the program
    in which every primitive is replaced by the FIRST primitive of the DSL with
    that name.  [sv] is Python's format(value), arbitrary. *)
Theorem C15_program_resolved : forall sv d request cs p,
  wfp sv d request cs p -> consts_canonical sv cs ->
  parse_program sv d request cs true (show_prog sv p) = Ok (resolve d p).
Proof. exact parse_show. Qed.
Print Assumptions C15_program_resolved.

(** With unique primitive names and the program's primitives taken from the DSL:
    the program itself, hence an equal program of the same type. *)
Theorem C15_program_roundtrip : forall sv d request cs p,
  names_unique d -> wfp sv d request cs p -> prims_in d p -> consts_canonical sv cs ->
  exists q, parse_program sv d request cs true (show_prog sv p) = Ok q /\ q = p /\ ptype q = ptype p.
Proof. exact parse_show_unique_typed. Qed.
Print Assumptions C15_program_roundtrip.

(** Expected finding: [names_unique] cannot be dropped.  The parser resolves a
    primitive by name only, so over a DSL with one name at two types (every
    polymorphic primitive after instantiate_polymorphic_types) a printed program
    parses back to a different program. *)
Theorem C15_same_name_refuted :
  exists d request p p',
    wfp py_str_value d request [] p /\ prims_in d p /\
    parse_program py_str_value d request [] true (show_prog py_str_value p) = Ok p' /\ p' <> p.
Proof. exact same_name_refuted. Qed.
Print Assumptions C15_same_name_refuted.

(** The fuel of the program parser model is always sufficient. *)
Theorem C15_program_parser_total : forall sv d request cs check text,
  parse_program sv d request cs check text <> OutOfFuel.
Proof. exact parse_program_total. Qed.
Print Assumptions C15_program_parser_total.
