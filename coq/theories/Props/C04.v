(** Property C04: probabilistic grammars define a probability distribution over
    their language.  Statements only; proofs are in Gram/DetProofs.v and
    Gram/UProofs.v.  Probabilities are exact rationals, == is Qeq. *)
From Coq Require Import QArith List Bool Permutation.
From PS Require Import Base.ListX Base.Prog Gram.Det Gram.DetProofs Gram.U Gram.UProofs.
Import ListNotations.

(** ** Deterministic / tree-traversing grammars (DetGrammar, TTCFG, CFG, ProbDetGrammar) *)

(** The stack-threaded membership traversal is the structural derivation
    [der_out] (T state threaded left to right through the arguments). *)
Theorem C04_det_threading : forall tbl p x info,
  contains_rec tbl p (At x) info = option_map (next info) (der_out tbl x p).
Proof. exact contains_rec_der_out. Qed.
Print Assumptions C04_det_threading.

(** Inside the language probability() is the product of the weights of the
    rules of the derivation: P(x, f a1 .. ak) = w(x, f) * P(x1, a1) * .. * P(xk, ak),
    xi = i-th argument non-terminal of the rule with the T state left by a(i-1)
    ([sprob]; its recursion equations are the next two statements). *)
Theorem C04_det_probability : forall tbl w x p,
  contains tbl x p = true -> probability tbl w x p == sprob tbl w x p.
Proof. exact probability_member. Qed.
Print Assumptions C04_det_probability.

Theorem C04_det_product_app : forall tbl w x f ps,
  sprob tbl w x (PFun f ps) =
  match rule_of tbl x f with
  | Some r => wt w x f * thread_prob (der_out tbl) (sprob tbl w) ps (fst r) (snd r)
  | None => 0
  end.
Proof. exact sprob_fun. Qed.
Print Assumptions C04_det_product_app.

Theorem C04_det_product_args : forall tbl w a ar t s antr y,
  thread_prob (der_out tbl) (sprob tbl w) (a :: ar) ((t, s) :: antr) y =
  sprob tbl w (t, s, y) a *
  match der_out tbl (t, s, y) a with
  | Some y' => thread_prob (der_out tbl) (sprob tbl w) ar antr y'
  | None => 1
  end.
Proof. reflexivity. Qed.
Print Assumptions C04_det_product_args.

(** Outside the language the probability is 0. *)
Theorem C04_outside_zero : forall tbl w x p, contains tbl x p = false -> probability tbl w x p == 0.
Proof. exact probability_outside. Qed.
Print Assumptions C04_outside_zero.

(** The enumerated language has no duplicates and is exactly the set of members
    of depth <= fuel (programs without the empty application Function(P, [])):
    its length is the number of programs of the grammar. *)
Theorem C04_count : forall tbl f x, table_ok tbl = true ->
  NoDup (language f tbl x) /\
  forall p, In p (language f tbl x) <-> contains tbl x p = true /\ (pdepth p <= f)%nat /\ normal p = true.
Proof. intros tbl f x H. split; [apply language_NoDup; auto | intros p; apply language_spec; auto]. Qed.
Print Assumptions C04_count.

(** In a well-formed weighted grammar (every reachable non-terminal has rules,
    positive weights summing to 1, finite within the fuel) no member is deeper
    than the fuel: the enumerated language is the whole language. *)
Theorem C04_language_complete : forall tbl w f x p, table_ok tbl = true -> wf_at f tbl w x = true ->
  (In p (language f tbl x) <-> contains tbl x p = true /\ normal p = true).
Proof. exact wf_language. Qed.
Print Assumptions C04_language_complete.

(** ... and the probabilities sum to 1 over it. *)
Theorem C04_sum_to_one : forall tbl w f x, table_ok tbl = true -> wf_at f tbl w x = true ->
  qsum (map (probability tbl w x) (language f tbl x)) == 1.
Proof. exact sum_to_one. Qed.
Print Assumptions C04_sum_to_one.

(** uniform(): positive weights summing to 1 at every non-terminal with a rule. *)
Theorem C04_uniform : forall tbl x rs,
  rules_of tbl x = Some rs -> rs <> [] -> nodupb sym_eqb (map fst rs) = true ->
  weights_ok tbl (uniform tbl) x rs = true.
Proof. exact uniform_ok. Qed.
Print Assumptions C04_uniform.

(** normalise() (hence random()): the same for positive input weights. *)
Theorem C04_normalise : forall tbl w x rs ws,
  rules_of tbl x = Some rs -> alookup nt_eqb x w = Some ws ->
  Permutation (map fst rs) (map fst ws) -> nodupb sym_eqb (map fst rs) = true ->
  (forall sq, In sq ws -> 0 < snd sq) -> rs <> [] ->
  weights_ok tbl (normalise w) x rs = true.
Proof. exact normalise_ok. Qed.
Print Assumptions C04_normalise.

(** pcfg_from_samples (PARTIAL: only normalisation is proved; that every sample
    gets a positive probability is covered by the correspondence): wherever the
    learnt grammar has tags they are non-negative and sum to 1. *)
Theorem C04_from_samples_partial : forall tbl start samples w x ws,
  from_samples tbl start samples = Some w -> In (x, ws) w ->
  qsum (map snd ws) == 1 /\ forall sq, In sq ws -> 0 <= snd sq.
Proof. exact from_samples_normalised. Qed.
Print Assumptions C04_from_samples_partial.

(** ** Unambiguous grammars (UGrammar, UCFG, ProbUGrammar), repaired probability()

    PARTIAL.  Proved: on programs whose arities agree with the grammar along the
    traversal ([shape_ok]: true of typed programs in grammars whose rule arities
    follow the types) membership and reduce_derivations are the stack-free
    derivation list [uderivs]
       D(x, f a1..ak) = [ w(x,f,alt) * q1 * .. * qk | alt, q1 in D(alt_1,a1), .., qk in D(alt_k,ak) ],
    probability(p, start) is the head of that list (the product of the weights of
    the rules of the derivation when it is unique), probability(p) multiplies it
    by the weight of the first start symbol deriving p and is 0 outside the
    language.  NOT proved for unambiguous grammars (covered by the correspondence
    only): the sum over the language is 1, programs() = size of the language,
    unambiguity itself (C06), uniform()/normalise() of ProbUGrammar. *)
Theorem C04_u_membership_partial : forall tbl w x p, shape_ok tbl x p = true ->
  ucontains_at tbl x p = negb (Nat.eqb (length (uderivs tbl w x p)) 0).
Proof. exact ucontains_at_spec. Qed.
Print Assumptions C04_u_membership_partial.

Theorem C04_u_probability_partial : forall tbl w x p, shape_ok tbl x p = true ->
  uprobability_at tbl w x p =
  match uderivs tbl w x p with
  | Some q :: r => if forallb is_some r then q else 0
  | _ => 0
  end.
Proof. exact uprobability_at_spec. Qed.
Print Assumptions C04_u_probability_partial.

Theorem C04_u_start_weight : forall tbl w sw starts p,
  uprobability tbl w sw starts p =
  match find (fun x => ucontains_at tbl x p) starts with
  | Some x => start_weight sw x * uprobability_at tbl w x p
  | None => 0
  end.
Proof. exact uprobability_starts. Qed.
Print Assumptions C04_u_start_weight.

Theorem C04_u_outside_zero : forall tbl w sw starts p,
  ucontains tbl starts p = false -> uprobability tbl w sw starts p = 0.
Proof. exact uprobability_outside. Qed.
Print Assumptions C04_u_outside_zero.
