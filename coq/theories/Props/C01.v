(** Property C01 (placeholder until the proofs land): statements only. *)
From PS Require Import Gram.Cfg.
