(** Property C01: a depth-bounded grammar denotes exactly the well-typed
    programs of its DSL.  Statements only; the model is Gram/Cfg.v, the
    independent typing judgement [wt] and the relations [Uses], [Reach] are in
    Gram/CfgSpec.v, the proofs in Gram/CfgProofs.v.  All statements quantify
    over every input record [P] (DSL, forbidden table, type request, depth
    bound, minimum variable depth, n-gram width, constant types) and every
    program; nothing is bounded.
    Second half (C01_recursive_..., C01_bounded_is_restriction, C01_derivation_...):
    the grammar compiled without depth bound (model Gram/CfgInf.v of
    CFG.infinite + clean, judgement [wt_inf] and derivations [Derives] in
    Gram/CfgInfSpec.v, proofs in Gram/CfgInfProofs.v) and the derivation API. *)
From Coq Require Import NArith List Bool.
From PS Require Import Base.Ty Base.Prog Gram.Cfg Gram.CfgSpec Gram.CfgProofs Gram.CfgInf Gram.CfgInfSpec Gram.CfgInfProofs Gram.CfgInfTotal.
Import ListNotations.

(** Membership in the cleaned grammar is the typing judgement: requested return
    type, arguments typed through ends_with (full applications only), nesting
    depth below the bound, variables and constants at depth >= min_var,
    constants at declared types only, no forbidden (parent, index, child)
    whatever the arity of the child.  Needs n_gram >= 2 (with n_gram = 1 the
    parent is truncated out of the context). *)
Theorem C01_language : forall P, 2 <= n_gram P ->
  forall p, contains P p = wt P (returns (request P)) None 0 p.
Proof. exact contains_is_typed. Qed.
Print Assumptions C01_language.

(** The hypothesis on the width is necessary: with n_gram = 1 some grammar
    accepts a term that is not typed (a forbidden pattern). *)
Theorem C01_ngram1_refuted :
  exists P p, n_gram P = 1 /\ contains P p = true /\ wt P (returns (request P)) None 0 p = false.
Proof. exact ngram1_refuted. Qed.
Print Assumptions C01_ngram1_refuted.

(** The code's extra guard on variables used as functions (the variable's type
    has at least one argument) is implied by the non-empty ends_with answer
    that [wt] asks for. *)
Theorem C01_var_head_guard : forall tv t a r, ends_with tv t = Some (a :: r) -> arguments tv <> [].
Proof. exact ends_with_cons_arguments. Qed.
Print Assumptions C01_var_head_guard.

(** Members that are normal (no application node with an empty argument
    list) have Program.depth at most the bound. *)
Theorem C01_depth : forall P p, contains P p = true -> normal p = true -> pdepth p <= max_depth P.
Proof. exact member_depth. Qed.
Print Assumptions C01_depth.

(** From width 2 on, the n-gram width does not change the language. *)
Theorem C01_ngram_irrelevant : forall P P',
  2 <= n_gram P -> 2 <= n_gram P' ->
  dsl P' = dsl P -> forbidden P' = forbidden P -> request P' = request P ->
  max_depth P' = max_depth P -> min_var P' = min_var P -> const_types P' = const_types P ->
  forall p, contains P' p = contains P p.
Proof. exact ngram_irrelevant. Qed.
Print Assumptions C01_ngram_irrelevant.

(** programs() is the length of the enumeration [lang] ... *)
Theorem C01_count : forall P, programs P = N.of_nat (length (lang P)).
Proof. exact programs_is_length. Qed.
Print Assumptions C01_count.

(** ... which has no repetition when no primitive is declared twice ... *)
Theorem C01_count_nodup : forall P, wf_params P = true -> NoDup (lang P).
Proof. exact lang_NoDup. Qed.
Print Assumptions C01_count_nodup.

(** ... and consists exactly of the normal members.  (Membership also accepts
    Function(f, []) whenever it accepts f; such a node is not normal and is the
    only difference between "accepted" and "enumerated".) *)
Theorem C01_count_members : forall P p, In p (lang P) <-> contains P p = true /\ normal p = true.
Proof. exact lang_spec. Qed.
Print Assumptions C01_count_members.

(** Every rule of every non-terminal listed by [reachable] is applied, at that
    non-terminal, in the derivation of some program of the language. *)
Theorem C01_rules_useful : forall P x r,
  In x (reachable P) -> In r (crules P x) ->
  exists p, In p (lang P) /\ Uses (crules P) (start P) p x r.
Proof. exact rules_useful. Qed.
Print Assumptions C01_rules_useful.

(** [reachable] lists exactly the non-terminals connected to the start symbol
    by rules of the cleaned grammar. *)
Theorem C01_reachable : forall P x, In x (reachable P) <-> Reach P x.
Proof. exact reachable_iff_reach. Qed.
Print Assumptions C01_reachable.

(** The productivity test used by clean means "has a member". *)
Theorem C01_productive : forall P x,
  productive (fuel_of P) P x = true <-> exists q, contains_at P x q = true.
Proof. exact productive_iff_member. Qed.
Print Assumptions C01_productive.

(** * Compiled without a depth bound (CFG.infinite, recursive=False) *)

(** Membership in the grammar as built is the typing judgement without depth
    bound and without minimum variable depth: requested return type, arguments
    typed through ends_with (full applications only), variables of the request
    and constants at declared types anywhere, no forbidden (parent, index,
    child) whatever the arity of the child.  Terms of every depth. *)
Theorem C01_recursive_language : forall P, 2 <= n_gram P ->
  forall p, contains_inf P p = wt_inf P (returns (request P)) None p.
Proof. exact contains_inf_is_typed. Qed.
Print Assumptions C01_recursive_language.

(** clean() (removal of the non-productive, then of the unreachable
    non-terminals, computed by rounds with explicit fuel) does not change
    membership: whenever the computation ends within its fuel, the cleaned
    grammar has the members of the grammar as built. *)
Theorem C01_recursive_clean : forall P fuel c, clean_inf P fuel = Some c ->
  forall p, contains_clean P c p = contains_inf P p.
Proof. exact recursive_clean. Qed.
Print Assumptions C01_recursive_clean.

(** The computation of clean() does end: any fuel above the size of an explicit
    finite universe of non-terminals (argument types of the DSL and of the
    request's variables x contexts of at most n_gram (head, index) pairs)
    suffices, so C01_recursive_clean is not vacuous for any input. *)
Theorem C01_recursive_clean_total : forall P fuel, length (univ_inf P) < fuel ->
  exists c, clean_inf P fuel = Some c.
Proof. exact clean_inf_total. Qed.
Print Assumptions C01_recursive_clean_total.

(** The same for any grammar with one rule per symbol and any way of removing
    rules: if an invariant K holds at the start symbol as soon as it has a
    member, and at a non-terminal satisfying K every rule whose arguments all
    have members is kept and passes K on to its arguments, membership at the
    start symbol is unchanged.  (Members only consult rules of their own
    derivation.) *)
Theorem C01_clean_any : forall (R R' : cnt -> list rule) (K : cnt -> Prop),
  (forall x, functional (R x)) ->
  (forall x r, In r (R' x) -> In r (R x)) ->
  (forall x r, K x -> In r (R x) -> (forall m, In m (snd r) -> Member R m) ->
               In r (R' x) /\ forall n, In n (snd r) -> K n) ->
  forall s, (Member R s -> K s) -> forall p, contains_gen R' s p = contains_gen R s p.
Proof. exact clean_abstract. Qed.
Print Assumptions C01_clean_any.

(** What clean() computes: [c_prod] = the non-terminals connected to the start
    symbol that have a member ("productive" = some program is derivable);
    [c_reach] = the non-terminals connected to the start symbol through rules
    whose arguments are all productive (nothing when the language is empty). *)
Theorem C01_recursive_cleaned_sets : forall P fuel c, clean_inf P fuel = Some c ->
  (forall x, In x (c_prod c) <-> Conn (rules_inf P) (start P) x /\ Member (rules_inf P) x)
  /\ (forall x, In x (c_reach c) <->
                Member (rules_inf P) (start P) /\ Conn (prune (c_prod c) (rules_inf P)) (start P) x).
Proof. exact recursive_clean_spec. Qed.
Print Assumptions C01_recursive_cleaned_sets.

(** Every rule left in the cleaned unbounded grammar is applied, at its
    non-terminal, in the derivation of some member (reachable and productive). *)
Theorem C01_recursive_rules_useful : forall P fuel c x r,
  clean_inf P fuel = Some c -> In r (crules_inf P c x) ->
  exists p, contains_clean P c p = true /\ Uses (crules_inf P c) (start P) p x r.
Proof. exact recursive_rules_useful. Qed.
Print Assumptions C01_recursive_rules_useful.

(** The depth-d grammar contains exactly the members of the unbounded grammar
    of height at most d in which variables and constant slots occur at nesting
    depth >= min_variable_depth ([ht] is Program.depth on programs without
    empty application node, see C01_bounded_is_restriction_normal). *)
Theorem C01_bounded_is_restriction_gen : forall P, 2 <= n_gram P -> forall p,
  contains P p = contains_inf P p && Nat.leb (ht p) (max_depth P) && vars_deep (min_var P) 0 p.
Proof. exact bounded_is_restriction_gen. Qed.
Print Assumptions C01_bounded_is_restriction_gen.

(** In particular with min_variable_depth = 0 the depth-d grammar is the
    restriction of the unbounded grammar to height <= d.  With
    min_variable_depth > 0 this is false: the unbounded builder has no minimum
    variable depth, so a variable of the requested type is a member of the
    unbounded grammar (height 1) and of no bounded one (ExInf.ex_var_root). *)
Theorem C01_bounded_is_restriction : forall P, 2 <= n_gram P -> min_var P = 0 -> forall p,
  contains P p = contains_inf P p && Nat.leb (ht p) (max_depth P).
Proof. exact bounded_is_restriction. Qed.
Print Assumptions C01_bounded_is_restriction.

Theorem C01_bounded_is_restriction_normal : forall P, 2 <= n_gram P -> min_var P = 0 ->
  forall p, normal p = true ->
  (contains P p = true <-> contains_inf P p = true /\ pdepth p <= max_depth P).
Proof. exact bounded_is_restriction_normal. Qed.
Print Assumptions C01_bounded_is_restriction_normal.

(** programs() when the unbounded language is finite: if the height
    certificate of the cleaned grammar is accepted with bound h, every member
    has height <= h, the enumeration of the depth-h grammar lists exactly the
    normal members, and the reported count is its length (no repetition by
    C01_count_nodup). *)
Theorem C01_recursive_count : forall P fuel c h,
  2 <= n_gram P -> clean_inf P fuel = Some c -> height_inf P c = Some h ->
  (forall p, contains_inf P p = true -> ht p <= h)
  /\ (forall p, In p (lang (bounded P h)) <-> contains_inf P p = true /\ normal p = true)
  /\ programs_inf P c = Some (N.of_nat (length (lang (bounded P h)))).
Proof. exact recursive_count. Qed.
Print Assumptions C01_recursive_count.

(** * Derivation API, for any grammar with one rule per symbol; the two
      cleaned grammars are such grammars. *)
Theorem C01_rules_one_per_symbol : forall P x, functional (crules P x).
Proof. exact crules_functional. Qed.
Print Assumptions C01_rules_one_per_symbol.

Theorem C01_recursive_rules_one_per_symbol : forall P c x, functional (crules_inf P c x).
Proof. exact crules_inf_functional. Qed.
Print Assumptions C01_recursive_rules_one_per_symbol.

(** A program is a member iff it has a derivation, and the derivation (the
    pre-order list of (non-terminal, rule)) is unique. *)
Theorem C01_derivation_exists : forall R, (forall x, functional (R x)) -> forall x p,
  contains_gen R x p = true <-> exists l, Derives R x p l.
Proof. exact member_iff_derives. Qed.
Print Assumptions C01_derivation_exists.

Theorem C01_derivation_unique : forall R, (forall x, functional (R x)) -> forall x p l l',
  Derives R x p l -> Derives R x p l' -> l = l'.
Proof. exact derivation_unique. Qed.
Print Assumptions C01_derivation_unique.

(** derive_all on a member, from the start information: no pending argument is
    left and the list returned is the one prescribed by the pre-order node
    list of the derivation ([trace_of]: an application node lists its own
    non-terminal, every node lists the non-terminal of the next node, the last
    one the end marker); the non-terminals of [nodes] are those of the
    derivation, in order. *)
Theorem C01_derive_all : forall R, (forall x, functional (R x)) -> forall x p,
  contains_gen R x p = true ->
  derive_all R p [] (DAt x) [] = Some ([], trace_of (nodes R x p))
  /\ map fst (nodes R x p) = map fst (deriv R x p) /\ Derives R x p (deriv R x p).
Proof. exact derive_all_full. Qed.
Print Assumptions C01_derive_all.

(** reduce_derivations on a member folds the user's operator [red] over the
    (non-terminal, symbol, right-hand side) of its derivation in pre-order. *)
Theorem C01_reduce_derivations : forall R, (forall x, functional (R x)) ->
  forall (T : Type) (red : T -> cnt -> sym -> list cnt -> T) x init p,
  contains_gen R x p = true ->
  reduce_derivations red R x init p = Some (fold_left (red_step red) (deriv R x p) init).
Proof. exact reduce_derivations_full. Qed.
Print Assumptions C01_reduce_derivations.
