(** Property C01: a depth-bounded grammar denotes exactly the well-typed
    programs of its DSL.  Statements only; the model is Gram/Cfg.v, the
    independent typing judgement [wt] and the relations [Uses], [Reach] are in
    Gram/CfgSpec.v, the proofs in Gram/CfgProofs.v.  All statements quantify
    over every input record [P] (DSL, forbidden table, type request, depth
    bound, minimum variable depth, n-gram width, constant types) and every
    program; nothing is bounded. *)
From Coq Require Import NArith List Bool.
From PS Require Import Base.Ty Base.Prog Gram.Cfg Gram.CfgSpec Gram.CfgProofs.
Import ListNotations.

(** Membership in the cleaned grammar is the typing judgement: requested return
    type, arguments typed through ends_with (full applications only), nesting
    depth below the bound, variables and constants at depth >= min_var,
    constants at declared types only, no forbidden (parent, index, child)
    whatever the arity of the child.  Needs n_gram >= 2 (with n_gram = 1 the
    parent is truncated out of the context). *)
Theorem C01_language : forall P, 2 <= n_gram P ->
  forall p, contains P p = wt P (returns (request P)) None 0 p.
Proof. exact contains_is_typed. Qed.
Print Assumptions C01_language.

(** The hypothesis on the width is necessary: with n_gram = 1 some grammar
    accepts a term that is not typed (a forbidden pattern). *)
Theorem C01_ngram1_refuted :
  exists P p, n_gram P = 1 /\ contains P p = true /\ wt P (returns (request P)) None 0 p = false.
Proof. exact ngram1_refuted. Qed.
Print Assumptions C01_ngram1_refuted.

(** The code's extra guard on variables used as functions (the variable's type
    has at least one argument) is implied by the non-empty ends_with answer
    that [wt] asks for. *)
Theorem C01_var_head_guard : forall tv t a r, ends_with tv t = Some (a :: r) -> arguments tv <> [].
Proof. exact ends_with_cons_arguments. Qed.
Print Assumptions C01_var_head_guard.

(** Members that are normal (no application node with an empty argument
    list) have Program.depth at most the bound. *)
Theorem C01_depth : forall P p, contains P p = true -> normal p = true -> pdepth p <= max_depth P.
Proof. exact member_depth. Qed.
Print Assumptions C01_depth.

(** From width 2 on, the n-gram width does not change the language. *)
Theorem C01_ngram_irrelevant : forall P P',
  2 <= n_gram P -> 2 <= n_gram P' ->
  dsl P' = dsl P -> forbidden P' = forbidden P -> request P' = request P ->
  max_depth P' = max_depth P -> min_var P' = min_var P -> const_types P' = const_types P ->
  forall p, contains P' p = contains P p.
Proof. exact ngram_irrelevant. Qed.
Print Assumptions C01_ngram_irrelevant.

(** programs() is the length of the enumeration [lang] ... *)
Theorem C01_count : forall P, programs P = N.of_nat (length (lang P)).
Proof. exact programs_is_length. Qed.
Print Assumptions C01_count.

(** ... which has no repetition when no primitive is declared twice ... *)
Theorem C01_count_nodup : forall P, wf_params P = true -> NoDup (lang P).
Proof. exact lang_NoDup. Qed.
Print Assumptions C01_count_nodup.

(** ... and consists exactly of the normal members.  (Membership also accepts
    Function(f, []) whenever it accepts f; such a node is not normal and is the
    only difference between "accepted" and "enumerated".) *)
Theorem C01_count_members : forall P p, In p (lang P) <-> contains P p = true /\ normal p = true.
Proof. exact lang_spec. Qed.
Print Assumptions C01_count_members.

(** Every rule of every non-terminal listed by [reachable] is applied, at that
    non-terminal, in the derivation of some program of the language. *)
Theorem C01_rules_useful : forall P x r,
  In x (reachable P) -> In r (crules P x) ->
  exists p, In p (lang P) /\ Uses (crules P) (start P) p x r.
Proof. exact rules_useful. Qed.
Print Assumptions C01_rules_useful.

(** [reachable] lists exactly the non-terminals connected to the start symbol
    by rules of the cleaned grammar. *)
Theorem C01_reachable : forall P x, In x (reachable P) <-> Reach P x.
Proof. exact reachable_iff_reach. Qed.
Print Assumptions C01_reachable.

(** The productivity test used by clean means "has a member". *)
Theorem C01_productive : forall P x,
  productive (fuel_of P) P x = true <-> exists q, contains_at P x q = true.
Proof. exact productive_iff_member. Qed.
Print Assumptions C01_productive.
