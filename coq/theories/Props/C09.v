(** Property C09: sampling draws programs of the grammar with the grammar's
    probabilities.  Statements only; proofs are in Rand/AliasProofs.v and
    Rand/SamplingProofs.v. *)
From Coq Require Import QArith List Bool.
From PS Require Import Base.Prog Gram.Det Rand.Alias Rand.AliasProofs Rand.Sampling Rand.SamplingProofs Rand.SamplingUProofs.
Import ListNotations.

(** The alias table built by the (repaired) fallback sampler from n > 0
    non-negative weights of positive sum induces exactly the normalised
    weights: for ideal independent uniform (u1, u2) the draw returns i with
    probability w_i / sum w. *)
Theorem C09_alias_exact : forall w : list Q,
  (0 < length w)%nat -> (forall x, In x w -> 0 <= x) -> 0 < sumq w ->
  exists T, build w = Some T /\ t_size T = length w /\ forall i, draw_dist T i == qnth w i / sumq w.
Proof. exact alias_exact. Qed.
Print Assumptions C09_alias_exact.

(** The form of the property text: weights summing to 1. *)
Theorem C09_alias_exact_sum1 : forall w : list Q,
  (0 < length w)%nat -> (forall x, In x w -> 0 <= x) -> sumq w == 1 ->
  exists T, build w = Some T /\ forall i, draw_dist T i == qnth w i.
Proof. exact alias_exact_sum1. Qed.
Print Assumptions C09_alias_exact_sum1.

(** draw_dist is the measure of the preimage: on the unit square the indicator
    of "the draw returns i" is the sum of the indicators of the half-open
    rectangles rects t i (so they are pairwise disjoint and cover exactly the
    preimage), and their areas add up to draw_dist t i.  Any table, any i. *)
Theorem C09_draw_measure : forall t i, (0 < t_size t)%nat ->
  (forall u1 u2, 0 <= u1 -> u1 < 1 -> 0 <= u2 -> u2 < 1 ->
     length (filter (fun r => in_rectb r u1 u2) (rects t i)) = if Nat.eqb (sample_1 t u1 u2) i then 1%nat else 0%nat) /\
  sumq (map area (rects t i)) == draw_dist t i.
Proof. exact draw_measure. Qed.
Print Assumptions C09_draw_measure.

(** The pinned draw (a fair coin instead of the column's probability) does not
    induce the weights: (7/10, 2/10, 1/10) gives 2/3 for index 0. *)
Theorem C09_fair_coin_refuted :
  exists w T i, (forall x, In x w -> 0 <= x) /\ sumq w == 1 /\ build_pinned w = Some T /\ build w = Some T /\
                ~ draw_dist_pinned T i == qnth w i.
Proof. exact fair_coin_refuted. Qed.
Print Assumptions C09_fair_coin_refuted.

(** The pinned constructor assumes the weights sum to 1: (7, 2, 1) gives the
    uniform distribution. *)
Theorem C09_unnormalised_refuted :
  exists w T, (forall x, In x w -> 0 <= x) /\ 0 < sumq w /\ build_pinned w = Some T /\
              ~ draw_dist T 0 == qnth w 0 / sumq w.
Proof. exact unnormalised_refuted. Qed.
Print Assumptions C09_unnormalised_refuted.

(** ---- programs of deterministic table grammars (ProbDetGrammar) ----
    sample_program is a function of the table, the weights and the list of
    indices returned by the samplers (one per visited non-terminal, in the
    order of the calls).  sample_dist enumerates the complete choice lists
    with the program each one produces and the product of the weights of the
    choices made, i.e. the distribution of the sampled program when every
    index i is drawn with probability w_i of its sampler (C09_alias_exact).

    For a well-formed table (Det.wf_at_lang: every reachable non-terminal has rules
    with positive weights summing to 1) whose weight lists follow the rule
    order (keys_ok):  replaying an entry's choices yields its program;  the
    probability of sampling p is exactly the probability the grammar reports
    for p, for every program p without empty applications (Function(P, []) is
    a member with the probability of P but sample_program returns P itself);
    the total mass is 1;  no program is produced by two choice lists. *)
Theorem C09_program_distribution : forall fuel tbl w start,
  wf_at_lang fuel tbl w start = true -> keys_ok tbl w = true ->
  let D := sample_dist fuel tbl w start in
  (forall e, In e D -> forall rest,
       sample_program fuel tbl w start (e_script e ++ rest) = SOk (e_prog e, rest)) /\
  (forall p, normal p = true -> dist_mass D p == probability tbl w start p) /\
  Det.qsum (map e_prob D) == 1 /\
  NoDup (map e_prog D).
Proof. exact program_distribution. Qed.
Print Assumptions C09_program_distribution.

(** Every sampled program belongs to the grammar (any table, any weights, any
    choices: no hypothesis). *)
Theorem C09_members_only : forall fuel tbl w start cs p rest,
  sample_program fuel tbl w start cs = SOk (p, rest) -> contains tbl start p = true.
Proof. exact members_only_start. Qed.
Print Assumptions C09_members_only.

(** The sampled sequence is a function of the choice stream: immediate, the
    model (sample_program / sample_many) is a Gallina function with no other
    input, and in the implementation the stream is a function of the seed.
    What is stated here is the non-trivial part: a sample depends only on the
    choices it consumes and leaves the rest of the stream untouched. *)
Theorem C09_deterministic : forall fuel tbl w x info cs p rest,
  sample_rec fuel tbl w x info cs = SOk (p, rest) ->
  exists used, cs = used ++ rest /\
    forall rest', sample_rec fuel tbl w x info (used ++ rest') = SOk (p, rest').
Proof. exact sample_prefix. Qed.
Print Assumptions C09_deterministic.

(** ---- unambiguous grammars (ProbUGrammar over a UCFG): partial ----
    ustart_dist enumerates the complete choice lists of usample_program
    (start symbol, then per visited non-terminal the symbol and - when the
    symbol takes arguments - the alternative) with the product of the
    normalised weights of the samplers consulted.  For a well-formed weighted
    table (uwf_start) every entry replays to its program and the total mass
    is 1.  MISSING (hence _partial): the development has no model of
    UGrammar membership / ProbUGrammar.probability, so "the mass of p equals
    the probability the grammar reports for p" and "every sampled program is
    a member" are not stated for unambiguous grammars; they are covered by the
    correspondence check only (sampled programs and frequencies against this
    model). *)
Theorem C09_u_distribution_partial : forall fuel rules tags stags,
  uwf_start fuel rules tags stags = true ->
  (forall e, In e (ustart_dist fuel rules tags stags) -> forall rest,
     usample_program fuel rules tags (map fst stags) (fst (fst e) ++ rest) = SOk (snd (fst e), rest)) /\
  Det.qsum (map (fun e : uentry => snd e) (ustart_dist fuel rules tags stags)) == 1.
Proof. intros fuel rules tags stags H. split; [exact (u_replay fuel rules tags stags H) | exact (u_mass_one fuel rules tags stags H)]. Qed.
Print Assumptions C09_u_distribution_partial.

Theorem C09_u_deterministic : forall fuel rules tags x info cs p rest,
  usample_rec fuel rules tags x info cs = SOk (p, rest) ->
  exists used, cs = used ++ rest /\
    forall rest', usample_rec fuel rules tags x info (used ++ rest') = SOk (p, rest').
Proof. exact u_prefix. Qed.
Print Assumptions C09_u_deterministic.
