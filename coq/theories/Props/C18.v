(** Property C18: generated tasks are self-consistent and reproducible from
    the seed.  Statements only; proofs are in Sem/TaskGenProofs.v.

    The generator is the model of Sem/TaskGen.v: a function of the settings,
    of the semantics ([vapp], [prim_value]), of the output validator [valid]
    and of the oracle streams in the state [st] (type requests, programs per
    request, example counts, inputs per argument type).  [Fail (FOutOfStream _)],
    [Fail (FNoGrammar _)], [Fail (FEvalRaised _)], [Fail FOutOfFuel] are explicit
    results; the theorems speak about [Done].  The evaluator is the reference
    semantics observed with the skip sets of the evaluator and of the
    generator (property C11 identifies the cached evaluator with it). *)
From Coq Require Import ZArith NArith List Bool.
From PS Require Import Base.ListX Base.Ty Base.Value Base.Prog Sem.Semantics Sem.Eval Sem.TaskGen Sem.TaskGenProofs.
Import ListNotations.

(** Every task returned by generate_task, for all streams and settings:
    (a) re-evaluating the solution on each example input gives the example output;
    (b) outputs are pairwise distinct (always: the code does not tie this to [uniques]);
    (c) every output is accepted by the validator;
    (d) the number of examples is the number drawn, except that the pinned
        code (no count guard) asked for 0 examples returns exactly one;
    (e) the solution is one of the programs yielded by the sampler of the task's type request;
    (f) the inputs of every example come, position by position, from the
        input sampler asked for the argument types of the request;
    and the request was drawn from the request sampler. *)
Theorem C18_task_ok :
  forall vapp prim_value valid cfg fuel st t drawn st',
    generate_task vapp prim_value valid cfg fuel st = Done (t, drawn, st') ->
    Forall (fun ex => observe (s_eskip cfg ++ s_gskip cfg) (eval_ref vapp prim_value (t_sol t) (fst ex))
                      = Returned (snd ex)) (t_examples t) /\
    NoDup (map snd (t_examples t)) /\
    Forall (fun ex => valid (snd ex) = true) (t_examples t) /\
    (length (t_examples t) = drawn \/
     (s_count_guard cfg = false /\ drawn = 0 /\ length (t_examples t) = 1)) /\
    (exists l, alookup ty_eqb (t_req t) (g_progs st) = Some l /\ In (t_sol t) l) /\
    Forall (fun ex => Forall2 (fun a v => exists l, alookup ty_eqb a (g_inputs st) = Some l /\ In v l)
                              (arguments (t_req t)) (fst ex)) (t_examples t) /\
    In (t_req t) (g_reqs st).
Proof. intros until st'. intros H. exact (proj1 (generate_task_ok _ _ _ _ _ _ _ _ _ H)). Qed.
Print Assumptions C18_task_ok.

(** With the count guard (the repaired code) the number of examples is exactly
    the number drawn, and that number is the last one consumed from the count
    stream. *)
Theorem C18_examples_count :
  forall vapp prim_value valid cfg fuel st t drawn st',
    s_count_guard cfg = true ->
    generate_task vapp prim_value valid cfg fuel st = Done (t, drawn, st') ->
    length (t_examples t) = drawn /\ exists pre, g_counts st = pre ++ drawn :: g_counts st'.
Proof.
  intros until st'. intros Hg H. split.
  - exact (generate_task_count _ _ _ _ _ _ _ _ _ Hg H).
  - exact (proj1 (proj2 (proj2 (generate_task_ok _ _ _ _ _ _ _ _ _ H)))).
Qed.
Print Assumptions C18_examples_count.

(** The pinned code violates (d): asked for 0 examples it returns one. *)
Theorem C18_count_pinned_refuted :
  exists cfg st t st',
    s_count_guard cfg = false /\
    generate_task vapp prim_value Examples.validator cfg 3 st = Done (t, 0, st') /\
    length (t_examples t) = 1.
Proof. exact count_pinned_refuted. Qed.
Print Assumptions C18_count_pinned_refuted.

(** When the validator rejects None, no skipped failure hides behind an
    output: the reference evaluation of the solution succeeds on every example
    input with exactly the example output. *)
Theorem C18_examples_are_evaluations :
  forall vapp prim_value valid cfg fuel st t drawn st',
    valid VNone = false ->
    generate_task vapp prim_value valid cfg fuel st = Done (t, drawn, st') ->
    Forall (fun ex => eval_ref vapp prim_value (t_sol t) (fst ex) = Ok (snd ex)) (t_examples t).
Proof. intros until st'. exact (generate_task_strict _ _ _ _ _ _ _ _ _). Qed.
Print Assumptions C18_examples_are_evaluations.

(** The samplers are only ever advanced: what is left of every stream after a
    task is a suffix of what there was before. *)
Theorem C18_streams_consumed_in_order :
  forall vapp prim_value valid cfg fuel st t drawn st',
    generate_task vapp prim_value valid cfg fuel st = Done (t, drawn, st') ->
    (exists pre, g_reqs st = pre ++ g_reqs st') /\
    (forall a, match alookup ty_eqb a (g_progs st') with
               | Some l => exists pre, alookup ty_eqb a (g_progs st) = Some (pre ++ l)
               | None => alookup ty_eqb a (g_progs st) = None
               end) /\
    (exists pre, g_counts st = pre ++ g_counts st') /\
    (forall a, match alookup ty_eqb a (g_inputs st') with
               | Some l => exists pre, alookup ty_eqb a (g_inputs st) = Some (pre ++ l)
               | None => alookup ty_eqb a (g_inputs st) = None
               end).
Proof. intros until st'. intros H. exact (proj1 (proj2 (generate_task_ok _ _ _ _ _ _ _ _ _ H))). Qed.
Print Assumptions C18_streams_consumed_in_order.

(** Every task of a sequence of any length satisfies (a)-(f) with respect to
    the streams the generator was built with. *)
Theorem C18_sequence_ok :
  forall vapp prim_value valid cfg fuel n st l e,
    gen_tasks vapp prim_value valid cfg fuel n st = (l, e) ->
    Forall (fun td => task_ok vapp prim_value valid cfg st (fst td) (snd td)) l.
Proof. intros until e. exact (gen_tasks_ok _ _ _ _ _ _ _ _ _). Qed.
Print Assumptions C18_sequence_ok.

(** Reproducibility.  The model is a function whose only inputs are the
    settings, the semantics, the validator and the oracle streams: two
    generators built from equal arguments and equal streams produce equal task
    sequences (and equal failures) ... *)
Theorem C18_deterministic :
  forall vapp prim_value valid cfg1 cfg2 fuel n st1 st2,
    cfg1 = cfg2 -> st1 = st2 ->
    gen_tasks vapp prim_value valid cfg1 fuel n st1 = gen_tasks vapp prim_value valid cfg2 fuel n st2.
Proof. intros; subst; reflexivity. Qed.
Print Assumptions C18_deterministic.

(** ... and the first n tasks do not depend on how many more are drawn. *)
Theorem C18_sequence_prefix :
  forall vapp prim_value valid cfg fuel n m st,
    exists rest, fst (gen_tasks vapp prim_value valid cfg fuel (n + m) st)
                 = fst (gen_tasks vapp prim_value valid cfg fuel n st) ++ rest.
Proof. intros. exact (gen_tasks_prefix _ _ _ _ _ _ _ _). Qed.
Print Assumptions C18_sequence_prefix.

(** With [uniques], the solutions flagged unique in a sequence are pairwise distinct. *)
Theorem C18_unique_solutions :
  forall vapp prim_value valid cfg fuel n st l e,
    s_uniques cfg = true ->
    gen_tasks vapp prim_value valid cfg fuel n st = (l, e) ->
    NoDup (map (fun td => t_sol (fst td)) (filter (fun td => t_unique (fst td)) l)).
Proof. intros until e. intros Hu H. exact (proj1 (gen_tasks_unique _ _ _ _ _ _ _ _ _ Hu H)). Qed.
Print Assumptions C18_unique_solutions.

(** The tasks depend only on the prefixes of the streams that were consumed:
    a sequence generated without failure is generated unchanged when anything
    is appended to any stream (so excluding [FOutOfStream] loses nothing, and
    two generators agree as soon as their samplers agree on what is drawn). *)
Theorem C18_stream_local :
  forall vapp prim_value valid cfg fuel n st l st2,
    gen_tasks vapp prim_value valid cfg fuel n st = (l, None) ->
    (exists e, g_reqs st2 = g_reqs st ++ e) ->
    (forall a s, alookup ty_eqb a (g_progs st) = Some s -> exists e, alookup ty_eqb a (g_progs st2) = Some (s ++ e)) ->
    (exists e, g_counts st2 = g_counts st ++ e) ->
    (forall a s, alookup ty_eqb a (g_inputs st) = Some s -> exists e, alookup ty_eqb a (g_inputs st2) = Some (s ++ e)) ->
    g_seen st2 = g_seen st ->
    gen_tasks vapp prim_value valid cfg fuel n st2 = (l, None).
Proof.
  intros until st2. intros H H1 H2 H3 H4 H5.
  exact (gen_tasks_local _ _ _ _ _ _ _ _ _ H (conj H1 (conj H2 (conj H3 (conj H4 H5))))).
Qed.
Print Assumptions C18_stream_local.
