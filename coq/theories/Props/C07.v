(** Property C07: tree-automaton operations are the language operations they
    are named after.  Statements only; proofs are in Auto/Dfta*.v.

    The model (Auto/Dfta.v) is generic in the letter type [L] and the state
    type [Q]; equality on them is a boolean function that decides [=] (first
    hypotheses of every theorem; C07_instance shows the functions used by the
    extracted driver qualify).  [deterministic X] says that the rule table is a
    Python dict: pairwise distinct [(letter, args)] keys.  [trim X] says that
    every state occurring in [X] is the run of some tree and reaches a final
    state through the rules ("reduced").  Results are [Ok _]: running out of
    fuel is excluded by the theorems. *)
From Coq Require Import List Bool NArith ZArith.
From PS Require Import Base.ListX Base.Sexp Auto.Dfta Auto.DftaBase Auto.DftaReduce Auto.DftaOps
  Auto.DftaProofs Run.C07.
Import ListNotations.

(** reduce keeps the language, and its result is reduced (after the repair of
    __remove_unproductive__, proposed_fixes/C07-1) *)
Theorem C07_reduce : forall (L Q : Type) (leqb : L -> L -> bool) (qeqb : Q -> Q -> bool),
  (forall a b, leqb a b = true <-> a = b) -> (forall a b, qeqb a b = true <-> a = b) ->
  forall X : dfta L Q, deterministic X ->
  exists X', reduce qeqb X = Ok X' /\ deterministic X' /\
             (forall t, accepts leqb qeqb X' t = accepts leqb qeqb X t) /\
             trim leqb qeqb X'.
Proof. exact (@reduce_correct). Qed.
Print Assumptions C07_reduce.

(** read_product runs both automata; it accepts the intersection *)
Theorem C07_product : forall (L QA QB : Type) (leqb : L -> L -> bool) (aeqb : QA -> QA -> bool) (beqb : QB -> QB -> bool),
  (forall a b, leqb a b = true <-> a = b) -> (forall a b, aeqb a b = true <-> a = b) ->
  (forall a b, beqb a b = true <-> a = b) ->
  forall (X : dfta L QA) (Y : dfta L QB), deterministic X -> deterministic Y ->
  forall t,
    run leqb (peqb aeqb beqb) (read_product leqb aeqb beqb X Y) t =
      match run leqb aeqb X t, run leqb beqb Y t with Some a, Some b => Some (a, b) | _, _ => None end /\
    accepts leqb (peqb aeqb beqb) (read_product leqb aeqb beqb X Y) t =
      accepts leqb aeqb X t && accepts leqb beqb Y t.
Proof. exact (@product_correct). Qed.
Print Assumptions C07_product.

(** read_union (default fusion) accepts the union; its result is reduced *)
Theorem C07_union : forall (L QA QB : Type) (leqb : L -> L -> bool) (aeqb : QA -> QA -> bool) (beqb : QB -> QB -> bool),
  (forall a b, leqb a b = true <-> a = b) -> (forall a b, aeqb a b = true <-> a = b) ->
  (forall a b, beqb a b = true <-> a = b) ->
  forall (X : dfta L QA) (Y : dfta L QB), deterministic X -> deterministic Y ->
  exists U, read_union leqb aeqb beqb X Y = Ok U /\ deterministic U /\
    (forall t, accepts leqb (ueqb aeqb beqb) U t = accepts leqb aeqb X t || accepts leqb beqb Y t) /\
    trim leqb (ueqb aeqb beqb) U.
Proof. exact (@union_correct). Qed.
Print Assumptions C07_union.

(** renaming the states injectively changes nothing *)
Theorem C07_map_states : forall (L QA QB : Type) (leqb : L -> L -> bool) (aeqb : QA -> QA -> bool) (beqb : QB -> QB -> bool),
  (forall a b, leqb a b = true <-> a = b) -> (forall a b, aeqb a b = true <-> a = b) ->
  (forall a b, beqb a b = true <-> a = b) ->
  forall (f : QA -> QB) (X : dfta L QA), deterministic X -> (forall a b, f a = f b -> a = b) ->
  forall t, run leqb beqb (map_states leqb beqb f X) t = option_map f (run leqb aeqb X t) /\
            accepts leqb beqb (map_states leqb beqb f X) t = accepts leqb aeqb X t.
Proof. exact (@map_states_correct). Qed.
Print Assumptions C07_map_states.

(** minimising a reduced automaton keeps the language; the result is deterministic *)
Theorem C07_minimise_language : forall (L Q : Type) (leqb : L -> L -> bool) (qeqb : Q -> Q -> bool),
  (forall a b, leqb a b = true <-> a = b) -> (forall a b, qeqb a b = true <-> a = b) ->
  forall X : dfta L Q, deterministic X -> trim leqb qeqb X ->
  exists M, minimise leqb qeqb X = Ok M /\ deterministic M /\
            forall t, accepts leqb (list_eqb qeqb) M t = accepts leqb qeqb X t.
Proof. exact (@minimise_correct). Qed.
Print Assumptions C07_minimise_language.

(** on any automaton: never out of fuel; a KeyError exactly when a rule
    argument or a final state is not in self.states; otherwise same language *)
Theorem C07_minimise_total : forall (L Q : Type) (leqb : L -> L -> bool) (qeqb : Q -> Q -> bool),
  (forall a b, leqb a b = true <-> a = b) -> (forall a b, qeqb a b = true <-> a = b) ->
  forall X : dfta L Q, deterministic X ->
  match minimise leqb qeqb X with
  | Ok M => deterministic M /\ forall t, accepts leqb (list_eqb qeqb) M t = accepts leqb qeqb X t
  | OutOfFuel => False
  | KeyErr => exists S0, states qeqb X = Ok S0 /\ min_precheck qeqb X S0 = false
  end.
Proof. exact (@minimise_any). Qed.
Print Assumptions C07_minimise_total.

(** least number of states (Myhill-Nerode): whatever automaton [B] (any state
    type, functional table) has the same language, a duplicate-free list of
    states of the result is at most as long as a list containing the states
    that [B] reaches *)
Theorem C07_minimise_minimal : forall (L Q : Type) (leqb : L -> L -> bool) (qeqb : Q -> Q -> bool),
  (forall a b, leqb a b = true <-> a = b) -> (forall a b, qeqb a b = true <-> a = b) ->
  forall X : dfta L Q, deterministic X -> trim leqb qeqb X ->
  exists M, minimise leqb qeqb X = Ok M /\
    forall (Q' : Type) (eqb' : Q' -> Q' -> bool), (forall a b, eqb' a b = true <-> a = b) ->
    forall B : dfta L Q',
      (forall t, accepts leqb eqb' B t = accepts leqb qeqb X t) ->
      forall ms bs, NoDup ms -> (forall m, In m ms -> occurs M m) ->
                    (forall t b, run leqb eqb' B t = Some b -> In b bs) ->
                    length ms <= length bs.
Proof. exact (@minimise_least). Qed.
Print Assumptions C07_minimise_minimal.

(** the same with the count the code offers: len(M.states) <= len(B.states) *)
Theorem C07_minimise_minimal_states : forall (L Q : Type) (leqb : L -> L -> bool) (qeqb : Q -> Q -> bool),
  (forall a b, leqb a b = true <-> a = b) -> (forall a b, qeqb a b = true <-> a = b) ->
  forall X : dfta L Q, deterministic X -> trim leqb qeqb X ->
  exists M sM, minimise leqb qeqb X = Ok M /\ states (list_eqb qeqb) M = Ok sM /\
    forall (Q' : Type) (eqb' : Q' -> Q' -> bool), (forall a b, eqb' a b = true <-> a = b) ->
    forall B : dfta L Q', deterministic B ->
      (forall t, accepts leqb eqb' B t = accepts leqb qeqb X t) ->
      forall sB, states eqb' B = Ok sB -> length sM <= length sB.
Proof. exact (@minimise_least_states). Qed.
Print Assumptions C07_minimise_minimal_states.

(** the code as pinned (consumption-based __remove_unproductive__) also keeps
    the language, in reduce and in read_union ... *)
Theorem C07_pinned_reduce_language : forall (L Q : Type) (leqb : L -> L -> bool) (qeqb : Q -> Q -> bool),
  (forall a b, leqb a b = true <-> a = b) -> (forall a b, qeqb a b = true <-> a = b) ->
  forall X : dfta L Q, deterministic X ->
  exists X', reduce_pinned qeqb X = Ok X' /\ deterministic X' /\
             (forall t, accepts leqb qeqb X' t = accepts leqb qeqb X t).
Proof. exact (@reduce_pinned_correct). Qed.
Print Assumptions C07_pinned_reduce_language.

Theorem C07_pinned_union_language : forall (L QA QB : Type) (leqb : L -> L -> bool) (aeqb : QA -> QA -> bool) (beqb : QB -> QB -> bool),
  (forall a b, leqb a b = true <-> a = b) -> (forall a b, aeqb a b = true <-> a = b) ->
  (forall a b, beqb a b = true <-> a = b) ->
  forall (X : dfta L QA) (Y : dfta L QB), deterministic X -> deterministic Y ->
  exists U, read_union_pinned leqb aeqb beqb X Y = Ok U /\ deterministic U /\
    (forall t, accepts leqb (ueqb aeqb beqb) U t = accepts leqb aeqb X t || accepts leqb beqb Y t).
Proof. exact (@union_pinned_correct). Qed.
Print Assumptions C07_pinned_union_language.

(** ... but its reduce does not reduce: on [exA] reduce-then-minimise returns
    three states where two suffice (the finding c07_reduce_keeps_unproductive_cycles) *)
Theorem C07_pinned_reduce_minimise_refuted :
  deterministic exA /\
  rbind (reduce_pinned sexp_eqb exA) (minimise N.eqb sexp_eqb) = Ok exM_pinned /\
  states (list_eqb sexp_eqb) exM_pinned = Ok [[A 3%Z]; [A 2%Z]; [A 1%Z; A 0%Z]] /\
  deterministic exM /\
  (forall t, accepts N.eqb (list_eqb sexp_eqb) exM t = accepts N.eqb (list_eqb sexp_eqb) exM_pinned t) /\
  states (list_eqb sexp_eqb) exM = Ok [[A 2%Z]; [A 0%Z; A 1%Z]].
Proof. exact reduce_pinned_minimise_not_minimal. Qed.
Print Assumptions C07_pinned_reduce_minimise_refuted.

(** the equalities used by the extracted driver decide [=] *)
Theorem C07_instance :
  (forall a b : N, N.eqb a b = true <-> a = b) /\ (forall a b : sexp, sexp_eqb a b = true <-> a = b).
Proof. exact (conj N_eqb_spec sexp_eqb_spec). Qed.
Print Assumptions C07_instance.
