(** Property C05: sharpening keeps exactly the programs that satisfy the
    written constraints.  Statements only.

    Model: Auto/Sharpen.v (dfta_constraints.py: __cfg2dfta__, __augment__,
    __count__, __tag__, __filter__, __match__, __process__,
    add_dfta_constraints; declarative [sat], [sat_everywhere], [sat_root]),
    Auto/SpecParser.v (parsing.py), on top of the C07 model Auto/Dfta.v and the
    C01 model Gram/Cfg.v.  Proofs: Auto/SharpenOps.v, SharpenProofs.v,
    SharpenTop.v, SharpenCfg.v, SharpenMain.v, SpecParserProofs.v,
    SpecParserNested.v.

    [tree_of p] is the tree of a program; [saccepts]/[uaccepts] are [accepts]
    of Auto/Dfta.v at the state types of the model; [srun] is [run].  A state
    is (type, (height, components newest first)); [pushes cs q] prepends
    components. *)
From Coq Require Import List Bool Arith NArith.
From PS Require Import Base.ListX Base.Ty Base.Prog Auto.Dfta Auto.DftaBase Gram.Cfg Gram.CfgSpec
  Auto.Sharpen Auto.SharpenBase Auto.SharpenOps Auto.SharpenProofs Auto.SharpenTop Auto.SharpenCfg Auto.SharpenMain
  Auto.SpecParser Auto.SpecParserProofs Auto.SpecParserNested.
Import ListNotations.

(** __cfg2dfta__ + reduce never fails; its language lies between the grammar
    and the grammar compiled without minimum variable depth and without
    forbidden patterns ([relax]): the states (type, height) forget both. *)
Theorem C05_cfg2dfta_sandwich : forall P, 2 <= n_gram P ->
  exists base, cfg2dfta P = Ok base /\ deterministic base /\
    forall p, (contains P p = true -> saccepts base (tree_of p) = true) /\
              (saccepts base (tree_of p) = true -> contains (relax P) p = true).
Proof. exact cfg2dfta_sandwich. Qed.
Print Assumptions C05_cfg2dfta_sandwich.

(** "sharpening never adds a program" for the base automaton: exactly when the
    grammar has minimum variable depth 0 and no forbidden pattern *)
Theorem C05_cfg2dfta : forall P, min_var P = 0 -> forbidden P = [] -> 2 <= n_gram P ->
  exists base, cfg2dfta P = Ok base /\ deterministic base /\
               forall p, saccepts base (tree_of p) = contains P p.
Proof. exact cfg2dfta_exact. Qed.
Print Assumptions C05_cfg2dfta.

(** otherwise it fails: DSL {one : int, add : int -> int -> int}, request
    int -> int, depth 2, minimum variable depth 1 (the default): the automaton
    accepts the bare var0, the grammar does not
    (known finding c05_cfg2dfta_forgets_context) *)
Theorem C05_cfg2dfta_refuted :
  exists P p base, 2 <= n_gram P /\ cfg2dfta P = Ok base /\
                   saccepts base (tree_of p) = true /\ contains P p = false.
Proof. exact cfg2dfta_refuted. Qed.
Print Assumptions C05_cfg2dfta_refuted.

(** __process__ at any level, any pattern (nested function patterns of any
    depth, repeated heads included): the automaton stays a dict, the run of a
    tree is the run of the input automaton with [added tok] more components
    [vals tok t], the newest of which is 1 iff the sub-term satisfies the
    pattern, and acceptance is unchanged *)
Theorem C05_process_state : forall tok A, deterministic A ->
  deterministic (process tok A) /\
  (forall t, srun (process tok A) t = option_map (pushes (vals tok t)) (srun A t)) /\
  (forall t, length (vals tok t) = added tok) /\
  (forall t, 0 < added tok -> hd 0 (vals tok t) = if sat tok t then 1 else 0) /\
  (forall t, saccepts (process tok A) t = saccepts A t).
Proof. exact process_state. Qed.
Print Assumptions C05_process_state.

(** the counting component is the saturating number of occurrences *)
Theorem C05_process_count : forall ss n t,
  vals (TAtMost ss n) t = [(if Nat.leb (Nat.min (occ ss t) (n + 1)) n then 1 else 0); Nat.min (occ ss t) (n + 1)] /\
  vals (TAtLeast ss n) t = [(if Nat.eqb (Nat.min (occ ss t) (n + 0)) n then 1 else 0); Nat.min (occ ss t) (n + 0)].
Proof. intros; split; reflexivity. Qed.
Print Assumptions C05_process_count.

(** level 0: a sketch restricts the final states, a local constraint filters
    the rules *)
Theorem C05_process_top_sketch : forall A tok, deterministic A ->
  exists A', process_top A tok false = Some A' /\ deterministic A' /\
             forall t, saccepts A' t = saccepts A t && sat tok t.
Proof. exact process_top_sketch. Qed.
Print Assumptions C05_process_top_sketch.

Theorem C05_process_top_local : forall A f args, deterministic A ->
  exists A', process_top A (TFun f args) true = Some A' /\ deterministic A' /\
             forall t, saccepts A' t = saccepts A t && sat_everywhere (TFun f args) t.
Proof. exact process_top_local. Qed.
Print Assumptions C05_process_top_local.

(** add_dfta_constraints on any automaton that is a dict: the loop
    (product, reduce, minimise after each constraint; sketch last) never fails
    and the result accepts exactly the trees accepted by the base automaton that
    satisfy every constraint at every occurrence of its head and the sketch at
    the root.  Uses C07_reduce, C07_product, C07_minimise_language,
    C07_map_states. *)
Theorem C05_sharpen_automaton : forall base toks sketch,
  deterministic base -> forallb supported toks = true ->
  exists D, add_constraints base toks sketch = SOk D /\ deterministic D /\
    forall t, uaccepts D t = saccepts base t && forallb (fun c => sat_everywhere c t) toks && sat_root sketch t.
Proof. exact add_constraints_ok. Qed.
Print Assumptions C05_sharpen_automaton.

(** the property: from a depth-bounded grammar *)
Theorem C05_sharpen : forall P toks sk,
  min_var P = 0 -> forbidden P = [] -> 2 <= n_gram P -> forallb supported toks = true ->
  exists base D, cfg2dfta P = Ok base /\ add_constraints base toks sk = SOk D /\
    forall p, uaccepts D (tree_of p) =
              contains P p && forallb (fun c => sat_everywhere_p c p) toks && sat_root_p sk p.
Proof. exact sharpen_exact. Qed.
Print Assumptions C05_sharpen.

(** without the two hypotheses: nothing that satisfies the specification is
    removed; anything added is a program of the relaxed grammar that satisfies
    every rule (this is what the classifier of c05_cfg2dfta_forgets_context
    checks) *)
Theorem C05_sharpen_sandwich : forall P toks sk, 2 <= n_gram P -> forallb supported toks = true ->
  exists base D, cfg2dfta P = Ok base /\ add_constraints base toks sk = SOk D /\
    forall p, (sharpen_spec P toks sk p = true -> uaccepts D (tree_of p) = true) /\
              (uaccepts D (tree_of p) = true -> sharpen_spec (relax P) toks sk p = true).
Proof. exact sharpen_sandwich. Qed.
Print Assumptions C05_sharpen_sandwich.

(** a local constraint whose topmost token is neither a function pattern nor
    Anything (a bare counting rule, ">(..)", a bare name): AssertionError *)
Theorem C05_unsupported_topmost : forall base toks sk, deterministic base -> forallb supported toks = false ->
  add_constraints base toks sk = SUnsupported.
Proof. exact unsupported_stops. Qed.
Print Assumptions C05_unsupported_topmost.

(** from the texts, with either parser ([fx] = false: as pinned, true: with
    proposed_fixes/C05-1 and C05-2): the construction never runs out of fuel,
    and when it returns an automaton its language is given by the parsed
    tokens *)
Theorem C05_sharpen_text : forall fx names P cs sketch,
  match sharpen_text fx names P cs sketch with
  | (Sharpened D, toks, sk) =>
    forallb supported toks = true /\
    exists base, cfg2dfta P = Ok base /\ deterministic D /\
      forall p, uaccepts D (tree_of p) = saccepts base (tree_of p) && all_sat toks sk p
  | (Unsupported, toks, _) => forallb supported toks = false
  | (ModelError, _, _) => False
  | (ParseError, _, _) => True
  end.
Proof. exact sharpen_text_ok. Qed.
Print Assumptions C05_sharpen_text.

(** an unknown name: as an argument it is the empty set (no sub-term matches,
    so every occurrence of the head is removed); as a head it yields a pattern
    with an empty head set, which add_dfta_constraints skips and which holds
    everywhere *)
Theorem C05_parser_unknown_symbol : forall fx T w,
  plain_name w -> unknown T w ->
  interpret_word fx T w = Some (TAllow []) /\
  (forall t, sat (TAllow []) t = false) /\
  (forall args, skipped (TFun [] args) = true /\ forall t, sat_everywhere (TFun [] args) t = true).
Proof. exact parser_unknown_symbol. Qed.
Print Assumptions C05_parser_unknown_symbol.

(** parse (show pattern) = the token the documented syntax denotes (repaired
    parser), for function patterns of any nesting depth.  A pattern [pat] is
    an argument rule (name set a,b / ^a,b / _ ; counting rule #(..)<=n, #[..]>=n
    in both spellings; sub-tree rule >(..) / >^(..)) or a function pattern
    "(head arg ... arg)" whose arguments are patterns; names are any non-empty
    strings without the syntax characters, "var<k>" being the variables. *)
Theorem C05_parser_roundtrip : forall T h args, wf_pat (PFunc h args) ->
  parse_specification true T (show (PFunc h args)) = Some (denote T (PFunc h args)).
Proof. exact parser_roundtrip. Qed.
Print Assumptions C05_parser_roundtrip.

(** a counting or sub-tree rule alone (as a sketch) *)
Theorem C05_parser_roundtrip_rule : forall T a, wf_nset (arg_set a) -> (forall s, a <> FSet s) ->
  parse_specification true T (show_arg a) = Some (denote_arg T a).
Proof. exact parser_roundtrip_rule. Qed.
Print Assumptions C05_parser_roundtrip_rule.

(** the name lists in [denote] mean what the documentation says: the
    primitives with one of the names, and the variables whose number is written
    "var<number>" *)
Theorem C05_parser_denotation : forall T ns s, Forall wf_name ns ->
  (In s (names_syms T ns) <->
   (exists nm, In nm ns /\ In (nm, s) (tprims T)) \/ (exists k, In (var_name k) ns /\ In (k, s) (tvars T))).
Proof. exact names_syms_spec. Qed.
Print Assumptions C05_parser_denotation.

(** the three silent drops of the pinned parser (known findings
    c05_parser_name_sets_in_count_and_subtree, c05_parser_all_anything_arguments_drop_head) *)
Theorem C05_parser_pinned_refuted :
  exists T,
    parse_specification false T ex_bracket_text = Some (TFun ex_head [TAtMost [] 1; TAny]) /\
    parse_specification true T ex_bracket_text = Some (TFun ex_head [TAtMost ex_counted 1; TAny]) /\
    parse_specification false T ex_any_text = Some TAny /\
    parse_specification true T ex_any_text = Some (TFun ex_head [TAny; TAny]).
Proof. exact parser_pinned_refuted. Qed.
Print Assumptions C05_parser_pinned_refuted.
