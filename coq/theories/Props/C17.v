(** Property C17: instantiating constants expands templates without moving
    probability mass.  Statements only; proofs are in Gram/ConstsProofs.v.

    Hypotheses (all computable, all true of the dictionaries the code builds):
      vt_okb vt      every list of values is duplicate free (equal values collapse
                     into one rule; the REPAIRED weights divide by the number of
                     distinct values, see C17_duplicate_value_refuted for the pinned code);
      dict_okb vt d  the keys of every rule / tag dictionary are pairwise distinct and
                     none is an already-valued constant of a type of the table;
      nonempty_forb  no type with a constant slot in the tag table has an empty list.
    Unambiguous grammars use the same instantiation function (inst_gen) on their
    rule and tag dictionaries; for them only the correspondence is checked. *)
From Coq Require Import QArith List Bool Permutation.
From PS Require Import Base.ListX Base.Prog Gram.Det Gram.DetProofs Gram.Consts Gram.ConstsProofs.
Import ListNotations.

(** The language of the instantiated grammar is the set of all instantiations
    of the programs of the original grammar. *)
Theorem C17_language : forall vt tbl x q, vt_okb vt = true -> dict_okb vt tbl = true ->
  (contains (inst_table vt tbl) x q = true <-> exists p, contains tbl x p = true /\ In q (insts vt p)).
Proof. intros vt tbl x q Hv Hd. apply contains_inst; [apply vt_okb_ok|apply dict_okb_ok]; auto. Qed.
Print Assumptions C17_language.

(** ... each obtained exactly once: both lists are duplicate free and they are
    permutations of each other; two different templates share no instantiation. *)
Theorem C17_exactly_once : forall vt tbl f x, vt_okb vt = true -> dict_okb vt tbl = true ->
  NoDup (language f (inst_table vt tbl) x) /\
  NoDup (flat_map (insts vt) (language f tbl x)) /\
  Permutation (language f (inst_table vt tbl) x) (flat_map (insts vt) (language f tbl x)).
Proof.
  intros vt tbl f x Hv Hd. pose proof (vt_okb_ok _ Hv) as Hv'. pose proof (dict_okb_ok _ _ Hd) as Hd'.
  pose proof (language_inst_perm vt tbl Hv' Hd' f x) as HP.
  assert (HN : NoDup (language f (inst_table vt tbl) x)) by (apply language_NoDup, table_ok_inst; auto).
  split; auto. split; auto. eapply Permutation_NoDup; eauto.
Qed.
Print Assumptions C17_exactly_once.

(** Program.all_constants_instantiation computes the same instantiations
    whenever it does not raise KeyError. *)
Theorem C17_program_side : forall vt p l, insts_py vt p = Some l -> l = insts vt p.
Proof. exact insts_py_spec. Qed.
Print Assumptions C17_program_side.

(** The probability of a template is shared among its instantiations. *)
Theorem C17_mass : forall vt tbl w x p,
  vt_okb vt = true -> dict_okb vt tbl = true -> dict_okb vt w = true -> nonempty_forb vt w = true ->
  contains tbl x p = true ->
  qsum (map (probability (inst_table vt tbl) (inst_weights vt w) x) (insts vt p)) == probability tbl w x p.
Proof.
  intros vt tbl w x p Hv Hd Hdw Hne. apply mass_conserved;
    [apply vt_okb_ok|apply dict_okb_ok|apply dict_okb_ok|apply nonempty_forb_ok]; auto.
Qed.
Print Assumptions C17_mass.

(** A normalised grammar stays normalised: well-formedness (rules everywhere,
    positive weights summing to 1 at every reachable non-terminal) is preserved,
    hence the probabilities still sum to 1 over the instantiated language. *)
Theorem C17_normalised : forall vt tbl w f x,
  vt_okb vt = true -> dict_okb vt tbl = true -> dict_okb vt w = true -> nonempty_forb vt w = true ->
  wf_at f tbl w x = true ->
  wf_at f (inst_table vt tbl) (inst_weights vt w) x = true /\
  qsum (map (probability (inst_table vt tbl) (inst_weights vt w) x) (language f (inst_table vt tbl) x)) == 1.
Proof.
  intros vt tbl w f x Hv Hd Hdw Hne Hwf. split; [|apply sum_after_inst; auto].
  apply wf_inst; [apply vt_okb_ok|apply dict_okb_ok|apply dict_okb_ok|apply nonempty_forb_ok|]; auto.
Qed.
Print Assumptions C17_normalised.

(** An empty list of values loses the mass of the slot (the code and the model
    agree on this behaviour; recorded finding c17_empty_value_list). *)
Theorem C17_empty_list_refuted : exists vt tbl w x f,
  vt_okb vt = true /\ dict_okb vt tbl = true /\ dict_okb vt w = true /\ wf_at f tbl w x = true /\
  ~ qsum (map (probability (inst_table vt tbl) (inst_weights vt w) x) (language f (inst_table vt tbl) x)) == 1.
Proof.
  exists CExample.vt_empty, CExample.tbl, CExample.w, CExample.x0, 3%nat.
  destruct CExample.ex_empty as [H1 [H2 [H3 [H4 H5]]]]. repeat split; auto.
  intros E. rewrite H5 in E. discriminate E.
Qed.
Print Assumptions C17_empty_list_refuted.

(** The pinned weights (division by the length of the list of values): the
    values [5; 5] create one rule carrying half of the slot's mass. *)
Theorem C17_duplicate_value_refuted : exists vt tbl w x f,
  dict_okb vt tbl = true /\ dict_okb vt w = true /\ nonempty_forb vt w = true /\ wf_at f tbl w x = true /\
  ~ qsum (map (probability (inst_table vt tbl) (inst_weights_pinned vt w) x) (language f (inst_table vt tbl) x)) == 1
  /\ qsum (map (probability (inst_table vt tbl) (inst_weights vt w) x) (language f (inst_table vt tbl) x)) == 1.
Proof.
  exists CExample.vt_dup, CExample.tbl, CExample.w, CExample.x0, 3%nat.
  destruct CExample.ex_dup_pinned as [_ [_ H]].
  split; [vm_compute; reflexivity|]. split; [vm_compute; reflexivity|]. split; [vm_compute; reflexivity|].
  split; [vm_compute; reflexivity|]. split.
  - intros E. rewrite H in E. discriminate E.
  - apply CExample.ex_dup_repaired.
Qed.
Print Assumptions C17_duplicate_value_refuted.
