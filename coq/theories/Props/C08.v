(** Property C08: splitting a probabilistic unambiguous grammar yields a
    partition of its programs with consistent weights.  Statements only; the
    proofs are in Enum/SplitterProofs.v, the model in Enum/Splitter.v.

    Vocabulary.  A derivation [d : deriv] is a start symbol and the sequence of
    (rule, alternative) choices of a leftmost derivation; [is_deriv tbl d] says it is
    a complete derivation of the table.  In an unambiguous grammar derivations and
    programs correspond one to one (property C06); [useqs] lists the derivations
    of a program.  [covers nodes d] counts the nodes of a list whose prefix starts d.
    [wf_input tbl w sw F]: every non-terminal has distinct (rule, alternative) pairs whose
    weights sum to 1, the start symbols are distinct, their weights sum to 1 and every
    derivation has fewer than F choices (finite grammar).  [repaired] is the balance loop
    with the proposed fixes C08-2..7, [pinned] the loop as found.  == is Qeq. *)
From Coq Require Import QArith List Bool Permutation.
From PS Require Import Base.ListX Base.Prog Gram.Det Gram.U Enum.Splitter Enum.SplitterProofs.
Import ListNotations.

(** ** nodes *)

(** The invariant of the node set: every node is the prefix it claims to be with the
    probability of that prefix, every derivation of the grammar starts with the prefix of
    exactly one node, the probabilities of the nodes sum to 1.  It holds of every list
    obtained from the initial nodes (one per start symbol) by reordering and by replacing
    a node by all its one-step extensions ([nreach]) ... *)
Theorem C08_nodes_partition : forall tbl w sw F nodes,
  wf_input tbl w sw F = true -> nreach tbl w (initial_nodes sw) nodes ->
  Forall (node_ok tbl w sw) nodes /\
  (forall d, is_deriv tbl d -> In (fst d) (map fst sw) -> covers nodes d = 1%nat) /\
  qsum (map nprob nodes) == 1.
Proof. intros tbl w sw F nodes WF R. destruct (reach_inv tbl w sw F nodes WF R); auto. Qed.
Print Assumptions C08_nodes_partition.

(** ... and __split_nodes_until_quantity_reached__ (with its index juggling and its bisect
    insertions into a list that is not always sorted) only does that, at every step: whenever
    it returns, the nodes satisfy the invariant and there are at least [quantity] of them. *)
Theorem C08_split_nodes : forall tbl w sw F fuel quantity nodes,
  wf_input tbl w sw F = true -> split_until tbl w fuel quantity (initial_nodes sw) = Ok nodes ->
  inv tbl w sw nodes /\ (quantity <= length nodes)%nat.
Proof. exact nodes_partition. Qed.
Print Assumptions C08_split_nodes.

(** ** groups (repaired balance loop) *)

(** Swaps, takes and in-group splits keep the groups a partition of a node set that
    satisfies the invariant; the mass tracked for a group is the sum of its nodes. *)
Theorem C08_groups_partition : forall tbl w sw F fuel splits th pg r,
  (0 < splits)%nat -> wf_input tbl w sw F = true ->
  split_into_nodes repaired tbl w sw fuel splits th = Ok (pg, r) ->
  inv tbl w sw (all_nodes pg) /\ masses_ok pg.
Proof. exact groups_partition. Qed.
Print Assumptions C08_groups_partition.

(** The repaired loop returns exactly [splits] groups and none of them is empty (a take
    never removes the last node of a group, an exchange keeps the sizes, an in-group
    split only happens in a group of two nodes or more). *)
Theorem C08_groups_nonempty : forall tbl w sw fuel splits th pg r,
  split_into_nodes repaired tbl w sw fuel splits th = Ok (pg, r) ->
  length pg = splits /\ Forall (fun g : group => fst g <> []) pg.
Proof. exact groups_nonempty. Qed.
Print Assumptions C08_groups_nonempty.

(** ** fragments (specified behaviour of the fragment grammars), for ANY groups whose
    nodes satisfy the invariant -- in particular those of the repaired loop *)

(** pairwise disjoint and union = language: every derivation of the grammar is in exactly one fragment *)
Theorem C08_fragments_partition : forall tbl w sw pg d,
  inv tbl w sw (all_nodes pg) -> is_deriv tbl d -> In (fst d) (map fst sw) ->
  length (filter (fun g : group => frag_memberb (fst g) d) pg) = 1%nat.
Proof. exact groups_exactly_one. Qed.
Print Assumptions C08_fragments_partition.

(** the language of the original grammar and of a fragment as duplicate-free lists *)
Theorem C08_language : forall tbl w sw F d,
  wf_input tbl w sw F = true ->
  (In d (all_derivs tbl F (map fst sw)) <-> is_deriv tbl d /\ In (fst d) (map fst sw)).
Proof. intros. apply (all_derivs_spec tbl w sw F); auto. Qed.
Print Assumptions C08_language.

Theorem C08_fragments_language : forall tbl w sw F pg g,
  wf_input tbl w sw F = true -> inv tbl w sw (all_nodes pg) -> In g pg ->
  NoDup (frag_derivs tbl F (fst g)) /\
  forall d, In d (frag_derivs tbl F (fst g)) <-> is_deriv tbl d /\ frag_memberb (fst g) d = true.
Proof. exact fragment_language. Qed.
Print Assumptions C08_fragments_language.

(** inside a fragment the probability is the original one divided by the mass of the group
    (definition of [frag_dprob]) and these probabilities sum to 1 over the fragment *)
Theorem C08_fragments_sum : forall tbl w sw F pg g,
  wf_input tbl w sw F = true -> inv tbl w sw (all_nodes pg) -> In g pg -> ~ mass_of (fst g) == 0 ->
  qsum (map (frag_dprob tbl w sw (fst g)) (frag_derivs tbl F (fst g))) == 1.
Proof. exact fragment_sum. Qed.
Print Assumptions C08_fragments_sum.

(** a non-empty group gives a non-empty fragment *)
Theorem C08_fragments_nonempty : forall tbl w sw F pg g,
  wf_input tbl w sw F = true -> inv tbl w sw (all_nodes pg) -> In g pg -> fst g <> [] ->
  frag_derivs tbl F (fst g) <> [].
Proof. exact fragment_nonempty. Qed.
Print Assumptions C08_fragments_nonempty.

(** programs: every derivation listed for a program is a derivation of the grammar; a program
    with exactly one derivation is a member of exactly one specified fragment, with
    probability = probability of its derivation / mass of the group *)
Theorem C08_program_derivations : forall tbl x p d, In d (useqs tbl x p) -> is_deriv tbl (x, d).
Proof. exact useqs_deriv. Qed.
Print Assumptions C08_program_derivations.

Theorem C08_program_fragment : forall tbl w sw pg p d,
  inv tbl w sw (all_nodes pg) -> pderivs tbl (map fst sw) p = [d] ->
  length (filter (fun g : group => frag_member tbl (map fst sw) (fst g) p) pg) = 1%nat /\
  forall g, In g pg -> frag_member tbl (map fst sw) (fst g) p = true ->
            frag_prob tbl w sw (map fst sw) (fst g) p = deriv_prob tbl w sw d / mass_of (fst g).
Proof. exact program_one_fragment. Qed.
Print Assumptions C08_program_fragment.

(** ** the returned ratio (repaired loop): mass of the heaviest group / mass of the lightest *)
Theorem C08_ratio : forall tbl w sw fuel splits th pg r,
  (0 < splits)%nat -> weights_norm tbl w ->
  split_into_nodes repaired tbl w sw fuel splits th = Ok (pg, r) ->
  exists gmin gmax, In gmin pg /\ In gmax pg /\
    (forall g, In g pg -> mass_of (fst gmin) <= mass_of (fst g) /\ mass_of (fst g) <= mass_of (fst gmax)) /\
    ~ mass_of (fst gmin) == 0 /\ r == mass_of (fst gmax) / mass_of (fst gmin).
Proof. exact ratio_max_min. Qed.
Print Assumptions C08_ratio.

(** ** the code as found *)

(** returns a "ratio" below 1 (3/5 for groups of mass 5/8 and 3/8): the list of groups is
    not kept sorted, so last / first is not heaviest / lightest (C08-6, C08-7) *)
Theorem C08_ratio_refuted :
  exists tbl w sw F fuel splits th pg r,
    wf_input tbl w sw F = true /\ split_into_nodes pinned tbl w sw fuel splits th = Ok (pg, r) /\ r < 1
    /\ map (fun g : group => Qred (mass_of (fst g))) pg = [5 # 8; 3 # 8].
Proof. exact pinned_ratio_below_one. Qed.
Print Assumptions C08_ratio_refuted.

(** returns a group without nodes, i.e. fewer fragments than requested (C08-4, C08-5) *)
Theorem C08_nonempty_refuted :
  exists tbl w sw F fuel splits th pg r,
    wf_input tbl w sw F = true /\ split_into_nodes pinned tbl w sw fuel splits th = Ok (pg, r) /\
    existsb (fun g : group => Nat.eqb (length (fst g)) 0) pg = true.
Proof. exact pinned_empty_group. Qed.
Print Assumptions C08_nonempty_refuted.

(** the in-group split always raises TypeError (C08-2) ... *)
Theorem C08_split_in_group_refuted : forall tbl w pg gi, try_split pinned tbl w pg gi = TypeErr.
Proof. exact pinned_try_split_raises. Qed.
Print Assumptions C08_split_in_group_refuted.

(** ... and once it reads the group, it removes another node than the one it split: the
    groups stop being a partition (the node probabilities do not sum to 1 any more) (C08-3) *)
Theorem C08_groups_partition_refuted :
  exists tbl w sw F fuel splits th pg r,
    wf_input tbl w sw F = true /\
    split_into_nodes (mkFixes true false true true true true) tbl w sw fuel splits th = Ok (pg, r) /\
    ~ qsum (map nprob (all_nodes pg)) == 1.
Proof. exact wrong_node_removed. Qed.
Print Assumptions C08_groups_partition_refuted.

(** ** termination (PARTIAL)
    Proved: the split phase stops within the number of proper derivation prefixes of the
    grammar ([nodes_size]: every successful split consumes one of them), so with more fuel
    than that it never runs out of fuel.  NOT proved: termination of the balance loop of the
    repaired code.  Its in-group splits are bounded by the same measure and every swap or take
    it accepts strictly lowers heaviest / lightest (it is scored by exactly the ratio it leads
    to), so no grouping of a given node set can repeat; the finiteness argument that turns
    this into a bound is not formalised: the model takes explicit fuel and the correspondence
    check reports a split that does not return as a violation. *)
Theorem C08_terminates_partial : forall tbl w sw F fuel quantity,
  wf_input tbl w sw F = true -> (nodes_size tbl F (initial_nodes sw) < fuel)%nat ->
  split_until tbl w fuel quantity (initial_nodes sw) <> OutOfFuel.
Proof. exact split_phase_terminates. Qed.
Print Assumptions C08_terminates_partial.
