(** Property C16: equal types/programs hash equally and survive persistence
    across processes.  Statements only; proofs are in Syn/EqHashProofs.v and
    Syn/PickleProofs.v.

    [py_eq]/[hash_key] are the definitions after the proposed repairs
    C16-1..C16-5; the [..._refuted] theorems are about the literal model of the
    code at the pinned commit ([pinned]: no repair applied), with the concrete
    collision-free hasher [toy]. *)
From Coq Require Import ZArith List Bool.
From PS Require Import Syn.EqHash Syn.EqHashProofs Syn.Pickle Syn.PickleProofs.
Import ListNotations.

(** [==] is reflexive, symmetric and transitive on every object the
    constructors can build (types and programs, any nesting). *)
Theorem C16_eq_equivalence :
  (forall a, py_eq a a = true) /\
  (forall a b, py_eq a b = py_eq b a) /\
  (forall a b c, py_eq a b = true -> py_eq b c = true -> py_eq a c = true).
Proof. exact py_eq_equivalence. Qed.
Print Assumptions C16_eq_equivalence.

(** Equal objects have equal hashes, whatever the process' hash functions for
    strings, integers, tuples and frozensets (the latter independent of the
    order of the members, which is all [perm_inv] says). *)
Theorem C16_eq_hash : forall a b, py_eq a b = true ->
  forall H, perm_inv H -> hash_of H (hash_key a) = hash_of H (hash_key b).
Proof. exact py_eq_hash. Qed.
Print Assumptions C16_eq_hash.

(** ... hence a dict/set (same hash, then [==]) cannot tell them apart,
    neither as stored key nor as probe. *)
Theorem C16_interchangeable : forall H, perm_inv H -> forall a b, py_eq a b = true ->
  forall c, table_match H c a = table_match H c b /\ table_match H a c = table_match H b c.
Proof. exact py_eq_interchangeable. Qed.
Print Assumptions C16_interchangeable.

(** Key trees that [key_eqv] identifies have equal hashes for every hasher
    (soundness of the decision the correspondence check uses). *)
Theorem C16_key_sound : forall H, perm_inv H ->
  forall k k', key_eqv k k' = true -> hash_of H k = hash_of H k'.
Proof. exact key_eqv_hash. Qed.
Print Assumptions C16_key_sound.

(** The hash an object caches at construction is the hash of its key, so equal
    objects carry equal cached hashes in every process. *)
Theorem C16_cached_hash : forall H, perm_inv H ->
  (forall t, th (build_ty H t) = hash_of H (ty_key t)) /\
  (forall p, ph (build_prog H p) = hash_of H (prog_key p)).
Proof. intros H HP; split; [exact (build_ty_hash H HP)|exact (build_prog_hash H HP)]. Qed.
Print Assumptions C16_cached_hash.

(** Persistence: whatever the writer's and the reader's hash functions, what
    the reader rebuilds from the pickle of a type / program is the original
    object, [==] to it, and every cached hash (and computed type) inside it is
    the one a fresh construction in the reading process computes. *)
Theorem C16_pickle_roundtrip : forall H H',
  (forall t, let y := rebuild_ty H' (reduce_ty all_registered (build_ty H t)) in
             erase_ty y = t /\ cached_ok_ty H' y /\ ty_eq (erase_ty y) t = true) /\
  (forall p, let y := rebuild_prog H' (reduce_prog all_registered (build_prog H p)) in
             erase_prog y = p /\ cached_ok_prog H' y /\ prog_eq (erase_prog y) p = true).
Proof. intros H H'; split; [exact (roundtrip_ty H H')|exact (roundtrip_prog H H')]. Qed.
Print Assumptions C16_pickle_roundtrip.

(** ... lifted to lists, tuples, dataclass instances and dicts of such objects
    (tasks, datasets, rule tables of grammars). *)
Theorem C16_pickle_roundtrip_containers : forall H H' d,
  let y := rebuild_data H' (reduce_data all_registered (build_data H d)) in
  erase_data y = d /\ cached_ok_data H' y.
Proof. exact roundtrip_data. Qed.
Print Assumptions C16_pickle_roundtrip_containers.

(** A dict read back answers a lookup with a freshly built key (any tuple of
    objects and atoms) exactly as a lookup by [==] in the original. *)
Theorem C16_pickle_dict_lookup : forall H H', perm_inv H' -> forall k ks vs,
  hdict_get H' (build_data H' k)
    (map (fun d => rebuild_data H' (reduce_data all_registered (build_data H d))) ks)
    (map (fun d => rebuild_data H' (reduce_data all_registered (build_data H d))) vs)
  = option_map (build_data H') (odict_get k ks vs).
Proof. exact rebuilt_dict_get. Qed.
Print Assumptions C16_pickle_dict_lookup.

(** A class pickled without its reducer would keep the writer's hash. *)
Theorem C16_unregistered_stale : forall reg H H',
  (forall t, reg_ty reg (class_of_ty t) = false ->
             th (rebuild_ty H' (reduce_ty reg (build_ty H t))) = th (build_ty H t)) /\
  (forall p, reg_prog reg (class_of_prog p) = false ->
             ph (rebuild_prog H' (reduce_prog reg (build_prog H p))) = ph (build_prog H p)).
Proof. intros reg H H'; split; [intros t; exact (unregistered_ty_stale reg H H' t)|intros p; exact (unregistered_prog_stale reg H H' p)]. Qed.
Print Assumptions C16_unregistered_stale.

(** The definitions at the pinned commit: equal objects, different hashes. *)
Theorem C16_variable_refuted : prog_refutes (OVariable 0 T_INT) (OVariable 0 T_BOOL).
Proof. exact pinned_variable_refuted. Qed.
Print Assumptions C16_variable_refuted.

Theorem C16_sum_order_refuted : ty_refutes (OSum [T_INT; T_BOOL]) (OSum [T_BOOL; T_INT]).
Proof. exact pinned_sum_order_refuted. Qed.
Print Assumptions C16_sum_order_refuted.

Theorem C16_sum_duplicate_refuted : ty_refutes (OSum [T_INT; T_INT]) (OSum [T_INT]).
Proof. exact pinned_sum_duplicate_refuted. Qed.
Print Assumptions C16_sum_duplicate_refuted.

Theorem C16_generic_refuted : ty_refutes (OGeneric 9 [T_INT] false) (OGeneric 9 [T_INT; T_BOOL] false).
Proof. exact pinned_generic_refuted. Qed.
Print Assumptions C16_generic_refuted.

Theorem C16_generic_transitivity_refuted :
  lit_ty_eq pinned 50 (OGeneric 9 [T_INT; T_BOOL] false) (OGeneric 9 [T_INT] false) = Some true /\
  lit_ty_eq pinned 50 (OGeneric 9 [T_INT] false) (OGeneric 9 [T_INT; T_STRING] false) = Some true /\
  lit_ty_eq pinned 50 (OGeneric 9 [T_INT; T_BOOL] false) (OGeneric 9 [T_INT; T_STRING] false) = Some false.
Proof. exact pinned_generic_not_transitive. Qed.
Print Assumptions C16_generic_transitivity_refuted.

Theorem C16_constant_refuted :
  prog_refutes (OConstant T_INT (CSet (CInt 1))) (OConstant T_INT (CSet (CFloat 1))) /\
  prog_refutes (OConstant T_INT (CSet (CInt 1))) (OConstant T_INT (CSet (CBool true))).
Proof. exact (conj pinned_constant_float_refuted pinned_constant_bool_refuted). Qed.
Print Assumptions C16_constant_refuted.

Theorem C16_constant_flag_refuted :
  prog_refutes (OConstant T_INT (mk_cstate CNone (Some true))) (OConstant T_INT (mk_cstate CNone None)).
Proof. exact pinned_constant_flag_refuted. Qed.
Print Assumptions C16_constant_flag_refuted.

Theorem C16_fixed_refuted : ty_refutes (OFixed 20 [T_INT]) (OFixed 21 [T_INT]).
Proof. exact pinned_fixed_refuted. Qed.
Print Assumptions C16_fixed_refuted.
