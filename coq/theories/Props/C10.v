(** Property C10: a PBE solver returns the first enumerated program consistent
    with all examples.  Statements only; proofs are in Sem/SolverProofs.v.
    Generic in the DSL semantics [vapp]/[prim_value], the skip set, the
    equality [veq] comparing a result with the expected output, and stated for
    a clock that never fires ([timed_out k = false]: the wall clock is outside
    the property).  [kind] ranges over Naive and Cutoff (NaivePinned is the
    naive test before repair C10-1, kept only for the refutation below). *)
From Coq Require Import NArith List Bool Sorted.
From PS Require Import Base.Value Base.Prog Sem.Semantics Sem.Eval Sem.EvalProofs Sem.Solver Sem.SolverProofs.
Import ListNotations.

(** The events seen by the caller (yielded program index / StopIteration /
    escaping exception), one per next()/send(), under any answer sequence,
    are those of the protocol specification: the passing programs in order,
    cut after the first accepted one. *)
Theorem C10_yields : forall vapp prim_value skip veq timed_out,
  (forall k, timed_out k = false) ->
  forall kind exs progs s answers,
    fst (run_task vapp prim_value skip veq timed_out kind exs progs s answers) =
    spec_events vapp prim_value skip veq kind exs progs answers.
Proof. exact run_task_events. Qed.
Print Assumptions C10_yields.

(** The list of candidates used by the specification contains index i exactly
    when program i satisfies every example (never a failing one, never a
    passing one skipped), as long as no earlier program made the test raise. *)
Theorem C10_passing_exactly : forall vapp prim_value skip veq kind exs progs i,
  kind <> NaivePinned ->
  (In i (fst (scan vapp prim_value skip veq kind exs 0 progs)) <->
   exists p, nth_error progs i = Some p /\ passes vapp prim_value skip veq p exs = true /\
             no_exc_before vapp prim_value skip veq kind exs progs i).
Proof. exact scan_passing. Qed.
Print Assumptions C10_passing_exactly.

(** In enumeration order. *)
Theorem C10_order : forall vapp prim_value skip veq kind exs progs,
  StronglySorted lt (fst (scan vapp prim_value skip veq kind exs 0 progs)).
Proof. intros. apply scan_sorted. Qed.
Print Assumptions C10_order.

(** Answering True stops the search for good ... *)
Theorem C10_stop : forall i more final rs,
  protocol (i :: more) final (true :: rs) = Yield i :: repeat Stop (S (length rs)).
Proof. exact protocol_stop. Qed.
Print Assumptions C10_stop.

(** ... answering False (or plain next()) resumes it at the next passing program ... *)
Theorem C10_resume : forall i more final rs,
  protocol (i :: more) final (false :: rs) = Yield i :: protocol more final rs.
Proof. exact protocol_resume. Qed.
Print Assumptions C10_resume.

(** ... and when no candidate is left the generator ends (StopIteration, or
    the escaping exception) and stays ended. *)
Theorem C10_exhausted : forall final rs, protocol [] final rs = final :: repeat Stop (length rs).
Proof. exact protocol_end. Qed.
Print Assumptions C10_exhausted.

(** Rejecting every proposal walks through all the passing programs. *)
Theorem C10_reject_all : forall final passing n, length passing <= n ->
  protocol passing final (repeat false n) = map Yield passing ++ final :: repeat Stop (n - length passing).
Proof. exact protocol_reject_all. Qed.
Print Assumptions C10_reject_all.

(** Naive and cut-off tests agree: always on "true", on every verdict when no
    evaluation raises; when the naive test raises the cut-off test raises the
    same exception or has already rejected the program. *)
Theorem C10_naive_cutoff : forall vapp prim_value skip veq p exs,
  (forall b, test vapp prim_value skip veq Naive p exs = Ok b -> test vapp prim_value skip veq Cutoff p exs = Ok b) /\
  (forall e, test vapp prim_value skip veq Cutoff p exs = Exc e -> test vapp prim_value skip veq Naive p exs = Exc e) /\
  (forall e, test vapp prim_value skip veq Naive p exs = Exc e ->
             test vapp prim_value skip veq Cutoff p exs = Exc e \/ test vapp prim_value skip veq Cutoff p exs = Ok false) /\
  (test vapp prim_value skip veq Naive p exs = Ok true <-> test vapp prim_value skip veq Cutoff p exs = Ok true).
Proof. exact naive_cutoff_relation. Qed.
Print Assumptions C10_naive_cutoff.

Theorem C10_naive_cutoff_agree : forall vapp prim_value skip veq p exs,
  (forall ex, In ex exs -> raises vapp prim_value skip veq p ex = false) ->
  test vapp prim_value skip veq Naive p exs = test vapp prim_value skip veq Cutoff p exs.
Proof. exact naive_cutoff_agree. Qed.
Print Assumptions C10_naive_cutoff_agree.

(** Whole runs (several tasks on one solver object, any answers): identical
    events and statistics for the two solvers when no evaluation raises a
    non-skipped exception. *)
Theorem C10_naive_cutoff_runs : forall vapp prim_value skip veq timed_out,
  (forall k, timed_out k = false) ->
  forall ts s, never_raises vapp prim_value skip veq ts ->
    run_tasks vapp prim_value skip veq timed_out Naive s ts = run_tasks vapp prim_value skip veq timed_out Cutoff s ts.
Proof. exact naive_cutoff_runs. Qed.
Print Assumptions C10_naive_cutoff_runs.

(** No example at all: every program passes, for both solvers (repaired code). *)
Theorem C10_zero_examples : forall vapp prim_value skip veq p,
  test vapp prim_value skip veq Naive p [] = Ok true /\ test vapp prim_value skip veq Cutoff p [] = Ok true.
Proof. exact zero_examples. Qed.
Print Assumptions C10_zero_examples.

(** The naive test as it is before repair C10-1 divides by the number of
    examples: with none it raises ZeroDivisionError where the cut-off test accepts. *)
Theorem C10_naive_zero_examples_refuted : forall vapp prim_value skip veq p,
  test vapp prim_value skip veq NaivePinned p [] = Exc E_ZERODIV /\ test vapp prim_value skip veq Cutoff p [] = Ok true.
Proof. exact pinned_zero_examples_refuted. Qed.
Print Assumptions C10_naive_zero_examples_refuted.

(** ... and it is the repaired test on every task with at least one example. *)
Theorem C10_pinned_eq_naive : forall vapp prim_value skip veq p exs, exs <> [] ->
  test vapp prim_value skip veq NaivePinned p exs = test vapp prim_value skip veq Naive p exs.
Proof. exact pinned_eq_naive. Qed.
Print Assumptions C10_pinned_eq_naive.

(** Statistics: accepting the solution of index i (rank i+1 in the
    enumeration) adds i+1 to the number of programs; a task that ends
    otherwise adds nothing. *)
Theorem C10_stats : forall vapp prim_value skip veq timed_out,
  (forall k, timed_out k = false) ->
  forall kind exs progs s a0 replies i,
    accepted (fst (scan vapp prim_value skip veq kind exs 0 progs)) replies = Some i ->
    total (snd (run_task vapp prim_value skip veq timed_out kind exs progs s (a0 :: replies))) = total s + S i.
Proof. exact stats_accepted. Qed.
Print Assumptions C10_stats.

Theorem C10_stats_unaccepted : forall vapp prim_value skip veq timed_out,
  (forall k, timed_out k = false) ->
  forall kind exs progs s a0 replies,
    accepted (fst (scan vapp prim_value skip veq kind exs 0 progs)) replies = None ->
    total (snd (run_task vapp prim_value skip veq timed_out kind exs progs s (a0 :: replies))) = total s.
Proof. exact stats_not_accepted. Qed.
Print Assumptions C10_stats_unaccepted.

(** [accepted] is the first yield answered True. *)
Theorem C10_accepted_char : forall passing replies i,
  accepted passing replies = Some i <->
  exists j, nth_error passing j = Some i /\ nth_error replies j = Some true /\
            forall j', j' < j -> nth_error replies j' = Some false.
Proof. exact accepted_spec. Qed.
Print Assumptions C10_accepted_char.

(** Several tasks on one solver object: per task the specified events, the
    statistics accumulate. *)
Theorem C10_tasks : forall vapp prim_value skip veq timed_out,
  (forall k, timed_out k = false) ->
  forall kind ts s,
    run_tasks vapp prim_value skip veq timed_out kind s ts = spec_tasks vapp prim_value skip veq kind (total s) ts.
Proof. exact run_tasks_spec. Qed.
Print Assumptions C10_tasks.

(** A non-skippable exception escapes at exactly the first program whose test
    raises; otherwise the enumeration ends with StopIteration. *)
Theorem C10_raise : forall vapp prim_value skip veq kind exs progs,
  match snd (scan vapp prim_value skip veq kind exs 0 progs) with
  | Raise e => exists n p, nth_error progs n = Some p /\ test vapp prim_value skip veq kind p exs = Exc e /\
                           no_exc_before vapp prim_value skip veq kind exs progs n
  | Stop => no_exc_before vapp prim_value skip veq kind exs progs (length progs)
  | Yield _ => False
  end.
Proof. intros. apply scan_final. Qed.
Print Assumptions C10_raise.

(** The evaluator cache is irrelevant (by C11): a test run through the cached
    evaluator in any correct cache state gives the verdict of the reference
    semantics and leaves a correct cache. *)
Theorem C10_cache_irrelevant : forall vapp prim_value skip veq kind uc c p exs,
  cache_inv vapp prim_value skip c ->
  fst (test_cached vapp prim_value skip veq kind uc c p exs) = test vapp prim_value skip veq kind p exs /\
  cache_inv vapp prim_value skip (snd (test_cached vapp prim_value skip veq kind uc c p exs)).
Proof. exact test_cached_correct. Qed.
Print Assumptions C10_cache_irrelevant.
